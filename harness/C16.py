"""C16 -- EOS library closures and Newton Jacobians are self-consistent."""
from fractions import Fraction
import numpy as np

from symx import terms as T
from symx.framework import Obligation, V
from symx.engine import SymReal, current
from . import common as H
from .common import K, Mode

EXPLANATION = ('The real EOS methods and residual-class methods (F, F_prime, F_prime_inv, determinant) are executed on '
               'symbolic states and symbolic EOS constants; z3 decides closure inversion, partial-derivative identities '
               '(against exact symbolic derivatives of the closure terms), Jacobian identities entry by entry, '
               'F_prime_inv @ F_prime == I, and that any state with F == 0 (Newton stub contract) satisfies the three '
               'jump conditions (with D > 0 at physical zeros).  The real Newton loop (newton_solver.solve) is executed symbolically with '
               'an iteration budget of 1-2: every normally returning path has both convergence measures within the tolerance.')
BOUNDS = ['every path of the piecewise Steinberg formulas explored separately',
          'Newton iteration replaced by its contract F(x*) == 0 in the jump-condition obligations (root selection outside the claim); the real loop with an iteration budget of 1-2 in the newton.* obligations']
OUTSIDE = ['whether Newton converges and to which root', 'the singularity-eos wrapper class (needs an external library)']
ASSUMPTIONS = ['Newton stub: solve() returns an arbitrary state with F(state) == 0 in exact arithmetic']
META = {
    'level_text': ('Bounded symbolic check of the real EOS/residual methods: density, pressure, energy, shock speed, initial '
                   'state and all EOS constants are symbolic reals; z3 proves closure inversion, the four partial derivatives, '
                   'each Jacobian entry, the inverse Jacobian and the jump conditions at any zero of the residual, on every '
                   'feasible path; geometry/symmetry enumerated. Not a proof: floats as reals, Newton replaced by its contract.'),
    'level_note': ('Trusted: z3; symx proxies/shims/differentiation (validated per path against the unshimmed methods); the '
                   'statement of the three Noh jump conditions in harness/C16.py.'),
}

EOSM = 'exactpack.solvers.nohblackboxeos.equations_of_state.eos_library'
RESM = 'exactpack.solvers.nohblackboxeos.solution_tools.residual_functions'
NEWM = 'exactpack.solvers.nohblackboxeos.solution_tools.newton_solvers'
BBM = 'exactpack.solvers.nohblackboxeos.blackboxnoh'

# EOS catalogue: name -> (constructor kwargs names (symbolic), domain builder)
EOS = {
    'ideal_gas_eos': (['gamma'], lambda V: [T.gt(V('gamma'), T.ONE)]),
    'stiffened_gas_eos': (['gamma', 'c_s', 'rho_inf'],
                          lambda V: [T.gt(V('gamma'), T.ONE), T.gt(V('c_s'), T.ZERO), T.gt(V('rho_inf'), T.ZERO)]),
    'noble_abel_eos': (['gamma', 'b'], lambda V: [T.gt(V('gamma'), T.ONE), T.ge(V('b'), T.ZERO),
                                                   T.lt(T.mul(V('b'), V('rho')), T.ONE)]),
    'carnahan_starling_eos': (['gamma', 'b'], lambda V: [T.gt(V('gamma'), T.ONE), T.gt(V('b'), T.ZERO),
                                                          T.lt(T.mul(V('b'), V('rho')), T.ONE)]),
    'steinberg': (['reference_density', 'reference_pressure', 'reference_gruneisen', 'b', 'c_0', 's_1', 's_2', 's_3'],
                  lambda V: [T.gt(V('reference_density'), T.ZERO), T.ge(V('reference_pressure'), T.ZERO),
                             T.gt(V('reference_gruneisen'), T.ZERO), T.gt(V('b'), T.ZERO), T.gt(V('c_0'), T.ZERO)]),
    'aluminum_eos': ([], lambda V: []),
}


def make_eos(name, mk):
    m = H.mod(EOSM)
    cls = getattr(m, name)
    names = EOS[name][0]
    if name == 'steinberg':
        return cls(*[mk(n) for n in names])
    return cls(**{n: mk(n) for n in names})


class EosClosure(Obligation):
    """closures are mutual inverses; the four partials are the derivatives of the closures"""
    uses_derivatives = True

    def __init__(self, name):
        self.name = name
        self.id = 'C16.eos.%s' % name
        self.modules = [H.mod(EOSM)]
        cls = getattr(H.mod(EOSM), name)
        self.functions = [getattr(cls, f) for f in ('e', 'P', 'de_drho', 'de_dP', 'dP_drho', 'dP_de')]
        self.bounds = 'rho>0, e, P and all EOS constants symbolic; each branch of piecewise EOS formulas is a path'
        self.max_paths = 200

    def build(self, mk):
        eos = make_eos(self.name, mk)
        rho, P, e = mk('rho'), mk('P'), mk('e')
        out = {}
        out['e(rho,P)'] = eos.e(rho, P)
        out['P(rho,e)'] = eos.P(rho, e)
        out['P(rho,e(rho,P))'] = eos.P(rho, eos.e(rho, P))
        out['e(rho,P(rho,e))'] = eos.e(rho, eos.P(rho, e))
        out['de_drho'] = eos.de_drho(rho, P)
        out['de_dP'] = eos.de_dP(rho, P)
        out['dP_drho'] = eos.dP_drho(rho, e)
        out['dP_de'] = eos.dP_de(rho, e)
        return out

    def domain(self, V):
        d = [T.gt(V('rho'), T.ZERO), T.gt(V('e'), T.ZERO), T.gt(V('P'), T.ZERO)]
        d += EOS[self.name][1](V)
        if self.name in ('steinberg',):
            # away from the switching density (the piecewise formulas are only C0 there)
            d.append(T.ne(V('rho'), V('reference_density')))
        if self.name == 'aluminum_eos':
            d.append(T.ne(V('rho'), T.const(Fraction('2.703'))))
        return d

    def claims(self, cx):
        cx.eq('P(rho,e(rho,P))==P', cx['P(rho,e(rho,P))'], cx.p('P'))
        cx.eq('e(rho,P(rho,e))==e', cx['e(rho,P(rho,e))'], cx.p('e'))
        cx.eq('de_drho==d e/d rho', cx['de_drho'], cx.d(lambda c: c['e(rho,P)'], 'rho'))
        cx.eq('de_dP==d e/d P', cx['de_dP'], cx.d(lambda c: c['e(rho,P)'], 'P'))
        cx.eq('dP_drho==d P/d rho', cx['dP_drho'], cx.d(lambda c: c['P(rho,e)'], 'rho'))
        cx.eq('dP_de==d P/d e', cx['dP_de'], cx.d(lambda c: c['P(rho,e)'], 'e'))


RESID = {
    'energy_noh_residual': ('rho', 'P', 'D'),
    'pressure_noh_residual': ('rho', 'e', 'D'),
    'simplified_energy_noh_residual': ('rho', 'P'),
    'simplified_pressure_noh_residual': ('rho', 'e'),
}


class ResidualJacobian(Obligation):
    """F_prime == dF/dstate, F_prime_inv @ F_prime == I, determinant"""
    uses_derivatives = True

    def __init__(self, rname, ename, sym_):
        self.rname, self.ename, self.sym = rname, ename, sym_
        self.id = 'C16.jac.%s.%s.m%d' % (rname.replace('_noh_residual', ''), ename.replace('_eos', ''), sym_)
        self.modules = [H.mod(EOSM), H.mod(RESM)]
        cls = getattr(H.mod(RESM), rname)
        self.functions = [cls.F, cls.F_prime, cls.F_prime_inv, cls.determinant]
        self.bounds = 'state, initial state (u0<0, rho0>0, P0) and EOS constants symbolic; symmetry fixed per obligation'
        self.max_paths = 120
        self.timeout_s = 25
        self.extra_shim = {'print': H.quiet_print}

    def build(self, mk):
        eos = make_eos(self.ename, mk)
        simplified = self.rname.startswith('simplified')
        P0 = 0 if (simplified or self.sym != 0) else mk('P0')
        ic = {'velocity': mk('u0'), 'density': mk('rho0'), 'pressure': P0, 'symmetry': self.sym}
        res = getattr(H.mod(RESM), self.rname)(ic, eos)
        names = RESID[self.rname]
        state = [mk(n) for n in names]
        n = len(names)
        out = {}
        F = res.F(list(state))
        for i in range(n):
            out['F%d' % i] = F[i]
        DF = res.F_prime(list(state))
        DF = np.array(DF, dtype=object).copy() if Mode.symbolic(mk) else np.array(DF, dtype=float).copy()
        for i in range(n):
            for j in range(n):
                out['DF%d%d' % (i, j)] = DF[i, j]
        DFi = res.F_prime_inv(list(state))
        prod = np.dot(DFi, DF)
        for i in range(n):
            for j in range(n):
                out['I%d%d' % (i, j)] = prod[i, j]
        if simplified:
            out['det'] = res.determinant(list(state))
            out['det_ref'] = DF[0, 0] * DF[1, 1] - DF[0, 1] * DF[1, 0]
        return out

    def domain(self, V):
        names = RESID[self.rname]
        d = [T.lt(V('u0'), T.ZERO), T.gt(V('rho0'), T.ZERO), T.gt(V('rho'), T.ZERO)]
        if 'D' in names:
            d.append(T.gt(V('D'), T.ZERO))
        if 'P' in names:
            d.append(T.gt(V('P'), T.ZERO))
        if 'e' in names:
            d.append(T.gt(V('e'), T.ZERO))
        if not (self.rname.startswith('simplified') or self.sym != 0):
            d.append(T.ge(V('P0'), T.ZERO))
        d += EOS[self.ename][1](V)
        if self.ename == 'steinberg':
            d += [T.ne(V('rho'), V('reference_density')), T.ne(V('rho0'), V('reference_density'))]
        return d

    def claims(self, cx):
        names = RESID[self.rname]
        n = len(names)
        for i in range(n):
            for j in range(n):
                cx.eq('F_prime[%d,%d]==dF%d/d%s' % (i, j, i, names[j]), cx['DF%d%d' % (i, j)],
                      cx.d(lambda c, i=i: c['F%d' % i], names[j]))
                cx.eq('(F_prime_inv@F_prime)[%d,%d]' % (i, j), cx['I%d%d' % (i, j)], 1 if i == j else 0,
                      scale=[1.0] if not cx.symbolic else None)
        if 'det' in cx:
            cx.eq('determinant', cx['det'], cx['det_ref'])


class JumpFromResidual(Obligation):
    """any zero of the residual satisfies the three Noh jump conditions and has D > 0"""

    def __init__(self, rname, ename, sym_):
        self.rname, self.ename, self.sym = rname, ename, sym_
        self.id = 'C16.jump.%s.%s.m%d' % (rname.replace('_noh_residual', ''), ename.replace('_eos', ''), sym_)
        self.modules = [H.mod(EOSM), H.mod(RESM)]
        cls = getattr(H.mod(RESM), rname)
        self.functions = [cls.F]
        self.bounds = 'state with F(state)==0 (Newton contract), initial state and EOS constants symbolic'
        self.max_paths = 60
        self.skip_validation = True

    def build(self, mk):
        eos = make_eos(self.ename, mk)
        simplified = self.rname.startswith('simplified')
        P0 = 0 if (simplified or self.sym != 0) else mk('P0')
        u0, rho0 = mk('u0'), mk('rho0')
        ic = {'velocity': u0, 'density': rho0, 'pressure': P0, 'symmetry': self.sym}
        res = getattr(H.mod(RESM), self.rname)(ic, eos)
        names = RESID[self.rname]
        state = [mk(n) for n in names]
        F = res.F(list(state))
        out = {'F%d' % i: F[i] for i in range(len(names))}
        rho = state[0]
        if names[1] == 'P':
            P = state[1]
            e = eos.e(rho, P)
        else:
            e = state[1]
            P = eos.P(rho, e)
        e0 = eos.e(rho0, P0)
        out.update(rho=rho, P=P, e=e, e0=e0, u0=u0, rho0=rho0, P0=P0)
        if 'D' in names:
            out['D'] = state[2]
        return out

    def domain(self, V):
        names = RESID[self.rname]
        d = [T.lt(V('u0'), T.ZERO), T.gt(V('rho0'), T.ZERO), T.gt(V('rho'), V('rho0'))]
        if 'D' in names:
            d.append(T.ne(V('D'), T.ZERO))
        if not (self.rname.startswith('simplified') or self.sym != 0):
            d.append(T.ge(V('P0'), T.ZERO))
        d += EOS[self.ename][1](V)
        if self.ename == 'steinberg':
            d += [T.ne(V('rho'), V('reference_density')), T.ne(V('rho0'), V('reference_density'))]
        return d

    def claims(self, cx):
        names = RESID[self.rname]
        n = len(names)
        zero = None
        if cx.symbolic:
            from symx.engine import SymBool
            conds = [T.eq(H.term_of(cx['F%d' % i]), T.ZERO) for i in range(n)]
            zero = SymBool(T.land(*conds))
        else:
            zero = all(abs(float(cx['F%d' % i])) < 1e-9 for i in range(n))
        rho, P, e, e0, u0, rho0, P0 = (cx[k] for k in ('rho', 'P', 'e', 'e0', 'u0', 'rho0', 'P0'))
        m = self.sym
        if 'D' in names:
            D = cx['D']
            # pre-shock state at the shock r = D t: geometric compression rho1 = rho0 (1 - u0/D)^m
            rho1 = rho0 * (1 - u0 / D) ** m
            # frame of the shock: upstream speed u0 - D, downstream 0 - D
            cx.eq('mass jump', rho * (0 - D), rho1 * (u0 - D), when=zero)
            cx.eq('momentum jump', P + rho * D * D, P0 + rho1 * (u0 - D) * (u0 - D), when=zero)
            cx.eq('energy jump', rho * (0 - D) * (e + D * D / 2) + P * (0 - D),
                  rho1 * (u0 - D) * (e0 + (u0 - D) * (u0 - D) / 2) + P0 * (u0 - D), when=zero)
            # positive shock speed at a PHYSICAL zero (shocked pressure and energy positive): the residuals are polynomial-like
            # and also vanish at non-physical points (Steinberg, m >= 1: D < 0 with negative pressure and a negative
            # pre-shock density rho0 (1 - u0/D)^m), which no "physically reasonable starting guess" converges to
            phys = (zero & (P > 0) & (e > 0)) if cx.symbolic else (zero and P > 0 and e > 0)
            cx.gt('D>0', D, 0, when=phys)
        else:
            # simplified residuals (planar, P0 = 0): D eliminated; the implied D = -u0 rho0/(rho-rho0)
            D = -u0 * rho0 / (rho - rho0)
            cx.eq('momentum jump (D eliminated)', P + rho * D * D, rho0 * (u0 - D) * (u0 - D), when=zero)
            cx.eq('energy jump (D eliminated)', rho * (0 - D) * (e + D * D / 2) + P * (0 - D),
                  rho0 * (u0 - D) * (e0 + (u0 - D) * (u0 - D) / 2), when=zero)


class NewtonContract(Obligation):
    """the REAL Newton loop (newton_solver.solve), executed symbolically with a small iteration budget: it returns normally
    only when both its convergence measures are within the tolerance, otherwise it raises -- "reports convergence" means
    converged.  (The jump conditions at a converged state are the JumpFromResidual obligations: F(x*) = 0 => jump conditions.)"""

    def __init__(self, rname, ename, maxit):
        self.rname, self.ename, self.maxit = rname, ename, maxit
        self.id = 'C16.newton.%s.%s.maxit%d' % (rname.replace('_noh_residual', ''), ename.replace('_eos', ''), maxit)
        self.modules = [H.mod(EOSM), H.mod(RESM), H.mod(NEWM)]
        self.extra_shim = {'print': H.quiet_print}
        self.functions = [H.mod(NEWM).newton_solver.solve, getattr(H.mod(RESM), rname).F, getattr(H.mod(RESM), rname).F_prime_inv]
        self.bounds = ('initial guess, initial state, EOS constants, tolerance symbolic; iteration budget %d (loop unrolled by the '
                       'explorer: every exit of the while loop within the budget is a path)' % maxit)
        self.skip_validation = True
        self.replay_any_violation = True
        self.max_paths = 120
        self.timeout_s = 20
        self.budget_s = 240

    def build(self, mk):
        eos = make_eos(self.ename, mk)
        ic = {'velocity': mk('u0'), 'density': mk('rho0'), 'pressure': 0, 'symmetry': 0}
        res = getattr(H.mod(RESM), self.rname)(ic, eos)
        ns = H.mod(NEWM).newton_solver()
        ns.set_function(res)
        ns.set_new_tolerance(mk('tol'))
        ns.set_new_max_iteration(self.maxit)
        ns.set_new_initial_guess([mk('g_' + n) for n in RESID[self.rname]])
        r = ns.solve(verbose=False)
        return {'_raised': 0, 'residual': r['residual_achieved'], 'error': r['error_achieved'], 'its': r['number_of_iterations'],
                '_tol': mk('tol')}

    def on_exception(self, e):
        return {'_raised': 1, '_exc': type(e).__name__}

    def domain(self, V):
        d = [T.gt(V('tol'), T.ZERO), T.gt(V('rho0'), T.ZERO), T.lt(V('u0'), T.ZERO)] + EOS[self.ename][1](V)
        d += [T.gt(V('g_' + n), T.ZERO) for n in RESID[self.rname]]
        return d

    def claims(self, cx):
        if cx['_raised']:
            return                      # a solve that raises (IterationError, ZeroDensityError, ...) fails loudly: nothing to claim
        cx.le('returned normally => |F(x)| within the tolerance', cx['error'], cx['_tol'])
        cx.le('returned normally => last step within the tolerance', cx['residual'], cx['_tol'])


def obligations(tier):
    obs = []
    for name in EOS:
        obs.append(EosClosure(name))
    eos_for_jac = ['ideal_gas_eos', 'stiffened_gas_eos', 'noble_abel_eos', 'carnahan_starling_eos']
    if tier == 'thorough':
        eos_for_jac.append('steinberg')
    for rname in RESID:
        syms = (0,) if rname.startswith('simplified') else (0, 1, 2)
        for ename in eos_for_jac:
            for m in syms:
                obs.append(ResidualJacobian(rname, ename, m))
                obs.append(JumpFromResidual(rname, ename, m))
    obs.append(NewtonContract('simplified_energy_noh_residual', 'ideal_gas_eos', 2))
    obs.append(NewtonContract('simplified_pressure_noh_residual', 'ideal_gas_eos', 1))
    if tier == 'thorough':
        obs.append(NewtonContract('energy_noh_residual', 'ideal_gas_eos', 1))
        obs.append(NewtonContract('simplified_energy_noh_residual', 'stiffened_gas_eos', 2))
    return obs
