"""C05 -- every solver honours the uniform call/return contract of the ExactPack API."""
from fractions import Fraction
import numpy as np

from symx import terms as T
from symx.framework import Obligation, V
from symx.engine import SymReal, SymBool, term_of, sym
from symx.shim import Recorder
from . import common as H
from .common import K, Mode

EXPLANATION = ('Each solver is called through its public __call__ with N symbolic points (N = 1, 2, 3) and symbolic parameters; '
               'the ExactSolution constructor is replaced by a recorder.  On every feasible path: the returned fields have '
               'exactly N entries, the first field(s) are the positions that were passed (same terms, same order), the field names '
               'are the same on all paths and begin with the coordinate names, the caller\'s array is not modified, and z3 decides '
               'that record i does not depend on the other points (out_i with point j replaced by a fresh point is equal).  '
               'Origin-guard variant: a point exactly 0.0 in the request (masked in-place assignments run on boolean masks).  Constructor '
               'clause: a symbolic choice among candidate keyword names / omitted parameters, each must raise ValueError.')
BOUNDS = ['N in {1, 2, 3}; points symbolic and unordered; geometry enumerated']
OUTSIDE = ['list/tuple/array equivalence and dtype handling (numpy.asarray), record-array construction (numpy.rec.fromarrays), CSV '
           'round trip (csv module, float repr): C code, not encodable', 'unknown keyword names outside the candidate set (all attribute '
           'names of the class + three fresh names): the name check itself runs in C-level set operations on concrete strings',
           'solvers documented as grid-dependent (Mader dx, Sedov max(r), SDRZ table, Riemann internal grid) are exempt from the '
           'independence clause']
ASSUMPTIONS = []
META = {
    'level_text': ('Bounded symbolic check of the call/return contract on the real __call__/_run code of the closed-form solvers: '
                   'N = 1..3 symbolic points, symbolic parameters; record count, position pass-through and order, field names per '
                   'path, no mutation of the input, and (by z3) independence of record i from the other points. Container '
                   'equivalence, record construction and CSV round trip are outside (C code).'),
    'level_note': 'Trusted: z3; symx proxies/shims (Recorder stands in for ExactSolution); the catalogue of coordinate field names.',
}


class Schema(Obligation):
    def __init__(self, key, modules, make, npts, dim=1, coord_names=('position',), tsym=True, extra_shim=None, dom=None,
                 independent=True, functions=()):
        self.key, self.make, self.npts, self.dim = key, make, npts, dim
        self.coord_names = coord_names
        self.independent = independent
        self.dom = dom
        self.id = 'C05.schema.%s.N%d' % (key, npts)
        self.modules = [H.mod(m) if isinstance(m, str) else m for m in modules]
        self.extra_shim = dict({'ExactSolution': Recorder, 'print': H.quiet_print}, **(extra_shim or {}))
        self.functions = list(functions)
        self.bounds = '%d symbolic point(s), symbolic parameters and time' % npts
        self.skip_validation = True
        self.max_paths = 300
        self.timeout_s = 15

    def _points(self, mk):
        if self.dim == 1:
            return H.arr([mk('r%d' % i) for i in range(self.npts)])
        return H.mat([[mk('r%d_%d' % (i, j)) for j in range(self.dim)] for i in range(self.npts)])

    def build(self, mk):
        s = self.make(mk)
        pts = self._points(mk)
        before = [x for x in np.asarray(pts, dtype=object).ravel()]
        sol = self.call(s, pts, mk('t')) if getattr(self, 'call', None) else s(pts, mk('t'))
        after = [x for x in np.asarray(pts, dtype=object).ravel()]
        out = {}
        if isinstance(sol, Recorder):
            names, data = sol.names, sol.data
        else:
            names, data = list(sol.dtype.names), [np.asarray(sol[n]) for n in sol.dtype.names]
        out['_names'] = tuple(names)
        out['_lens'] = tuple(len(d) for d in data)
        out['_mutated'] = int(any((a is not b) and not _same(a, b) for a, b in zip(before, after)))
        # positions
        flat_in = np.asarray(pts, dtype=object).reshape(self.npts, -1)
        for c in range(len(self.coord_names)):
            col = data[c]
            for i in range(self.npts):
                out['pos%d_%d' % (c, i)] = col[i]
                out['in%d_%d' % (c, i)] = flat_in[i, c] if flat_in.shape[1] > c else flat_in[i, 0]
        for n, d in zip(names, data):
            if n in self.coord_names or n == 'region':
                continue
            for i in range(self.npts):
                out['f_%s_%d' % (n, i)] = d[i]
        return out

    def domain(self, V):
        return self.dom(V, self.npts) if self.dom else []

    def claims(self, cx):
        names = cx['_names']
        cx.true('field names start with the coordinate names %s (got %s)' % (list(self.coord_names), list(names[:len(self.coord_names)])),
                tuple(names[:len(self.coord_names)]) == tuple(self.coord_names))
        cx.true('every field has exactly N entries', all(l == self.npts for l in cx['_lens']))
        cx.true('input array not modified', cx['_mutated'] == 0)
        for c in range(len(self.coord_names)):
            for i in range(self.npts):
                cx.eq('position field %d, record %d is the point that was passed' % (c, i), cx['pos%d_%d' % (c, i)], cx['in%d_%d' % (c, i)])
        if cx.symbolic and self.independent and self.npts > 1:
            # record i must not depend on point j != i: replace point j by a fresh point and compare (solver-decided)
            keys = [k for k in cx.out if k.startswith('f_')]
            for k in keys:
                i = int(k.rsplit('_', 1)[1])
                if isinstance(cx[k], (float, np.floating)) and cx[k] != cx[k]:
                    continue            # NaN (documented out-of-domain answer): a constant
                t = term_of(cx[k])
                sub = {}
                for nm in T.free_vars(t):
                    if nm.startswith('r') and nm[1:].split('_')[0].isdigit() and int(nm[1:].split('_')[0]) != i:
                        sub[T.var(nm)] = T.var(nm + '_other')
                if sub:
                    cx.eq('%s does not depend on the other points' % k, cx[k], SymReal(T.substitute(t, sub)))

    def cross(self, paths, vals):
        # the field names must be the same on every path (e.g. the t <= 0 NaN path)
        out = []
        names = {o['_names'] for _, o in paths}
        if len(names) > 1:
            out.append(('field names identical on all paths', [], T.FALSE,
                        lambda env: {'reproduced': True, 'detail': 'paths return different field lists: %s' % sorted(names)}))
        return out


class SchemaZero(Schema):
    """the same call with a point that is EXACTLY 0.0 next to a symbolic one (origin guards, `r[r == 0] = ...', in-place
    clamps): the caller's array is not modified and the position field returns what was passed.  Input arrays are SymArr
    (comparisons give boolean masks, masked assignment runs)."""

    def __init__(self, *a, **k):
        Schema.__init__(self, *a, **k)
        self.id = self.id.rsplit('.N', 1)[0] + '.zero'
        self.bounds = 'two points, the first exactly 0.0, the second symbolic; symbolic parameters and time'
        self.independent = False
        self.allow_vacuous = True       # a solver that raises for a point at the origin has nothing to return

    def _points(self, mk):
        H.SYM_INPUT_ARRAYS = True
        if self.dim == 1:
            a = H.arr([mk('r1') * 0 + mk('r1'), mk('r1')])
            a[0] = 0.0
            return a
        rows = [[mk('r%d_%d' % (i, j)) for j in range(self.dim)] for i in range(2)]
        m = H.mat(rows)
        if isinstance(m, np.ndarray) and m.dtype == object:
            from symx.engine import SymArr
            m = m.view(SymArr)
        for j in range(self.dim):
            m[0, j] = 0.0
        return m

    def claims(self, cx):
        cx.true('input array not modified (a point exactly at 0.0 in the request)', cx['_mutated'] == 0)
        for c in range(len(self.coord_names)):
            for i in range(self.npts):
                cx.eq('position field %d, record %d is the point that was passed (a point exactly at 0.0 in the request)' % (c, i),
                      cx['pos%d_%d' % (c, i)], cx['in%d_%d' % (c, i)])


def _same(a, b):
    if isinstance(a, SymReal) and isinstance(b, SymReal):
        return a.t is b.t
    try:
        return a == b
    except Exception:
        return False


class CtorNames(Obligation):
    """ExactSolver.__init__: a keyword that is not a declared parameter is rejected with ValueError -- in particular every name
    that collides with an attribute of the class (geometry on a geometry-specific wrapper, _run, parameters, ...), which is
    where an attribute-based check would go wrong.  The name is a symbolic choice among the candidates (one path each)."""

    def __init__(self, key, cls):
        self.key, self.cls = key, cls
        self.id = 'C05.ctor.unknown.%s' % key
        self.modules = []
        self.extra_shim = {}
        base = H.mod('exactpack.base')
        self.functions = [base.ExactSolver.__init__]
        params = set(getattr(cls, 'parameters', {}))
        cands = sorted(n for n in dir(cls) if not n.startswith('__') and n not in params)
        self.cands = cands[:60] + ['bogus_parameter', 'Gamma_', 'gamm']
        self.bounds = 'keyword name chosen symbolically among %d candidates (all non-dunder attributes of the class that are not declared parameters, plus three fresh names); value = 1.0' % len(self.cands)
        self.skip_validation = True
        self.max_paths = len(self.cands) + 5
        self.budget_s = 200

    def build(self, mk):
        k = H.choose(mk, 'name_idx', len(self.cands))
        self.cls(**{self.cands[k]: 1.0})
        return {'_raised': 0, '_name': self.cands[k]}

    def on_exception(self, e):
        return {'_raised': 1, '_valueerror': 1 if isinstance(e, ValueError) else 0, '_exc': type(e).__name__}

    def domain(self, V):
        return [T.ge(V('name_idx'), T.ZERO), T.le(V('name_idx'), T.const(len(self.cands) - 1))]

    def claims(self, cx):
        if cx['_raised']:
            cx.eq('unknown keyword raises ValueError' if cx['_valueerror'] else 'unknown keyword raises %s instead of ValueError' % cx['_exc'],
                  cx['_valueerror'], 1)
        else:
            cx.true('undeclared keyword %r accepted' % cx['_name'], False if not cx.symbolic else SymBool(T.FALSE))


class CtorMissing(Obligation):
    """a declared parameter without a class default must be supplied: constructing without it raises ValueError"""

    def __init__(self, key, cls):
        self.key, self.cls = key, cls
        self.id = 'C05.ctor.missing.%s' % key
        self.modules = []
        self.extra_shim = {}
        self.functions = [H.mod('exactpack.base').ExactSolver.__init__]
        self.missing = sorted(p for p in cls.parameters if not hasattr(cls, p))
        self.bounds = 'parameters without class default: %s; each omitted in turn (symbolic choice)' % self.missing
        self.skip_validation = True

    def build(self, mk):
        k = H.choose(mk, 'omit_idx', len(self.missing))
        kw = {p: 1.0 for i, p in enumerate(self.missing) if i != k}
        self.cls(**kw)
        return {'_raised': 0, '_name': self.missing[k]}

    def on_exception(self, e):
        return {'_raised': 1, '_valueerror': 1 if isinstance(e, ValueError) else 0, '_exc': type(e).__name__}

    def domain(self, V):
        return [T.ge(V('omit_idx'), T.ZERO), T.le(V('omit_idx'), T.const(len(self.missing) - 1))]

    def claims(self, cx):
        if cx['_raised']:
            cx.eq('missing parameter raises ValueError' if cx['_valueerror'] else 'missing parameter raises %s instead of ValueError' % cx['_exc'],
                  cx['_valueerror'], 1)
        else:
            cx.true('construction without %r accepted' % cx['_name'], False if not cx.symbolic else SymBool(T.FALSE))


def _ctor_classes():
    import inspect
    base = H.mod('exactpack.base')
    mods = ['exactpack.solvers.noh', 'exactpack.solvers.noh2', 'exactpack.solvers.sedov', 'exactpack.solvers.cog', 'exactpack.solvers.kenamond',
            'exactpack.solvers.dsd', 'exactpack.solvers.heat', 'exactpack.solvers.ehep', 'exactpack.solvers.sdrz', 'exactpack.solvers.mader',
            'exactpack.solvers.ep_piston', 'exactpack.solvers.guderley', 'exactpack.solvers.rmtv', 'exactpack.solvers.suolson']
    out = []
    for mn in mods:
        try:
            m = H.mod(mn)
        except Exception:
            continue
        for n, c in sorted(vars(m).items()):
            if inspect.isclass(c) and issubclass(c, base.ExactSolver) and c is not base.ExactSolver:
                out.append((mn.split('.')[-1] + '.' + n, c))
    return out


def obligations(tier):
    obs = []
    ns = (1, 2) if tier == 'quick' else (1, 2, 3)
    pos_r = lambda V, n: [T.gt(V('r%d' % i), T.ZERO) for i in range(n)]
    noh = H.mod('exactpack.solvers.noh.noh1')
    n2 = H.mod('exactpack.solvers.noh2.noh2')
    for n in ns:
        for g in (1, 2, 3):
            obs.append(Schema('noh.g%d' % g, [noh], lambda mk, g=g: H.new_solver(noh.Noh, dict(geometry=g, gamma=mk('gamma'), u0=mk('u0'), rho0=mk('rho0'))),
                              n, dom=pos_r, functions=[noh.Noh._run]))
        obs.append(Schema('noh2', [n2], lambda mk: n2.Noh2(geometry=3, gamma=mk('gamma'), rho0=mk('rho0'), e0=mk('e0')), n, dom=pos_r,
                          functions=[n2.Noh2._run]))
        for name in H.COG:
            cm, cc = H.cog_class(name)
            g = H.COG[name]['geoms'][-1]

            def mkcog(mk, cc=cc, name=name, g=g):
                attrs = {p: mk(p) for p in H.COG[name]['params']}
                if g:
                    attrs['geometry'] = g
                return H.new_solver(cc, attrs)
            if n == 2:
                obs.append(SchemaZero(name.lower(), [cm], mkcog, 2, dom=pos_r, functions=[cc._run]))     # cheap: all 21, both tiers
            if tier == 'quick' and name not in ('Cog1', 'Cog8', 'Cog13', 'Cog19', 'Cog21'):
                continue
            obs.append(Schema(name.lower(), [cm], mkcog, n, dom=pos_r, functions=[cc._run]))
        # burn-time solvers: N x geometry points, position_x / position_y (/ position_z)
        from symx import stubs
        mm = {'min': stubs.sym_min, 'max': stubs.sym_max}
        k1 = H.mod('exactpack.solvers.kenamond.kenamond1')
        k2 = H.mod('exactpack.solvers.kenamond.kenamond2')
        k3 = H.mod('exactpack.solvers.kenamond.kenamond3')
        dsd = H.mod('exactpack.solvers.dsd.cylexpansion')
        for g in (2, 3):
            cn = ('position_x', 'position_y', 'position_z')[:g]
            obs.append(Schema('kenamond1.g%d' % g, [k1], lambda mk, g=g: k1.Kenamond1(geometry=g, D=mk('D'), x_d=tuple(mk('d%d' % j) for j in range(g)), t_d=mk('t_d')),
                              n, dim=g, coord_names=cn, functions=[k1.Kenamond1._run]))
            obs.append(Schema('kenamond2.g%d' % g, [k2],
                              lambda mk, g=g: k2.Kenamond2(geometry=g, R=mk('R'), D1=mk('D1'), D2=mk('D2'), dets=[mk('a1'), mk('a2'), mk('a4'), mk('a5')],
                                                           t_d=[mk('t1'), mk('t2'), mk('t3'), mk('t4'), mk('t5')]),
                              n, dim=g, coord_names=cn, extra_shim=mm, functions=[k2.Kenamond2._run]))
        obs.append(Schema('kenamond3.g2', [k3], lambda mk: k3.Kenamond3(geometry=2, R=mk('R'), D=mk('D'), x_d=(mk('d0'), mk('d1')), t_d=mk('t_d')),
                          n, dim=2, coord_names=('position_x', 'position_y'), functions=[k3.Kenamond3._run]))
        dn = ['r_1', 'r_2', 'D_CJ_1', 'D_CJ_2', 'alpha_1', 'alpha_2', 't_d']
        obs.append(Schema('dsd.cylexpansion', [dsd], lambda mk: dsd.CylindricalExpansion(geometry=2, **{x: mk(x) for x in dn}),
                          n, dim=2, coord_names=('position_x', 'position_y'), functions=[dsd.CylindricalExpansion._run]))
        # Blake, heat (documented coordinate names differ: Hutchens 1 'radius')
        bl = H.mod('exactpack.solvers.blake.blake')

        def mkblake(mk):
            lam, G, a = mk('lame'), mk('G'), mk('a')
            return H.new_solver(bl.Blake, dict(geometry=3, cavity_radius=a, ref_density=mk('rho0'), pressure_scale=mk('P0'), lame_mod=lam, shear_mod=G,
                                               youngs_mod=G * (3 * lam + 2 * G) / (lam + G), poisson_ratio=lam / (2 * (lam + G)),
                                               bulk_mod=lam + 2 * G / 3, long_mod=lam + 2 * G, blake_debug=False))
        obs.append(Schema('blake', [bl], mkblake, n, dom=lambda V, n: [T.gt(V('G'), T.ZERO), T.gt(V('lame'), T.ZERO), T.gt(V('a'), T.ZERO),
                                                                        T.gt(V('rho0'), T.ZERO), T.gt(V('P0'), T.ZERO), T.gt(V('t'), T.ZERO)] +
                          [T.ge(V('r%d' % i), V('a')) for i in range(n)], functions=[bl.Blake._run]))
        rod = H.mod('exactpack.solvers.heat.rod1d')
        obs.append(Schema('rod1d', [rod], lambda mk: rod.Rod1D(kappa=mk('kappa'), L=mk('L'), TL=mk('TL'), TR=mk('TR'), Nsum=2), n,
                          functions=[rod.Rod1D._run]))
        h1 = H.mod('exactpack.solvers.heat.hutchens1')
        obs.append(Schema('hutchens1', [h1], lambda mk: h1.Hutchens1(k=mk('k'), cp=mk('cp'), rho=mk('rho'), Tb=mk('Tb'), T0=mk('T0'), b=mk('b'), Nsum=3),
                          n, coord_names=('radius',), dom=lambda V, n: [T.ge(V('r%d' % i), T.ZERO) for i in range(n)], functions=[h1.Hutchens1._run]))
        # escape of HE products; EP piston (region loops over the points)
        from . import ehep_common as E
        if n == 1 or tier == 'thorough':
            o = Schema('ehep', [E.EM], lambda mk: _ehep(mk, E), n, extra_shim=E.shim_extra(), dom=pos_r,
                       functions=[H.mod(E.EM).EscapeOfHEProducts._run])
            o.max_paths = 2000
            obs.append(o)
        # steady-detonation reaction zone: documented grid-dependent (internal table), so no independence clause; the
        # table is built with NP=3 time points and scipy's interp1d is replaced by a stub returning fresh values
        sd = H.mod('exactpack.solvers.sdrz.sdrz')
        o = Schema('sdrz', [sd], lambda mk: sd.SteadyDetonationReactionZone(D=mk('D'), rho_0=mk('rho_0'), gamma=mk('gamma')), n,
                   extra_shim={'interp1d': _interp1d_stub}, independent=False, dom=lambda V, n: [T.gt(V('t'), T.ZERO), T.gt(V('gamma'), T.ONE)],
                   functions=[sd.SteadyDetonationReactionZone._run])
        o.call = lambda s, pts, t: s._run(pts, t, NP=3)
        obs.append(o)
    # origin-guard variant (a point exactly at 0.0) for the closed-form 1-D solvers
    for o in list(obs):
        if type(o) is Schema and o.npts == 2 and o.dim == 1 and o.key.split('.')[0].startswith('noh'):
            z = SchemaZero.__new__(SchemaZero)
            z.__dict__.update(o.__dict__)
            z.id = o.id.rsplit('.N', 1)[0] + '.zero'
            z.bounds = 'two points, the first exactly 0.0, the second symbolic; symbolic parameters and time'
            z.independent = False
            z.allow_vacuous = True
            obs.append(z)
    classes = _ctor_classes()
    if tier == 'quick':
        keep = ('noh.Noh', 'noh.PlanarNoh', 'noh.SphericalNoh', 'sedov.Sedov', 'sedov.PlanarSedov', 'cog.Cog1', 'cog.PlanarCog1', 'cog.Cog8',
                'cog.SphericalCog13', 'kenamond.Kenamond1', 'kenamond.Kenamond2', 'dsd.CylindricalExpansion', 'heat.Rod1D', 'heat.PlanarSandwich',
                'ehep.EscapeOfHEProducts', 'sdrz.SteadyDetonationReactionZone', 'ep_piston.EPpiston', 'noh2.Noh2', 'noh2.PlanarNoh2',
                'guderley.Guderley', 'mader.Mader')
        classes = [(k, c) for k, c in classes if k in keep]
    for k, c in classes:
        obs.append(CtorNames(k, c))
        if any(not hasattr(c, p) for p in c.parameters):
            obs.append(CtorMissing(k, c))
    return obs


def _interp1d_stub(x, y, **kw):
    from symx.engine import current

    def f(q):
        q = np.asarray(q, dtype=object)
        out = np.empty(q.shape, dtype=object)
        for i in range(out.size):
            out.flat[i] = current().fresh('interp')
        return out
    return f


def _ehep(mk, E):
    s = H.mod(E.EM).EscapeOfHEProducts(**{n: mk(n) for n in E.PARAMS})
    if Mode.symbolic(mk):
        s.point_on_boundary = lambda corners, point, tol=1e-12: False
    return s
