"""C08 -- dimensional consistency: a change of units in gives the same change out."""
from fractions import Fraction
import numpy as np

from symx import terms as T
from symx.framework import Obligation, V
from symx.engine import SymReal, SymBool, term_of
from symx.shim import Recorder
from . import common as H
from . import riemann_common as R
from . import sedov_common as S
from . import ehep_common as E
from .common import K, Mode

EXPLANATION = ('Two-run relational symbolic execution: the real solver is run on symbolic inputs and on the same inputs '
               're-expressed in other units (each multiplied by m^a l^b s^c th^d for fresh positive mass/length/time/temperature '
               'scale factors, exponents from the dimension catalogue below); z3 decides that every output is the original output '
               'multiplied by the scale factors its own dimension dictates, on every pair of feasible paths.  Heavy solvers: the '
               'infinitesimal (Euler homogeneity) form, one run with exact derivatives.  Riemann, quick tier: every kernel the driver '
               'composes (star-pressure functions, limiting velocities, wave curves, fan formulas) is homogeneous of its dimension.')
BOUNDS = ['geometry enumerated; one evaluation point; gamma sliced for Riemann/Sedov/Mader; heat series truncated at Nsum = 2']
OUTSIDE = ['unit-invariance of numerical tolerances (osmall, vtol, int_tol, bisect xtol) and of internal grids',
           'Guderley: mass and length scalings only (its time is the documented Caramana-Whalen normalised time); Noh2: mass and '
           'length only (its time is the documented collapse-normalised time)']
ASSUMPTIONS = ['the dimension catalogue in harness/C08.py (from the parameter docstrings)']
META = {
    'level_text': ('Bounded relational symbolic check on the real code: inputs scaled by arbitrary positive mass, length, time (and '
                   'temperature) factors according to their dimensions; z3 proves each output scales with its own dimension for all '
                   'real inputs on every path pair; powers of the scale factors with parameter-dependent exponents are handled '
                   'by solver-proved exponent identities. Not a proof: floats as reals; tolerances/grids outside.'),
    'level_note': 'Trusted: z3; symx proxies/shims/stubs; the dimension catalogue in harness/C08.py.',
}

SC = ('sm', 'sl', 'st', 'sth')       # scale factor symbols


def factor(mk, dims):
    """m^a l^b s^c th^d for dims = (a, b, c, d); exponents may be numbers, Fractions or SymReal"""
    f = 1
    for name, e in zip(SC, tuple(dims) + (0,) * (4 - len(dims))):
        if isinstance(e, (int, Fraction)) and e == 0:
            continue
        f = f * mk(name) ** e
    return f


D_RHO = (1, -3, 0)
D_VEL = (0, 1, -1)
D_P = (1, -1, -2)
D_E = (0, 2, -2)
D_LEN = (0, 1, 0)
D_TIME = (0, 0, 1)
D_NONE = (0, 0, 0)
HYDRO_OUT = {'density': D_RHO, 'velocity': D_VEL, 'pressure': D_P, 'specific_internal_energy': D_E, 'sound_speed': D_VEL}


class Dim(Obligation):
    def __init__(self, oid, modules, run, in_dims, out_dims, dom, functions=(), extra_shim=None, scales=('sm', 'sl', 'st'),
                 bounds='all dimensional inputs and the scale factors symbolic', max_paths=200, timeout_s=30):
        self.id = oid
        self.modules = [H.mod(m) if isinstance(m, str) else m for m in modules]
        self.run, self.in_dims, self.out_dims, self.dom = run, in_dims, out_dims, dom
        self.extra_shim = dict({'ExactSolution': Recorder, 'print': H.quiet_print}, **(extra_shim or {}))
        self.functions = list(functions)
        self.scales = scales
        self.bounds = bounds
        self.skip_validation = True
        self.max_paths = max_paths
        self.timeout_s = timeout_s

    def _mkscale(self, mk):
        return lambda n: mk(n) if n in self.scales else 1

    def build(self, mk):
        a = self.run(mk)
        ms = self._mkscale(mk)
        ind = self.in_dims(mk) if callable(self.in_dims) else self.in_dims

        def scaled(n):
            if n in ind:
                return mk(n) * factor(ms, ind[n])
            return mk(n)
        b = self.run(H.Sub(mk, scaled))
        out = {}
        od = self.out_dims(mk) if callable(self.out_dims) else self.out_dims
        if od is None:
            # corner tables: cx_* are lengths, ct_* are times
            od = {k: (D_LEN if k.startswith('cx_') else D_TIME) for k in a if k.startswith(('cx_', 'ct_'))}
        for k, d in od.items():
            if k not in a:
                continue
            out['a_' + k] = a[k]
            out['b_' + k] = b[k]
            out['f_' + k] = factor(ms, d)
        return out

    def domain(self, V):
        return [T.gt(V(s), T.ZERO) for s in self.scales] + list(self.dom(V))

    def claims(self, cx):
        keys = sorted(k[2:] for k in (cx.out if cx.symbolic else cx._run()) if k.startswith('a_'))
        when = None
        if getattr(self, 'when_equal_roots', False):
            # the two runs solve their own star-pressure equation: the outputs are compared for the root that is the
            # scaled image of the other (uniqueness of the root and scaling of the bracket pmax = 10 max(pl, pr) assumed)
            if cx.symbolic:
                when = cx['b_px'] == cx['a_px'] * cx['f_px']
            else:
                when = abs(cx['b_px'] - cx['a_px'] * cx['f_px']) < 1e-8 * abs(cx['b_px'])
            keys = [k for k in keys if k != 'px']
        for k in keys:
            cx.eq('%s scales with its dimension' % k, cx['b_' + k], cx['a_' + k] * cx['f_' + k], when=when)


class DimEuler(Obligation):
    """Infinitesimal form (Euler's theorem for homogeneous functions), single run with exact derivatives:
    for each unit direction q in {mass, length, time, temperature}
          sum_inputs  a_q(input) * input * d out / d input  ==  a_q(out) * out
    which holds on every smooth piece iff out(scaled inputs) = scale^a(out) * out(inputs) for all positive scale
    factors (the scaling group is connected).  Roots of stubbed root finders are differentiated implicitly."""
    uses_derivatives = True
    implicit_roots = True

    def __init__(self, oid, modules, run, in_dims, out_dims, dom, functions=(), extra_shim=None, ndir=3,
                 bounds='all dimensional inputs symbolic; one generator per unit direction', max_paths=200, timeout_s=30):
        self.id = oid
        self.modules = [H.mod(m) if isinstance(m, str) else m for m in modules]
        self.run, self.in_dims, self.out_dims, self.dom = run, in_dims, out_dims, dom
        self.extra_shim = dict({'ExactSolution': Recorder, 'print': H.quiet_print}, **(extra_shim or {}))
        self.functions = list(functions)
        self.ndir = ndir
        self.bounds = bounds
        self.skip_validation = True
        self.max_paths = max_paths
        self.timeout_s = timeout_s
        self.timeout_thorough_s = 600

    def build(self, mk):
        out = dict(self.run(mk))
        self._ind = self.in_dims(mk) if callable(self.in_dims) else self.in_dims
        self._od = self.out_dims(mk) if callable(self.out_dims) else self.out_dims
        return {k: v for k, v in out.items() if k in self._od or k.startswith('_')}

    def domain(self, V):
        return list(self.dom(V))

    def claims(self, cx):
        names = ('mass', 'length', 'time', 'temperature')
        keys = sorted(k for k in (cx.out if cx.symbolic else cx._run()) if k in self._od)
        for k in keys:
            f = lambda c, k=k: c[k]
            od = tuple(self._od[k]) + (0,) * 4
            derivs = {}
            for q in range(self.ndir):
                add = []
                for x, dims in self._ind.items():
                    dd = tuple(dims) + (0,) * 4
                    a = dd[q]
                    if isinstance(a, (int, Fraction)) and a == 0:
                        continue
                    if x not in derivs:
                        derivs[x] = cx.d(f, x)
                    add.append(a * cx.p(x) * derivs[x])
                add.append(-(od[q]) * cx[k] if not (isinstance(od[q], (int, Fraction)) and od[q] == 0) else 0)
                add = [t for t in add if not (isinstance(t, int) and t == 0)]
                if not add:
                    continue
                cx.zero('%s is homogeneous of the right degree in %s units' % (k, names[q]), add, tol=1e-5)


def pos(*ns):
    return lambda V: [T.gt(V(n), T.ZERO) for n in ns]


def obligations(tier):
    obs = []
    # ---------------- Noh
    noh = H.mod('exactpack.solvers.noh.noh1')
    for g in (1, 2, 3):
        obs.append(Dim('C08.noh.g%d' % g, [noh],
                       lambda mk, g=g: H.first(H.run_1d(H.new_solver(noh.Noh, dict(geometry=g, gamma=mk('gamma'), u0=mk('u0'), rho0=mk('rho0'))), mk)),
                       {'u0': D_VEL, 'rho0': D_RHO, 'r': D_LEN, 't': D_TIME}, HYDRO_OUT,
                       lambda V: [T.gt(V('gamma'), T.ONE), T.lt(V('u0'), T.ZERO), T.gt(V('rho0'), T.ZERO), T.gt(V('r'), T.ZERO), T.gt(V('t'), T.ZERO)],
                       functions=[noh.Noh._run]))
    # ---------------- Noh2 (mass and length; time is the documented normalised collapse time)
    n2 = H.mod('exactpack.solvers.noh2.noh2')
    for g in (1, 2, 3):
        obs.append(Dim('C08.noh2.g%d' % g, [n2],
                       lambda mk, g=g: H.first(H.run_1d(n2.Noh2(geometry=g, gamma=mk('gamma'), rho0=mk('rho0'), e0=mk('e0')), mk)),
                       {'rho0': D_RHO, 'e0': D_E, 'r': D_LEN}, HYDRO_OUT,
                       lambda V: [T.gt(V('gamma'), T.ONE), T.gt(V('rho0'), T.ZERO), T.gt(V('e0'), T.ZERO), T.gt(V('r'), T.ZERO),
                                  T.gt(V('t'), T.ZERO), T.lt(V('t'), T.ONE)],
                       functions=[n2.Noh2._run], scales=('sm', 'sl')))
    # ---------------- Coggeshall solutions without built-in radiation constants (temperature has its own scale)
    COGD = {'temperature': (0, 0, 0, 1)}
    COGD.update(HYDRO_OUT)
    D_GAMMA = (0, 2, -2, -1)       # Gruneisen gas constant: energy / (mass temperature)

    def cog_in(name, g):
        k = (g - 1) if g else H.COG[name].get('k')
        def f(mk):
            d = {'r': D_LEN, 't': D_TIME, 'Gamma': D_GAMMA, 'u0': D_VEL, 'tau': D_TIME, 'R0': D_LEN, 'Ri': D_LEN}
            if name == 'Cog1':
                b = mk('b')
                d['rho0'] = (1, -3 - b, b + k + 1)          # rho = rho0 r^b t^(-b-k-1)
                d['temp0'] = (0, b, -(b - (mk('gamma') - 1) * (k + 1)), 1)
            elif name == 'Cog8':
                c1 = (k - 1) / (mk('beta') - mk('alpha') + 4)
                d['rho0'] = (1, -3 - c1, k + 1 + c1)
                d['temp0'] = (0, c1, -((1 - mk('gamma')) * (k + 1) + c1), 1)
            elif name == 'Cog19':
                d['rho0'] = D_RHO
            elif name == 'Cog21':
                d['rho0'] = D_RHO
                d['temp0'] = (0, 0, 0, 1)
            return d
        return f
    for name in ('Cog1', 'Cog8', 'Cog19'):
        cm, cc = H.cog_class(name)
        for g in H.COG[name]['geoms']:
            def run(mk, cc=cc, name=name, g=g):
                attrs = {p: mk(p) for p in H.COG[name]['params']}
                attrs['geometry'] = g
                return H.first(H.run_1d(H.new_solver(cc, attrs), mk))
            obs.append(Dim('C08.%s.g%d' % (name.lower(), g), [cm], run, cog_in(name, g), COGD,
                           lambda V: [T.gt(V('r'), T.ZERO), T.gt(V('t'), T.ZERO), T.gt(V('Gamma'), T.ZERO), T.gt(V('rho0'), T.ZERO),
                                      T.gt(V('gamma'), T.ONE)],
                           functions=[cc._run], scales=SC))
    # ---------------- escape of HE products
    def ehep_run(mk):
        out, _ = E.run(mk)
        out = dict(out)
        out.pop('_corners')
        out.pop('_region')
        return out
    heavy = []          # relational form of the heavy solvers: thorough tier only; Euler (infinitesimal) form always

    # the region polygons of the x-t diagram: every corner is (a length, a time).  The Euler-identity form below covers the
    # smooth pieces; WHICH piece a point falls in is unit-independent iff the corners scale with their dimensions
    def ehep_corners(mk):
        m = H.mod(E.EM)
        s = m.EscapeOfHEProducts(**{n: mk(n) for n in E.PARAMS})
        d = {}
        for reg, pts in sorted(s.corners.items()):
            for i, (cxv, ctv) in enumerate(pts):
                d['cx_%s_%d' % (reg, i)] = cxv
                d['ct_%s_%d' % (reg, i)] = ctv
        return d

    o = Dim('C08.ehep.corners', [E.EM], ehep_corners,
            {'D': D_VEL, 'rho_0': D_RHO, 'up': D_VEL, 'xtilde': D_LEN, 'xmax': D_LEN, 'tmax': D_TIME}, None,
            lambda V: [T.gt(V(n), T.ZERO) for n in E.PARAMS], extra_shim=E.shim_extra(),
            functions=[H.mod(E.EM).EscapeOfHEProducts.__init__], scales=('sm', 'sl', 'st'), max_paths=100, timeout_s=20)
    obs.append(o)

    def both(*a, **k):
        oid = a[0]
        k2 = dict(k)
        k2.pop('scales', None)
        ndir = 4 if k.get('scales') == SC else (2 if k.get('scales') == ('sm', 'sl') else 3)
        obs.append(DimEuler(oid + '.euler', *a[1:], ndir=ndir, **k2))
        if tier == 'thorough':
            obs.append(Dim(*a, **k))
    both('C08.ehep', [E.EM], ehep_run,
                   {'D': D_VEL, 'rho_0': D_RHO, 'up': D_VEL, 'xtilde': D_LEN, 'xmax': D_LEN, 'tmax': D_TIME, 'x': D_LEN, 't': D_TIME},
                   HYDRO_OUT, lambda V: E.domain(V), extra_shim=E.shim_extra(), functions=[H.mod(E.EM).EscapeOfHEProducts._run],
                   max_paths=400, timeout_s=20)
    # ---------------- Mader
    mad = H.mod('exactpack.solvers.mader.rarefaction')
    for gam in ([Fraction(3)] if tier == 'quick' else H.G_FULL):
        def mrun(mk, gam=gam):
            r = mad.rare(mk('time'), mk('xlab'), mk('dx'), mk('p_cj'), mk('d_cj'), K(mk, gam), mk('u_piston'))
            return {'velocity': r[0], 'pressure': r[1], 'sound_speed': r[2], 'density': r[3], 'xdet': r[4]}
        od = dict(HYDRO_OUT)
        od['xdet'] = D_LEN
        both('C08.mader.gamma=%s' % gam, [mad], mrun,
                       {'time': D_TIME, 'xlab': D_LEN, 'dx': D_LEN, 'p_cj': D_P, 'd_cj': D_VEL, 'u_piston': D_VEL}, od,
                       pos('time', 'dx', 'p_cj', 'd_cj'), functions=[mad.rare], timeout_s=15)
    # ---------------- burn times
    D_BT = D_TIME
    k1 = H.mod('exactpack.solvers.kenamond.kenamond1')
    k2 = H.mod('exactpack.solvers.kenamond.kenamond2')
    k3 = H.mod('exactpack.solvers.kenamond.kenamond3')
    dsd = H.mod('exactpack.solvers.dsd.cylexpansion')
    from symx import stubs
    mm = {'min': stubs.sym_min, 'max': stubs.sym_max}

    def bt(sol):
        return {'burntime': H.first(H.fields(sol))['burntime']}
    obs.append(Dim('C08.kenamond1', [k1], lambda mk: bt(k1.Kenamond1(geometry=2, D=mk('D'), x_d=(mk('dx'), mk('dy')), t_d=mk('t_d'))(H.mat([[mk('x'), mk('y')]]), 0.0)),
                   {'D': D_VEL, 'dx': D_LEN, 'dy': D_LEN, 't_d': D_TIME, 'x': D_LEN, 'y': D_LEN}, {'burntime': D_BT}, lambda V: [],
                   functions=[k1.Kenamond1._run]))
    both('C08.kenamond2', [k2],
                   lambda mk: bt(k2.Kenamond2(geometry=2, R=mk('R'), D1=mk('D1'), D2=mk('D2'), dets=[mk('a1'), mk('a2'), mk('a4'), mk('a5')],
                                              t_d=[mk('t1'), mk('t2'), mk('t3'), mk('t4'), mk('t5')])(H.mat([[mk('x'), mk('y')]]), 0.0)),
                   dict({'R': D_LEN, 'D1': D_VEL, 'D2': D_VEL, 'x': D_LEN, 'y': D_LEN}, **dict([('a%d' % i, D_LEN) for i in (1, 2, 4, 5)] +
                                                                                           [('t%d' % i, D_TIME) for i in range(1, 6)])),
                   {'burntime': D_BT}, lambda V: [], functions=[k2.Kenamond2.__init__, k2.Kenamond2._run], extra_shim=mm, max_paths=400)
    both('C08.kenamond3', [k3],
                   lambda mk: bt(k3.Kenamond3(geometry=2, R=mk('R'), D=mk('D'), x_d=(mk('dx'), mk('dy')), t_d=mk('t_d'))(H.mat([[mk('x'), mk('y')]]), 0.0)),
                   {'R': D_LEN, 'D': D_VEL, 'dx': D_LEN, 'dy': D_LEN, 't_d': D_TIME, 'x': D_LEN, 'y': D_LEN}, {'burntime': D_BT}, lambda V: [],
                   functions=[k3.Kenamond3._run], timeout_s=20)
    dn = {'r_1': D_LEN, 'r_2': D_LEN, 'D_CJ_1': D_VEL, 'D_CJ_2': D_VEL, 'alpha_1': (0, 2, -1), 'alpha_2': (0, 2, -1), 't_d': D_TIME, 'x': D_LEN, 'y': D_LEN}
    obs.append(Dim('C08.dsd.cylexpansion', [dsd],
                   lambda mk: bt(dsd.CylindricalExpansion(geometry=2, **{n: mk(n) for n in dn if n not in ('x', 'y')})(H.mat([[mk('x'), mk('y')]]), 0.0)),
                   dn, {'burntime': D_BT}, lambda V: [], functions=[dsd.CylindricalExpansion._run]))
    # ---------------- Blake (pressure-like moduli; lengths; density)
    bl = H.mod('exactpack.solvers.blake.blake')

    def blrun(mk):
        lam, G, a = mk('lame'), mk('G'), mk('a')
        attrs = dict(geometry=3, cavity_radius=a, ref_density=mk('rho0'), pressure_scale=mk('P0'), lame_mod=lam, shear_mod=G,
                     youngs_mod=G * (3 * lam + 2 * G) / (lam + G), poisson_ratio=lam / (2 * (lam + G)), bulk_mod=lam + 2 * G / 3,
                     long_mod=lam + 2 * G, blake_debug=False)
        return H.first(H.fields(H.new_solver(bl.Blake, attrs)(H.arr([mk('r')]), mk('t'))))
    both('C08.blake', [bl], blrun, {'lame': D_P, 'G': D_P, 'a': D_LEN, 'rho0': D_RHO, 'P0': D_P, 'r': D_LEN, 't': D_TIME},
                   {'displacement': D_LEN, 'strain_rr': D_NONE, 'density': D_RHO, 'stress_rr': D_P} if tier == 'quick' else
                   {'displacement': D_LEN, 'curr_posn': D_LEN, 'strain_rr': D_NONE, 'strain_qq': D_NONE, 'density': D_RHO, 'stress_rr': D_P,
                    'stress_qq': D_P, 'pressure': D_P, 'stress_diff': D_P},
                   lambda V: [T.gt(V('G'), T.ZERO), T.gt(T.add(T.mul(T.const(3), V('lame')), T.mul(T.const(2), V('G'))), T.ZERO),
                              T.gt(V('a'), T.ZERO), T.gt(V('rho0'), T.ZERO), T.gt(V('P0'), T.ZERO), T.gt(V('t'), T.ZERO), T.ge(V('r'), V('a'))],
                   functions=[bl.Blake._run], timeout_s=25)
    # ---------------- elastic-plastic piston (constructor quantities)
    import scipy.optimize as so
    ep = H.mod('exactpack.solvers.ep_piston.ep_piston')
    for model in ('hypo', 'hyperIfin', 'hyperFin'):
        def eprun(mk, model=model):
            s = ep.EPpiston(model=model, **{n: mk(n) for n in ('gamma', 'c0', 's0', 'G', 'Y', 'rho0', 'up')})
            return {k: getattr(s, k) for k in ('rho_y', 'e_y', 'p_y', 'wv_el', 'vel_y', 'p2', 'rho2', 'e2', 'sdev_y')}
        both('C08.eppiston.%s' % model, [ep], eprun,
                       {'c0': D_VEL, 'G': D_P, 'Y': D_P, 'rho0': D_RHO, 'up': D_VEL},
                       {'rho_y': D_RHO, 'e_y': D_E, 'p_y': D_P, 'wv_el': D_VEL, 'vel_y': D_VEL, 'sdev_y': D_P},
                       lambda V: [T.gt(V(n), T.ZERO) for n in ('gamma', 'c0', 's0', 'G', 'Y', 'rho0', 'up')] + [T.lt(V('Y'), V('G'))],
                       functions=[ep.EPpiston.__init__], extra_shim={'sci_opt': H.ModProxy(so, fsolve=stubs.fsolve_stub)}, timeout_s=8)
    # ---------------- heat rod (BC1) and Hutchens 1
    rod = H.mod('exactpack.solvers.heat.rod1d')
    D_T = (0, 0, 0, 1)

    def rodrun(mk):
        s = rod.Rod1D(kappa=mk('kappa'), L=mk('L'), TL=mk('TL'), TR=mk('TR'), alpha1=1, beta1=0, gamma1=mk('g1'), alpha2=1, beta2=0,
                      gamma2=mk('g2'), Nsum=2)
        return {'temperature': H.fields(s._run(H.arr([mk('x')]), mk('t')))['temperature'][0]}
    obs.append(Dim('C08.rod1d.bc1', [rod], rodrun,
                   {'kappa': (0, 2, -1), 'L': D_LEN, 'TL': D_T, 'TR': D_T, 'g1': D_T, 'g2': D_T, 'x': D_LEN, 't': D_TIME},
                   {'temperature': D_T}, pos('kappa', 'L', 't'), functions=[rod.Rod1D._run, rod.Rod1D.modes_BC1], scales=SC))
    h1 = H.mod('exactpack.solvers.heat.hutchens1')

    def h1run(mk):
        s = h1.Hutchens1(k=mk('k'), cp=mk('cp'), rho=mk('rho'), Tb=mk('Tb'), T0=mk('T0'), b=mk('b'), Nsum=3)
        return {'temperature': H.fields(s._run(H.arr([mk('r')]), mk('t')))['temperature'][0]}
    obs.append(Dim('C08.hutchens1', [h1], h1run,
                   {'k': (1, 1, -3, -1), 'cp': (0, 2, -2, -1), 'rho': D_RHO, 'Tb': D_T, 'T0': D_T, 'b': D_LEN, 'r': D_LEN, 't': D_TIME},
                   {'temperature': D_T}, lambda V: [T.gt(V(n), T.ZERO) for n in ('k', 'cp', 'rho', 'b', 'r', 't')] + [T.lt(V('r'), V('b'))],
                   functions=[h1.Hutchens1._run], scales=SC))
    # ---------------- Sedov: shock trajectory and post-shock amplitudes
    for g in (1, 2, 3):
        def srun(mk, g=g):
            out, s = S.jump_block(mk, g, Fraction(7, 5))
            return {k: out[k] for k in ('r2', 'rho1', 'us', 'u2', 'rho2', 'p2')}

        def sin_(mk, g=g):
            om = mk('omega')
            return {'rho0': (1, om - 3, 0), 'eblast': (1, g - 1, -2), 't': D_TIME, 'r': D_LEN}
        obs.append(Dim('C08.sedov.g%d' % g, [S.SM], srun, sin_,
                       {'r2': D_LEN, 'rho1': D_RHO, 'us': D_VEL, 'u2': D_VEL, 'rho2': D_RHO, 'p2': D_P},
                       lambda V, g=g: S.domain(V, g), functions=[H.mod(S.SM).Sedov._run], extra_shim=S.shim_extra(), max_paths=300))
    # ---------------- ideal-gas Riemann solver: every kernel the driver composes is homogeneous of its dimension, in
    # particular the four star-pressure FUNCTIONS (velocity-valued, pressure argument) and the five limiting velocities of
    # the pattern selection: the root p* and the selected pattern of scaled data are then the scaled root / the same pattern
    # (uniqueness of the root assumed, as in C09/C10)
    for gl, gr in (R.GAMMA_PAIRS_QUICK if tier == 'quick' else R.GAMMA_PAIRS_FULL):
        def krun(mk, gl=gl, gr=gr):
            m, u = H.mod(R.RM), H.mod(R.UM)
            st = {k: mk(k) for k in R.STATE}
            inst = m.RiemannIGEOS(gl=K(mk, gl), gr=K(mk, gr), xd0=mk('xd0'), t=mk('t'), num_x_pts=2, **st)
            inst.ul_tilde = st['ul'] + 2 * u.sound_speed(st['pl'], st['rl'], inst.gl, inst) / (inst.gl - 1)
            p, x = mk('p'), mk('x')
            d = {}
            for nm in ('SCS', 'SCR', 'RCS', 'RCR'):
                d['F_' + nm] = getattr(u, nm + '_call')(p, inst)
            for nm in ('u_SCN', 'u_NCS', 'u_NCR', 'u_RCN', 'u_RCVR'):
                d[nm] = getattr(u, nm)(st['pr'], inst)
            # the two wave-curve functions the four star functions are sums of (with +/- the data velocities)
            d['shock_l'] = u.shock(p, st['pl'], st['rl'], st['ul'], inst.gl, inst)
            d['shock_r'] = u.shock(p, st['pr'], st['rr'], st['ur'], inst.gr, inst)
            d['rare_l'] = u.rarefaction(p, st['pl'], st['rl'], st['ul'], inst.gl, inst)
            d['rare_r'] = u.rarefaction(p, st['pr'], st['rr'], st['ur'], inst.gr, inst)
            d['rho_shock'] = u.rho_star_shock(p, st['pl'], st['rl'], inst.gl, inst)
            d['rho_rare'] = u.rho_star_rarefaction(p, st['pr'], st['rr'], inst.gr, inst)
            d['V_shock'] = u.shock_velocity(p, st['pr'], st['rr'], st['ur'], inst.gr, inst)
            d['c'] = u.sound_speed(p, d['rho_shock'], inst.gl, inst)
            d['e'] = u.sie(p, d['rho_rare'], inst.gr, inst)
            d['fan_rho'], d['fan_p'], d['fan_u'] = u.rho_p_u_rarefaction(st['pl'], st['rl'], st['ul'], inst.gl, x, mk('xd0'), mk('t'), inst)
            return d
        kd = {'rho_shock': D_RHO, 'rho_rare': D_RHO, 'V_shock': D_VEL, 'c': D_VEL, 'e': D_E, 'fan_rho': D_RHO, 'fan_p': D_P, 'fan_u': D_VEL}
        for nm in ('F_SCS', 'F_SCR', 'F_RCS', 'F_RCR', 'u_SCN', 'u_NCS', 'u_NCR', 'u_RCN', 'u_RCVR', 'shock_l', 'shock_r', 'rare_l', 'rare_r'):
            kd[nm] = D_VEL
        u_ = H.mod(R.UM)
        obs.append(Dim('C08.riemann.kernels.gl=%s.gr=%s' % (gl, gr), R.modules(), krun,
                       {'rl': D_RHO, 'rr': D_RHO, 'ul': D_VEL, 'ur': D_VEL, 'pl': D_P, 'pr': D_P, 'xd0': D_LEN, 't': D_TIME, 'p': D_P, 'x': D_LEN},
                       kd, lambda V: R.domain(V) + [T.gt(V('p'), T.ZERO), T.ne(V('pl'), V('pr'))],
                       functions=[u_.SCS_call, u_.SCR_call, u_.RCS_call, u_.RCR_call, u_.u_SCN, u_.u_NCS, u_.u_NCR, u_.u_RCN, u_.u_RCVR,
                                  u_.rho_star_shock, u_.rho_star_rarefaction, u_.shock_velocity, u_.sound_speed, u_.sie,
                                  u_.rho_p_u_rarefaction],
                       extra_shim=R.shim_extra(cut=False), scales=('sm', 'sl', 'st'), max_paths=50, timeout_s=30))
        obs[-1].budget_s = 400
        obs[-1].hard_timeout_s = 900
    # ---------------- ideal-gas Riemann solver: wave table and star state
    pairs = R.GAMMA_PAIRS_QUICK[:1] if tier == 'quick' else R.GAMMA_PAIRS_QUICK
    for gl, gr in pairs:
        def rrun(mk, gl=gl, gr=gr):
            o = R.run_driver(mk, gl, gr)
            d = {k: o[k] for k in ('px', 'ux', 'rx1', 'rx2', 'ex1', 'ex2')}
            for i, v in enumerate(o['Vregs']):
                d['V%d' % i] = v
            for i, v in enumerate(o['Xregs']):
                d['X%d' % i] = v
            return d
        od = {'px': D_P, 'ux': D_VEL, 'rx1': D_RHO, 'rx2': D_RHO, 'ex1': D_E, 'ex2': D_E}
        for i in range(5):
            od['V%d' % i] = D_VEL
            od['X%d' % i] = D_LEN
        for pat in (('SCS', 'SCR', 'RCS', 'RCR') if tier == 'thorough' else ()):
            # thorough tier only (in the quick tier the kernel obligations above carry the Riemann solver: the implicit
            # derivative of the root makes these identities mostly undecided within the quick budgets).
            # one obligation per wave pattern (own budget, run in parallel): the other patterns' paths are abandoned at bisect
            def rrun_pat(mk, pat=pat, rrun=rrun):
                from symx.engine import PathAbort
                d = rrun(mk)
                return d
            sh = dict(R.shim_extra(), bisect=R.bisect_only(pat))
            obs.append(DimEuler('C08.riemann.%s.gl=%s.gr=%s.euler' % (pat, gl, gr), R.modules(), rrun_pat,
                                {'rl': D_RHO, 'rr': D_RHO, 'ul': D_VEL, 'ur': D_VEL, 'pl': D_P, 'pr': D_P, 'xd0': D_LEN, 't': D_TIME}, od,
                                lambda V: R.domain(V), functions=[H.mod(R.RM).RiemannIGEOS.driver], extra_shim=sh, max_paths=400,
                                timeout_s=15))
        if tier != 'thorough':
            continue
        o = Dim('C08.riemann.gl=%s.gr=%s' % (gl, gr), R.modules(), rrun,
                {'rl': D_RHO, 'rr': D_RHO, 'ul': D_VEL, 'ur': D_VEL, 'pl': D_P, 'pr': D_P, 'xd0': D_LEN, 't': D_TIME}, od,
                lambda V: R.domain(V), functions=[H.mod(R.RM).RiemannIGEOS.driver], extra_shim=R.shim_extra(), max_paths=400, timeout_s=20)
        o.when_equal_roots = True
        obs.append(o)
    return obs
