"""C02 -- every shock, detonation front and contact obeys the Rankine-Hugoniot relations."""
from fractions import Fraction
import numpy as np

from symx import terms as T
from symx.framework import Obligation, V
from symx.engine import SymReal, SymBool, term_of
from symx.shim import Recorder
from . import common as H
from . import riemann_common as R
from . import sedov_common as S
from . import ehep_common as E
from .common import K, Mode
from .rh import rh_claims

EXPLANATION = ('The code that places each discontinuity and computes the states on its two sides is executed on symbolic '
               'reals (root finders replaced by the contract f(x*)=0); z3 decides the three jump conditions with the front '
               'speed taken as the exact time-derivative of the coded front location (or the coded wave speed), contact '
               'conditions, and fan head/tail consistency, on every feasible path.')
BOUNDS = ['adiabatic indices of the Riemann problems from a finite rational set (pairs incl. unequal); everything else symbolic']
OUTSIDE = ['existence/uniqueness of the star-pressure root inside the bisect bracket', 'general-EOS solver tables and ODE output']
ASSUMPTIONS = ['bisect/fsolve/Newton stubs: the returned value is an arbitrary zero of the real residual function inside the bracket']
META = {
    'level_text': ('Bounded symbolic check of the real jump/wave-speed code: all states and parameters symbolic reals, root '
                   'solves replaced by their contracts, gamma sliced for the Riemann solver; z3 proves mass, momentum and energy '
                   'balance across every coded discontinuity on every wave pattern/path. Not a proof: floats as reals, root '
                   'existence/uniqueness assumed.'),
    'level_note': ('Trusted: z3; symx proxies/shims/stubs (validated against the unshimmed code per path); the RH oracle '
                   'harness/rh.py.'),
}


# ------------------------------------------------------------------ 1-D ideal-gas Riemann solver

class RiemannRH(Obligation):
    def __init__(self, gl, gr):
        self.gl, self.gr = gl, gr
        self.id = 'C02.igeos.gl=%s.gr=%s' % (gl, gr)
        self.modules = R.modules()
        self.extra_shim = R.shim_extra()
        m = H.mod(R.UM)
        self.functions = [H.mod(R.RM).RiemannIGEOS.driver, m.shock, m.rarefaction, m.shock_velocity, m.rho_star_shock,
                          m.rho_star_rarefaction, m.SCS_call, m.SCR_call, m.RCS_call, m.RCR_call, m.sie, m.sound_speed]
        self.bounds = 'left/right density, velocity, pressure symbolic; gamma pair fixed per obligation; all four wave patterns = paths'
        self.max_paths = 200
        self.timeout_s = 30
        self.skip_validation = False

    def build(self, mk):
        out = R.run_driver(mk, self.gl, self.gr)
        return R.flat(out)

    def domain(self, V):
        return R.domain(V)

    def claims(self, cx):
        pat = cx['_pattern']
        L = (cx['rl'], cx['ul'], cx['pl'], cx['el'])
        Rr = (cx['rr'], cx['ur'], cx['pr'], cx['er'])
        SL = (cx['rx1'], cx['ux'], cx['px'], cx['ex1'])
        SR = (cx['rx2'], cx['ux'], cx['px'], cx['ex2'])
        Vr = [cx['Vregs%d' % i] for i in range(cx['nVregs'])]
        gl, gr = cx['gl'], cx['gr']
        if pat[0] == 'S':
            rh_claims(cx, pat + ' left shock', L, SL, Vr[0])
        else:
            # left fan: Riemann invariant u + 2a/(g-1), isentrope, head/tail speeds
            cx.eq(pat + ' left fan invariant', cx['ux'] + 2 * cx['ax1'] / (gl - 1), cx['ul'] + 2 * cx['al'] / (gl - 1))
            cx.eq(pat + ' left fan head speed', Vr[0], cx['ul'] - cx['al'])
            cx.eq(pat + ' left fan tail speed', Vr[1], cx['ux'] - cx['ax1'])
        if pat[2] == 'S':
            # split: (i) the star velocity implied by the right Hugoniot equals the coded u* (needs the root
            # equation), (ii) RH across the right shock with that Hugoniot velocity (independent of the root)
            pr, rr, ur, px = cx['pr'], cx['rr'], cx['ur'], cx['px']
            A_ = 2 / (gr + 1) / rr                 # written in the same operation order as utils.shock so that
            B_ = (gr - 1) / (gr + 1) * pr          # the encoder shares one root variable with the code's term
            uR = (px - pr) * cx.sqrt(A_ / (px + B_)) + ur
            cx.eq(pat + ' contact: u* from the right Hugoniot equals coded u*', cx['ux'], uR)
            rh_claims(cx, pat + ' right shock (u* from right Hugoniot)', Rr, (cx['rx2'], uR, px, cx['ex2']), Vr[-1])
        else:
            cx.eq(pat + ' right fan invariant', cx['ux'] - 2 * cx['ax2'] / (gr - 1), cx['ur'] - 2 * cx['ar'] / (gr - 1))
            cx.eq(pat + ' right fan head speed', Vr[-1], cx['ur'] + cx['ar'])
            cx.eq(pat + ' right fan tail speed', Vr[-2], cx['ux'] + cx['ax2'])
        ic = 1 if pat[0] == 'S' else 2
        cx.eq(pat + ' contact moves with u*', Vr[ic], cx['ux'])


# ------------------------------------------------------------------ Noh and Coggeshall 19-21

class NohJump(Obligation):
    """RH at the Noh shock from the two branch formulas evaluated at the shock radius itself."""

    def __init__(self, geom):
        self.geom = geom
        self.m = H.mod('exactpack.solvers.noh.noh1')
        self.id = 'C02.noh.g%d' % geom
        self.modules = [self.m]
        self.extra_shim = {'ExactSolution': Recorder}
        self.functions = [self.m.Noh._run]
        self.bounds = 'gamma>1, u0<0, rho0>0, t>0 symbolic; both branch formulas evaluated at the reported shock radius'
        self.uses_derivatives = True

    def build(self, mk):
        s = H.new_solver(self.m.Noh, dict(geometry=self.geom, gamma=mk('gamma'), u0=mk('u0'), rho0=mk('rho0')))
        t = mk('t')
        out = {}
        if Mode.symbolic(mk):
            # r symbolic: both np.where branches are explored as paths; the harness keeps the term of each
            # branch and substitutes r := shock radius afterwards (see cross())
            f = H.first(H.run_1d(s, mk))
            out.update(f)
        else:
            rs = abs(mk('u0')) * t * (mk('gamma') - 1) / 2
            for side, fac in (('in', 1 - 1e-9), ('out', 1 + 1e-9)):
                f = H.first(H.run_1d(s, lambda n, fac=fac: rs * fac if n == 'r' else mk(n)))
                for k, v in f.items():
                    out[side + '_' + k] = float(v)
            out['D'] = abs(mk('u0')) * (mk('gamma') - 1) / 2
        return out

    def domain(self, V):
        return [T.gt(V('gamma'), T.ONE), T.lt(V('u0'), T.ZERO), T.gt(V('rho0'), T.ZERO), T.gt(V('t'), T.ZERO),
                T.gt(V('r'), T.ZERO)]

    def claims(self, cx):
        if cx.symbolic:
            return          # decided in cross()
        a = tuple(cx['in_' + k] for k in ('density', 'velocity', 'pressure', 'specific_internal_energy'))
        b = tuple(cx['out_' + k] for k in ('density', 'velocity', 'pressure', 'specific_internal_energy'))
        rh_claims(cx, 'shock', a, b, cx['D'])

    def cross(self, paths, vals):
        return front_jump_cross(self, paths, front_var='r', time_var='t')


def front_jump_cross(ob, paths, front_var, time_var, names=('density', 'velocity', 'pressure', 'specific_internal_energy'),
                     total_stress=None):
    """Generic: the solver was run at a symbolic position; two adjacent paths differ by one comparison
    `position < front(t)'.  Substitute position := front(t) in both branch formulas, take D = d front/dt
    (exact derivative) and assert the three jump conditions."""
    from symx import diff as Df
    from symx.framework import replay_claim
    out = []
    for i in range(len(paths)):
        for j in range(len(paths)):
            if i == j:
                continue
            ci, oi = paths[i]
            cj, oj = paths[j]
            front = _front_between(ci, cj, front_var)
            if front is None:
                continue
            ai = set(ci.args) if ci.op == 'and' else {ci}
            aj = set(cj.args) if cj.op == 'and' else {cj}
            # what both branches share (stub contracts, constructor decisions), minus anything about the position
            common = [a for a in (ci.args if ci.op == 'and' else (ci,)) if a in aj and front_var not in T.free_vars(a)]
            sub = {T.var(front_var): front}
            D = Df.d(front, time_var)
            def st(o):
                return tuple(SymReal(T.substitute(term_of(o[n]), sub)) for n in names)
            a, b = st(oi), st(oj)
            Dd = SymReal(D)
            class _C(object):
                symbolic = True
                def __init__(s): s.claims = []
                def eq(s, label, x, y, when=None, **k): s.claims.append((label, T.eq(term_of(x), term_of(y))))
            c = _C()
            rh_claims(c, 'front %s' % T.show(front, 60), a, b, Dd)
            for label, ct in c.claims:
                lab = label.split(' RH ')[-1]
                out.append(('shock RH ' + lab, common, ct, _replay_via_claims(ob, 'shock RH ' + lab, front)))
    return out


def _replay_via_claims(ob, label, front):
    from symx.framework import replay_claim

    def chk(env):
        e2 = dict(env)
        try:
            e2['__hint'] = T.evalf(front, env)     # where to look for the jump (bisection still locates it)
        except Exception:
            pass
        return replay_claim(ob, e2, label)
    return chk


def _front_between(ci, cj, pos):
    """if path conditions ci, cj differ exactly in the truth of one atom `pos < F' (F free of pos): return F"""
    ai = set(ci.args) if ci.op == 'and' else {ci}
    aj = set(cj.args) if cj.op == 'and' else {cj}
    di = [a for a in ai if a not in aj]
    dj = [a for a in aj if a not in ai]
    if len(di) != 1 or len(dj) != 1:
        return None
    a, b = di[0], dj[0]
    if b.op == 'not' and b.args[0] is a and a.op == 'lt' and a.args[0].op == 'var' and a.args[0].args[0] == pos:
        if pos not in T.free_vars(a.args[1]):
            return a.args[1]
    return None


class CogShock(Obligation):
    """Coggeshall 19/20/21: same construction as Noh."""
    uses_derivatives = True

    def __init__(self, name, geom):
        self.name, self.geom = name, geom
        self.m, self.cls = H.cog_class(name)
        self.id = 'C02.%s.g%s' % (name.lower(), geom if geom else 'fixed')
        self.modules = [self.m]
        self.extra_shim = {'ExactSolution': Recorder, 'print': H.quiet_print}
        self.functions = [self.cls._run]
        self.bounds = 'all declared real parameters and t symbolic; both branch formulas evaluated at the coded shock radius'

    def _solver(self, mk):
        attrs = {p: mk(p) for p in H.COG[self.name]['params']}
        if self.geom:
            attrs['geometry'] = self.geom
        return H.new_solver(self.cls, attrs)

    def build(self, mk):
        s = self._solver(mk)
        out = {}
        if Mode.symbolic(mk):
            out.update(H.first(H.run_1d(s, mk)))
        else:
            # locate the front from the fields themselves: bisection on the density jump between r_lo and r_hi
            t = mk('t')
            lo, hi = 1e-6, 1e3
            rs = _bisect_front(s, mk, lo, hi)
            dt = 1e-6 * max(abs(t), 1e-6)
            rs2 = _bisect_front(s, lambda n: (t + dt) if n == 't' else mk(n), lo, hi)
            rs1 = _bisect_front(s, lambda n: (t - dt) if n == 't' else mk(n), lo, hi)
            out['D'] = (rs2 - rs1) / (2 * dt)
            for side, fac in (('in', 1 - 1e-9), ('out', 1 + 1e-9)):
                fl = H.first(H.run_1d(s, lambda n, fac=fac: rs * fac if n == 'r' else mk(n)))
                for k, v in fl.items():
                    out[side + '_' + k] = float(v)
        return out

    def domain(self, V):
        d = [T.gt(V('r'), T.ZERO), T.gt(V('t'), T.ZERO), T.gt(V('Gamma'), T.ZERO), T.gt(V('rho0'), T.ZERO)]
        ps = H.COG[self.name]['params']
        if 'gamma' in ps:
            d.append(T.gt(V('gamma'), T.ONE))
        if self.name == 'Cog19':
            d.append(T.lt(V('u0'), T.ZERO))
        if self.name == 'Cog20':
            d += [T.gt(V('a'), T.ZERO), T.gt(V('u0'), T.ZERO), T.lt(T.mul(T.const(2), T.mul(V('a'), V('t'))), T.ONE)]
        if self.name == 'Cog21':
            d.append(T.gt(V('temp0'), T.ZERO))
        return d

    def claims(self, cx):
        if cx.symbolic:
            return
        a = tuple(cx['in_' + k] for k in ('density', 'velocity', 'pressure', 'specific_internal_energy'))
        b = tuple(cx['out_' + k] for k in ('density', 'velocity', 'pressure', 'specific_internal_energy'))
        rh_claims(cx, 'shock', a, b, cx['D'])

    def cross(self, paths, vals):
        return front_jump_cross(self, paths, front_var='r', time_var='t')


class SedovShock(Obligation):
    uses_derivatives = True

    def __init__(self, geom, gamma):
        self.geom, self.gamma = geom, gamma
        self.id = 'C02.sedov.g%d.gamma=%s' % (geom, gamma)
        self.modules = [H.mod(S.SM)]
        self.extra_shim = S.shim_extra()
        self.functions = [H.mod(S.SM).Sedov.__init__, H.mod(S.SM).Sedov._run]
        self.bounds = 'rho0, eblast, omega in [0,geometry), t symbolic; gamma fixed per obligation; energy integrals alpha = quad stubs (free symbols); all solution types = paths'
        self.max_paths = 100
        self.skip_validation = True      # alpha is a free symbol in the symbolic run

    def build(self, mk):
        out, s = S.jump_block(mk, self.geom, self.gamma)
        res = {k: out[k] for k in ('r2', 'rho1', 'us', 'u2', 'rho2', 'p2')}
        res['_gamma'] = K(mk, self.gamma)
        if not Mode.symbolic(mk):
            t = mk('t')
            dt = 1e-5 * t
            o2, _ = S.jump_block(lambda n: t + dt if n == 't' else mk(n), self.geom, self.gamma)
            o1, _ = S.jump_block(lambda n: t - dt if n == 't' else mk(n), self.geom, self.gamma)
            res['D'] = (o2['r2'] - o1['r2']) / (2 * dt)
        return res

    def domain(self, V):
        return S.domain(V, self.geom)

    def claims(self, cx):
        g = cx['_gamma']
        D = cx.d(lambda c: c['r2'], 't') if cx.symbolic else cx['D']
        cx.eq('coded shock speed us = d r2/dt', cx['us'], D, tol=1e-5)
        e2 = cx['p2'] / ((g - 1) * cx['rho2'])
        rh_claims(cx, 'Sedov shock', (cx['rho1'], 0, 0, 0), (cx['rho2'], cx['u2'], cx['p2'], e2), D)


def _bisect_front(s, mk, lo, hi):
    """locate the velocity discontinuity between lo and hi by bisection on the returned field
    (numeric replay helper; a hint from the witness narrows the bracket)"""
    g = lambda r: float(H.first(H.run_1d(s, lambda n: r if n == 'r' else mk(n)))['velocity'])
    try:
        hint = mk('__hint')
        if hint > 0:
            lo, hi = 0.5 * hint, 2.0 * hint
    except KeyError:
        pass
    n = 400
    rs = [lo * (hi / lo) ** (i / float(n)) for i in range(n + 1)]
    vs = [g(r) for r in rs]
    d = [abs(vs[i + 1] - vs[i]) for i in range(n)]
    def score(i):
        nb = [d[j] for j in (i - 1, i + 1) if 0 <= j < n]
        return d[i] - (sum(nb) / len(nb) if nb else 0.0)
    k = max(range(n), key=score)
    a, b = rs[k], rs[k + 1]
    va, vb = vs[k], vs[k + 1]
    for _ in range(100):
        m = 0.5 * (a + b)
        if abs(g(m) - va) < abs(g(m) - vb):
            a = m
        else:
            b = m
    return 0.5 * (a + b)


# ------------------------------------------------------------------ elastic-plastic piston

class EPPistonWaves(Obligation):
    def __init__(self, model):
        self.model = model
        self.m = H.mod('exactpack.solvers.ep_piston.ep_piston')
        self.id = 'C02.eppiston.%s' % model
        self.modules = [self.m]
        import scipy.optimize as so
        from symx import stubs
        self.extra_shim = {'sci_opt': H.ModProxy(so, fsolve=stubs.fsolve_stub), 'ExactSolution': Recorder}
        self.functions = [self.m.EPpiston.__init__, self.m.EPpiston.Plastic_Residual, self.m.EPpiston.Gruneisen]
        self.bounds = 'G, Y, rho0, up, gamma, c0, s0 symbolic; elasticity model fixed per obligation; fsolve replaced by its contract'
        self.skip_validation = True
        self.timeout_s = 40

    def build(self, mk):
        kw = {n: mk(n) for n in ('gamma', 'c0', 's0', 'G', 'Y', 'rho0', 'up')}
        s = self.m.EPpiston(model=self.model, **kw)
        out = {k: getattr(s, k) for k in ('sdev_y', 'rho_y', 'e_y', 'p_y', 'wv_el', 'vel_y', 'wv_pl', 'p2', 'rho2', 'e2')}
        out.update(_rho0=mk('rho0'), _up=mk('up'))
        out['p_y_eos'] = s.Gruneisen(mk('rho0'), mk('gamma'), mk('c0'), mk('s0'), out['rho_y'], out['e_y'])
        out['p2_eos'] = s.Gruneisen(mk('rho0'), mk('gamma'), mk('c0'), mk('s0'), out['rho2'], out['e2'])
        return out

    def domain(self, V):
        return [T.gt(V(n), T.ZERO) for n in ('gamma', 'c0', 's0', 'G', 'Y', 'rho0', 'up')] + \
               [T.lt(V('Y'), V('G'))]

    def claims(self, cx):
        rho0 = cx['_rho0']
        # total stress P = p - s_dev replaces pressure
        s0_ = (rho0, 0, 0 - 0, 0)
        sy = (cx['rho_y'], cx['vel_y'], cx['p_y'] - cx['sdev_y'], cx['e_y'])
        s2 = (cx['rho2'], cx['_up'], cx['p2'] - cx['sdev_y'], cx['e2'])
        rh_claims(cx, 'elastic precursor', s0_, sy, cx['wv_el'])
        rh_claims(cx, 'plastic wave', sy, s2, cx['wv_pl'])


# ------------------------------------------------------------------ steady-detonation reaction zone

class SDRZFluxes(Obligation):
    def __init__(self):
        self.m = H.mod('exactpack.solvers.sdrz.sdrz')
        self.id = 'C02.sdrz'
        self.modules = [self.m]
        self.extra_shim = {'ExactSolution': Recorder}
        self.functions = [self.m.SteadyDetonationReactionZone.__init__, self.m.SteadyDetonationReactionZone.run_tvec]
        self.bounds = 'D, rho_0, gamma and one particle time t>0 symbolic (both t<=1 and t>1 paths)'

    def build(self, mk):
        s = self.m.SteadyDetonationReactionZone(D=mk('D'), rho_0=mk('rho_0'), gamma=mk('gamma'))
        sol = s.run_tvec(H.arr([mk('t')]))
        f = H.first(H.fields(sol))
        # only the fields of the flux claims: for a single particle time t > 1 run_tvec reads its relative position from an
        # np.empty_like array before writing it (xvec_rel[it1] with tvec[it1] > 1): uninitialised memory, not a value
        out = {k: f[k] for k in ('density', 'velocity', 'pressure')}
        out.update(_D=mk('D'), _rho0=mk('rho_0'))
        return out

    def domain(self, V):
        return [T.gt(V('t'), T.ZERO), T.gt(V('gamma'), T.ONE)]

    def claims(self, cx):
        D, rho0 = cx['_D'], cx['_rho0']
        rho, u, p = cx['density'], cx['velocity'], cx['pressure']
        cx.eq('mass flux rho (D-u) = rho_0 D', rho * (D - u), rho0 * D)
        cx.eq('momentum flux p + rho (D-u)^2 = rho_0 D^2', p + rho * (D - u) * (D - u), rho0 * D * D)


# ------------------------------------------------------------------ Mader CJ state

class MaderCJ(Obligation):
    def __init__(self):
        self.m = H.mod('exactpack.solvers.mader.rarefaction')
        self.id = 'C02.mader.cj'
        self.modules = [self.m]
        from symx import stubs
        self.extra_shim = {'abs': stubs.cut_here}
        self.functions = [self.m.rare]
        self.bounds = 'p_cj, d_cj, gamma, u_piston, time, x, dx symbolic; constants block of rare() (cut at the first abs())'
        self.skip_validation = True

    def build(self, mk):
        from symx import stubs
        args = (mk('time'), mk('xlab'), mk('dx'), mk('p_cj'), mk('d_cj'), mk('gam'), mk('u_piston'))
        if Mode.symbolic(mk):
            try:
                self.m.rare(*args)
                raise RuntimeError('rare() was not cut')
            except stubs.Cut as c:
                L = c.locals
        else:
            _, L = H.capture_locals(self.m.rare, lambda: self.m.rare(*args))
        out = {k: L[k] for k in ('rho_0', 'rho_cj', 'c_cj', 'u_cj')}
        out.update(_p=mk('p_cj'), _D=mk('d_cj'), _g=mk('gam'))
        return out

    def domain(self, V):
        return [T.gt(V(n), T.ZERO) for n in ('time', 'dx', 'p_cj', 'd_cj')] + [T.gt(V('gam'), T.ONE)]

    def claims(self, cx):
        p, D, g = cx['_p'], cx['_D'], cx['_g']
        r0, rcj, ccj, ucj = cx['rho_0'], cx['rho_cj'], cx['c_cj'], cx['u_cj']
        cx.eq('CJ mass: rho_0 D = rho_cj (D-u_cj)', r0 * D, rcj * (D - ucj))
        cx.eq('CJ momentum: p_cj = rho_0 D u_cj', p, r0 * D * ucj)
        cx.eq('CJ sonic: D = u_cj + c_cj', D, ucj + ccj)
        cx.eq('c_cj^2 = gamma p_cj/rho_cj', ccj * ccj * rcj, g * p)


class EHEPFront(Obligation):
    """detonation front x = D t: region I formulas evaluated at the front vs the unreacted state"""

    def __init__(self):
        self.m = H.mod(E.EM)
        self.id = 'C02.ehep.front'
        self.modules = [self.m]
        self.extra_shim = E.shim_extra()
        self.functions = [self.m.EscapeOfHEProducts.__init__, self.m.EscapeOfHEProducts._run, self.m.EscapeOfHEProducts.p_rho]
        self.bounds = 'D, rho_0, up, xtilde, xmax, tmax, x, t symbolic (constructor-admitted); gamma = 3 as the problem requires'
        self.max_paths = 80
        self.skip_validation = True     # the concrete build evaluates on both sides of the front, not at the symbolic x

    def build(self, mk):
        if Mode.symbolic(mk):
            out, s = E.run(mk)
        else:
            t = mk('t')
            out, s = E.run(mk, x=mk('D') * t * (1 - 1e-9), t=t)
            ahead, _ = E.run(mk, x=mk('D') * t * (1 + 1e-9), t=t)
            out['ahead_density'] = ahead['density']
            out['ahead_pressure'] = ahead['pressure']
            out['ahead_velocity'] = ahead['velocity']
        out.pop('_corners')
        out.update(_D=mk('D'), _rho0=mk('rho_0'))
        return out

    def domain(self, V):
        return E.domain(V)

    def claims(self, cx):
        if cx.symbolic:
            return
        D, rho0 = cx['_D'], cx['_rho0']
        self._cj(cx, D, rho0, cx['density'], cx['velocity'], cx['pressure'], cx['sound_speed'],
                 cx['ahead_density'], cx['ahead_velocity'], cx['ahead_pressure'])

    @staticmethod
    def _cj(cx, D, rho0, rho, u, p, cs, rho_a, u_a, p_a):
        cx.eq('front: ahead state is the unreacted explosive (rho_0, 0, 0)', rho_a, rho0)
        cx.eq('front: ahead velocity 0', u_a, 0, scale=[1.0] if not cx.symbolic else None)
        cx.eq('front: ahead pressure 0', p_a, 0, scale=[1.0] if not cx.symbolic else None)
        cx.eq('front CJ mass', rho * (D - u), rho0 * D)
        cx.eq('front CJ momentum', p + rho * (D - u) * (D - u), rho0 * D * D)
        cx.eq('front CJ sonic', u + cs, D)

    def cross(self, paths, vals):
        from symx.framework import replay_claim
        out = []
        regI = [(c, o) for c, o in paths if o.get('_region') == 'I']
        reg0 = [(c, o) for c, o in paths if o.get('_region') == '0H']
        if not regI or not reg0:
            raise RuntimeError('regions I / 0H not reached')
        sub = {T.var('x'): T.mul(T.var('D'), T.var('t'))}
        f = lambda o, k: SymReal(T.substitute(term_of(o[k]), sub))
        oI, o0 = regI[0][1], reg0[0][1]

        class _C(object):
            symbolic = True

            def __init__(s):
                s.claims = []

            def eq(s, label, a, b, **k):
                s.claims.append((label, T.eq(term_of(a), term_of(b))))
        c = _C()
        self._cj(c, SymReal(T.var('D')), SymReal(T.var('rho_0')), f(oI, 'density'), f(oI, 'velocity'), f(oI, 'pressure'),
                 f(oI, 'sound_speed'), f(o0, 'density'), f(o0, 'velocity'), f(o0, 'pressure'))
        for label, ct in c.claims:
            out.append((label, [], ct, (lambda env, label=label: replay_claim(self, env, label))))
        return out


class _NewtonStub(object):
    """newton_solver contract: solve() returns an arbitrary state with F(state) == 0"""

    def __init__(self):
        self.function = None

    def set_function(self, f):
        self.function = f

    def set_new_initial_guess(self, g):
        self.guess = g

    def set_new_tolerance(self, e):
        pass

    def solve(self, verbose=False, output_file=None):
        from symx.engine import current
        ex = current()
        n = len(self.guess)
        # the same system solved again on this path (a second object with identical data, a repeated call) has the same
        # answer: recognised by the terms of F at a probe vector
        from symx.engine import sym
        probe = [sym('__newton_probe%d' % i) for i in range(n)]
        key = tuple(term_of(v) for v in self.function.F(list(probe)))
        cache = ex.notes.setdefault('newtoncache', {})
        if key in cache:
            return {'solution': cache[key].copy()}
        x = np.empty(n, dtype=object)
        for i in range(n):
            x[i] = ex.fresh('newton')
        cache[key] = x
        F = self.function.F(list(x))
        for i in range(n):
            ex.assume(T.eq(term_of(F[i]), T.ZERO))
        # physically reasonable root: compressed, outward-moving shock (the iteration's starting guess has
        # positive density and speed); which root Newton converges to is outside the claim
        ex.assume(T.gt(term_of(x[0]), T.ZERO))
        ex.assume(T.gt(term_of(x[2]), T.ZERO))
        return {'solution': x}


class BBNohShock(Obligation):
    uses_derivatives = True

    def __init__(self, ename, sym_):
        from . import C16
        self.C16 = C16
        self.ename, self.sym = ename, sym_
        self.m = H.mod(C16.BBM)
        self.id = 'C02.nohbb.%s.m%d' % (ename.replace('_eos', ''), sym_)
        self.modules = [self.m, H.mod(C16.EOSM), H.mod(C16.RESM)]
        self.extra_shim = {'ExactSolution': Recorder, 'print': H.quiet_print}
        self.functions = [self.m.NohBlackBoxEos.solve_jump_conditions, self.m.NohBlackBoxEos._run]
        self.bounds = 'rho0, u0<0, EOS constants, r, t symbolic; symmetry fixed; Newton solve replaced by its contract F(x*)=0, rho*>0, D>0'
        self.skip_validation = True
        self.max_paths = 60

    def _solver(self, mk):
        eos = self.C16.make_eos(self.ename, mk)
        ic = {'density': mk('rho0'), 'velocity': mk('u0'), 'pressure': 0, 'symmetry': self.sym}
        s = self.m.NohBlackBoxEos(eos, ic, geometry=self.sym + 1, rho0=mk('rho0'), u0=mk('u0'))
        if Mode.symbolic(mk):
            s.solver = _NewtonStub()
        else:
            s.set_new_solver_initial_guess([4.0 * float(mk('rho0')), max(1.0, float(mk('rho0')) * float(mk('u0')) ** 2), abs(float(mk('u0')))])
        return s

    def build(self, mk):
        s = self._solver(mk)
        out = {}
        if Mode.symbolic(mk):
            out.update(H.first(H.run_1d(s, mk)))
        else:
            t = mk('t')
            s.solve_jump_conditions()
            rs = float(s.shock_speed) * t
            out['D'] = float(s.shock_speed)
            for side, fac in (('in', 1 - 1e-9), ('out', 1 + 1e-9)):
                fl = H.first(H.run_1d(s, lambda n, fac=fac: rs * fac if n == 'r' else mk(n)))
                for k, v in fl.items():
                    out[side + '_' + k] = float(v)
        return out

    def domain(self, V):
        d = [T.lt(V('u0'), T.ZERO), T.gt(V('rho0'), T.ZERO), T.gt(V('r'), T.ZERO), T.gt(V('t'), T.ZERO)]
        d += [x for x in self.C16.EOS[self.ename][1](V) if 'rho' not in T.free_vars(x)]
        return d

    def claims(self, cx):
        if cx.symbolic:
            return
        a = tuple(cx['in_' + k] for k in ('density', 'velocity', 'pressure', 'specific_internal_energy'))
        b = tuple(cx['out_' + k] for k in ('density', 'velocity', 'pressure', 'specific_internal_energy'))
        rh_claims(cx, 'shock', a, b, cx['D'])

    def cross(self, paths, vals):
        return front_jump_cross(self, paths, front_var='r', time_var='t')


class GuderleyJumps(Obligation):
    replay_limit_s = 300        # the real Guderley solve takes 20-40 s on an idle core, several times that under load
    """Guderley: (i) the initial vector handed to solve_ivp at x = -1 is the strong-shock image of the undisturbed gas,
    (ii) the jump applied at the reflected shock x = B satisfies the general-strength Rankine-Hugoniot relations; both in the
    similarity variables (u - D = -(r/(lambda t)) (1 + V), c = -(r/(lambda t)) C, rho = rho0 R)."""

    def __init__(self, n, gamma):
        from . import guderley_common as G
        self.G = G
        self.n, self.gamma = n, gamma
        self.id = 'C02.guderley.n%d.gamma=%s' % (n, gamma)
        self.m = H.mod(G.GM)
        self.modules = [self.m]
        self.extra_shim = G.shim_extra()
        self.functions = [self.m.state]
        self.bounds = 'r, rho0, lambda, B, x >= B symbolic; gamma fixed; the state reaching the reflected shock is an arbitrary (fresh) vector'
        self.skip_validation = True

    def build(self, mk):
        if not Mode.symbolic(mk):
            # replay: the same formulas are a few lines of state(); evaluate them through the real function at a post-reflection
            # point and read the jump from a profile hook
            g = float(Fraction(self.gamma))
            lam = self.m.eexp(self.n, g)
            B = self.m.get_shock_position(self.n, g, lam)
            recs = []
            real = self.m.solve_ivp

            def spy(f, span, y0, **kw):
                sol = real(f, span, y0, **kw)
                recs.append((np.array(y0, dtype=float), np.array(sol.y[:, -1], dtype=float)))
                return sol
            self.m.solve_ivp = spy
            try:
                self.m.state(1.0, abs(float(mk('rho0'))) + 0.1, self.n, g, lam, B, 2.0 * B)
            finally:
                self.m.solve_ivp = real
            pre, post, init = recs[0][1], recs[1][0], recs[0][0]
        else:
            from symx.engine import current
            self.G.run_state(mk, self.n, self.gamma)
            recs = current().notes.get('ivp', [])
            if len(recs) < 2:
                from symx.engine import PathAbort
                raise PathAbort()          # not the post-reflection branch
            pre, post, init = recs[0]['y'], recs[1]['y0'], recs[0]['y0']
        out = {'_g': K(mk, self.gamma)}
        for i, nm in enumerate(('V', 'C', 'R')):
            out[nm + '0'], out[nm + '1'], out[nm + 'i'] = pre[i], post[i], init[i]
        return out

    def domain(self, V):
        return [T.gt(V('r'), T.ZERO), T.gt(V('rho0'), T.ZERO), T.gt(V('lam'), T.ONE), T.gt(V('B'), T.ZERO), T.ge(V('x'), V('B'))]

    def _rh(self, cx, tag, a, b, g, when=None):
        (R0, V0, C0), (R1, V1, C1) = a, b
        w0, w1 = 1 + V0, 1 + V1
        cx.eq(tag + ' RH mass', R0 * w0, R1 * w1, when=when)
        cx.eq(tag + ' RH momentum', R0 * w0 * w0 + R0 * C0 * C0 / g, R1 * w1 * w1 + R1 * C1 * C1 / g, when=when)
        cx.eq(tag + ' RH energy', w0 * w0 / 2 + C0 * C0 / (g - 1), w1 * w1 / 2 + C1 * C1 / (g - 1), when=when)

    def claims(self, cx):
        g = cx['_g']
        self._rh(cx, 'converging shock (initial vector at x=-1)', (1, 0, 0), (cx['Ri'], cx['Vi'], cx['Ci']), g)
        # the radicand of the post-shock sound speed must be non-negative for the formulas to apply
        ok = None
        if cx.symbolic:
            ok = (cx['R0'] > 0) & ((1 + cx['V0']) > 0) & ((1 + cx['V0']) * (1 + cx['V0']) > cx['C0'] * cx['C0']) & \
                ((cx['C0'] > 0) | (cx['C0'] < 0))          # supersonic inflow relative to the front, non-zero sound speed
        self._rh(cx, 'reflected shock at x=B', (cx['R0'], cx['V0'], cx['C0']), (cx['R1'], cx['V1'], cx['C1']), g, when=ok)


def obligations(tier):
    obs = []
    pairs = R.GAMMA_PAIRS_QUICK if tier == 'quick' else R.GAMMA_PAIRS_FULL
    for gl, gr in pairs:
        obs.append(RiemannRH(gl, gr))
    for g in (1, 2, 3):
        obs.append(NohJump(g))
    gams = H.G_QUICK if tier == 'quick' else H.G_FULL
    for g in (1, 2, 3):
        for gam in gams:
            obs.append(SedovShock(g, gam))
    for name in ('Cog19', 'Cog20', 'Cog21'):
        for g in H.COG[name]['geoms']:
            obs.append(CogShock(name, g))
    for model in ('hypo', 'hyperIfin', 'hyperFin'):
        obs.append(EPPistonWaves(model))
    obs.append(SDRZFluxes())
    obs.append(MaderCJ())
    obs.append(EHEPFront())
    for n in (2, 3):
        for gam in ([Fraction(7, 5), Fraction(3)] if tier == 'quick' else H.G_FULL):
            obs.append(GuderleyJumps(n, gam))
    for ename in ('ideal_gas_eos', 'stiffened_gas_eos', 'noble_abel_eos', 'carnahan_starling_eos'):
        for m in (0, 1, 2):
            obs.append(BBNohShock(ename, m))
    return obs
