"""C09 -- Riemann and burn-time solutions respect mirror, Galilean and rigid symmetry."""
from fractions import Fraction
import numpy as np

from symx import terms as T
from symx.framework import Obligation, V
from symx.engine import SymReal, SymBool, term_of
from symx.shim import Recorder
from . import common as H
from . import riemann_common as R
from .common import K, Mode

EXPLANATION = ('Relational (two-run) symbolic execution: the real solver is run on symbolic data and on the transformed data '
               '(mirrored / boosted Riemann states; rotated, reflected or translated detonators and points) inside one solver '
               'context; z3 decides that the wave-pattern classification, the star-pressure root FUNCTION, the star state, the '
               'wave-speed table and the burn times are related by the symmetry, on every pair of feasible paths.')
BOUNDS = ['gamma pairs from a finite rational set; one evaluation point for burn times; rotation given by (c, s) with c^2+s^2=1']
OUTSIDE = ['equality of the two bisect roots is derived from equality of the root functions + uniqueness of the root (stated assumption)',
           "general-EOS solver: mirror only, on small tables (problem and mirrored problem on one path, second star-pressure call returns the first root after its own function is proved zero there): general-EOS Riemann driver (RiemannGenEOS.driver): run as coded with scipy.integrate.ode replaced by its contract (ideal-gas flag: the closed-form integral curve, proved to satisfy the real right-hand side drdp_dudp by the `geos.ode_contract' obligations), bisect by f(x*)=0, tables of 2 (rarefaction) / 4 (shock) nodes, empty internal grid; wave ordering and monotone fan knots (np.interp's precondition) are assumed; one obligation per wave pattern and per pair of table intervals containing p*; p* within one table step of an initial pressure (star-state lookup clamps to the last node) and the JWL flag are outside"]
ASSUMPTIONS = ['the star-pressure equation has a unique root in the bracket (monotone wave curves)']
META = {
    'level_text': ('Bounded relational symbolic check on the real code: mirrored and Galilean-boosted Riemann data, rotated / '
                   'reflected / translated burn-time problems; z3 proves the outputs of the two runs are related by the symmetry '
                   'for all real inputs on every path pair; gamma sliced. Not a proof: floats as reals; root uniqueness assumed.'),
    'level_note': ('Trusted: z3; symx proxies/shims/stubs; the statement of each symmetry map in harness/C09.py.'),
}

FORM = {'SCS': 1, 'RCS': 1, 'SCR': -1, 'RCR': -1}     # sign convention of the coded star-pressure function


class RiemannSym(Obligation):
    def __init__(self, kind, gl, gr):
        self.kind, self.gl, self.gr = kind, gl, gr
        self.id = 'C09.riemann.%s.gl=%s.gr=%s' % (kind, gl, gr)
        self.modules = R.modules()
        self.extra_shim = R.shim_extra()
        m = H.mod(R.UM)
        self.functions = [H.mod(R.RM).RiemannIGEOS.driver, m.SCS_call, m.SCR_call, m.RCS_call, m.RCR_call,
                          m.u_SCN, m.u_NCS, m.u_NCR, m.u_RCN, m.u_RCVR, m.shock_velocity]
        self.bounds = 'left/right states, boost velocity, membrane position, time symbolic; gamma pair fixed; all pairs of wave-pattern paths'
        self.max_paths = 400
        self.timeout_s = 20
        self.skip_validation = True

    def build(self, mk):
        A = R.run_driver(mk, self.gl, self.gr)
        st = {k: A[k] for k in R.STATE}
        if self.kind == 'mirror':
            st2 = dict(rl=st['rr'], ul=-st['ur'], pl=st['pr'], rr=st['rl'], ur=-st['ul'], pr=st['pl'])
            B = R.run_driver(mk, self.gr, self.gl, state=st2, xd0=-A['xd0'], t=A['t'])
        else:
            W = mk('W')
            st2 = dict(st)
            st2['ul'] = st['ul'] + W
            st2['ur'] = st['ur'] + W
            B = R.run_driver(mk, self.gl, self.gr, state=st2, xd0=A['xd0'], t=A['t'])
        u = H.mod(R.UM)
        pp = mk('pp')
        d = R.flat(A, 'A_')
        d.update(R.flat(B, 'B_'))
        d['fA'] = getattr(u, A['pattern'] + '_call')(pp, A['inst'])
        d['fB'] = getattr(u, B['pattern'] + '_call')(pp, B['inst'])
        if self.kind == 'boost':
            d['W'] = W
        return d

    def domain(self, V):
        return R.domain(V) + [T.gt(V('pp'), T.ZERO)]

    def claims(self, cx):
        pa, pb = cx['A__pattern'], cx['B__pattern']
        want = pa[::-1] if self.kind == 'mirror' else pa
        if pb != want:
            cx.true('%s of a %s problem is classified %s, not %s' % (self.kind, pa, want, pb), False if not cx.symbolic else SymBool(T.FALSE))
            return
        tag = '%s %s: ' % (self.kind, pa)
        cx.eq(tag + 'same star-pressure function (up to the coded sign convention)', cx['fA'] * FORM[pa], cx['fB'] * FORM[pb])
        same = (cx['A_px'] == cx['B_px']) if cx.symbolic else (abs(cx['A_px'] - cx['B_px']) < 1e-8 * abs(cx['A_px']))
        n = cx['A_nVregs']
        if self.kind == 'mirror':
            cx.eq(tag + 'u* -> -u*', cx['B_ux'], -cx['A_ux'], when=same)
            cx.eq(tag + 'star densities swap (left)', cx['B_rx1'], cx['A_rx2'], when=same)
            cx.eq(tag + 'star densities swap (right)', cx['B_rx2'], cx['A_rx1'], when=same)
            cx.eq(tag + 'star energies swap', cx['B_ex1'], cx['A_ex2'], when=same)
            for i in range(n):
                cx.eq(tag + 'V[%d] -> -V[%d]' % (i, n - 1 - i), cx['B_Vregs%d' % i], -cx['A_Vregs%d' % (n - 1 - i)], when=same)
        else:
            W = cx['W']
            cx.eq(tag + 'u* -> u* + W', cx['B_ux'], cx['A_ux'] + W, when=same)
            cx.eq(tag + 'left star density unchanged', cx['B_rx1'], cx['A_rx1'], when=same)
            cx.eq(tag + 'right star density unchanged', cx['B_rx2'], cx['A_rx2'], when=same)
            for i in range(n):
                cx.eq(tag + 'V[%d] -> V[%d] + W' % (i, i), cx['B_Vregs%d' % i], cx['A_Vregs%d' % i] + W, when=same)


COORDS = ('x', 'y', 'z')


def rot2(c, s_, v, plane=(0, 1)):
    """rotate vector v (list) in the coordinate plane `plane' by the angle with cosine c and sine s_"""
    w = list(v)
    i, j = plane
    w[i] = c * v[i] - s_ * v[j]
    w[j] = s_ * v[i] + c * v[j]
    return w


class BurnSym(Obligation):
    """burn time unchanged under a rigid motion of detonators + evaluation point"""

    def __init__(self, solver, geom, motion):
        self.solver, self.geom, self.motion = solver, geom, motion
        self.id = 'C09.%s.g%d.%s' % (solver, geom, motion)
        from symx import stubs
        if solver == 'dsd':
            self.m = H.mod('exactpack.solvers.dsd.cylexpansion')
            self.cls = self.m.CylindricalExpansion
        else:
            self.m = H.mod('exactpack.solvers.kenamond.' + solver)
            self.cls = getattr(self.m, solver.capitalize())
        self.modules = [self.m]
        self.extra_shim = {'ExactSolution': Recorder, 'min': stubs.sym_min, 'max': stubs.sym_max}
        self.functions = [self.cls.__init__, self.cls._run]
        self.bounds = 'all solver parameters, the evaluation point and the motion parameters (c, s with c^2+s^2=1; translation) symbolic'
        self.max_paths = 300
        self.timeout_s = 15
        self.timeout_thorough_s = 600
        self.skip_validation = True
        self.congruence = True
        self.congruence_budget_s = 30

    # --- the rigid motion applied to a vector
    def _move(self, mk, v, translate=True):
        g = self.geom
        mo = self.motion
        w = list(v)
        if mo.startswith('rot'):
            plane = {'rotxy': (0, 1), 'rotyz': (1, 2), 'rotxz': (0, 2)}[mo]
            w = rot2(mk('c'), mk('s'), w, plane)
        elif mo.startswith('refl'):
            ax = {'reflx': 0, 'refly': 1, 'reflz': 2}[mo]
            w[ax] = -w[ax]
        elif mo == 'translate':
            w = [w[i] + mk('tau' + COORDS[i]) for i in range(g)]
        return w

    def _solve(self, mk, moved):
        g = self.geom
        p = [mk(c) for c in COORDS[:g]]
        mv = (lambda v: self._move(mk, v)) if moved else (lambda v: list(v))
        if self.solver == 'kenamond1':
            d = [mk('d' + c) for c in COORDS[:g]]
            s = self.cls(geometry=g, D=mk('D'), x_d=tuple(mv(d)), t_d=mk('t_d'))
        elif self.solver == 'kenamond3':
            d = [mk('d' + c) for c in COORDS[:g]]
            s = self.cls(geometry=g, R=mk('R'), D=mk('D'), x_d=tuple(mv(d)), t_d=mk('t_d'))
        elif self.solver == 'kenamond2':
            s = self.cls(geometry=g, R=mk('R'), D1=mk('D1'), D2=mk('D2'),
                         dets=[mk('a1'), mk('a2'), mk('a4'), mk('a5')],
                         t_d=[mk('t1'), mk('t2'), mk('t3'), mk('t4'), mk('t5')])
        else:
            names = ['r_1', 'r_2', 'D_CJ_1', 'D_CJ_2', 'alpha_1', 'alpha_2', 't_d']
            s = self.cls(geometry=2, **{n: mk(n) for n in names})
        sol = s(H.mat([mv(p)]), 0.0)
        return H.first(H.fields(sol))['burntime']

    def build(self, mk):
        return {'bt': self._solve(mk, False), 'bt_moved': self._solve(mk, True)}

    def domain(self, V):
        d = []
        if self.motion.startswith('rot'):
            d.append(T.eq(T.add(T.mul(V('c'), V('c')), T.mul(V('s'), V('s'))), T.ONE))
        if self.solver == 'dsd':
            d += [T.gt(T.mul(V('r_1'), V('D_CJ_1')), V('alpha_1')), T.gt(T.mul(V('r_2'), V('D_CJ_2')), V('alpha_2'))]
        return d

    def claims(self, cx):
        cx.eq('burn time invariant under %s' % self.motion, cx['bt_moved'], cx['bt'])


class BurnLie(Obligation):
    """Infinitesimal form of a continuous symmetry (single run, exact derivatives): the generator of the rotation
    in the coordinate plane (i, j), applied jointly to the evaluation point and to the detonator, annihilates the
    burn time:  sum_v (v_i d/dv_j - v_j d/dv_i) bt = 0  for v in {point, detonator};  translations: sum_v d/dv_i bt = 0.
    Holds on every smooth piece iff the field is invariant under the connected group."""
    uses_derivatives = True

    def __init__(self, solver, geom, motion):
        self.solver, self.geom, self.motion = solver, geom, motion
        self.id = 'C09.%s.g%d.lie.%s' % (solver, geom, motion)
        if solver == 'dsd':
            self.m = H.mod('exactpack.solvers.dsd.cylexpansion')
            self.cls = self.m.CylindricalExpansion
        else:
            self.m = H.mod('exactpack.solvers.kenamond.' + solver)
            self.cls = getattr(self.m, solver.capitalize())
        self.modules = [self.m]
        self.extra_shim = {'ExactSolution': Recorder}
        self.functions = [self.cls.__init__, self.cls._run]
        self.bounds = 'all solver parameters and the evaluation point symbolic; one generator per obligation'
        self.max_paths = 300
        self.timeout_s = 20
        self.timeout_thorough_s = 600

    def build(self, mk):
        g = self.geom
        p = [mk(c) for c in COORDS[:g]]
        if self.solver == 'kenamond1':
            s = self.cls(geometry=g, D=mk('D'), x_d=tuple(mk('d' + c) for c in COORDS[:g]), t_d=mk('t_d'))
        elif self.solver == 'kenamond3':
            s = self.cls(geometry=g, R=mk('R'), D=mk('D'), x_d=tuple(mk('d' + c) for c in COORDS[:g]), t_d=mk('t_d'))
        elif self.solver == 'kenamond2':
            s = self.cls(geometry=g, R=mk('R'), D1=mk('D1'), D2=mk('D2'), dets=[mk('a1'), mk('a2'), mk('a4'), mk('a5')],
                         t_d=[mk('t1'), mk('t2'), mk('t3'), mk('t4'), mk('t5')])
        else:
            names = ['r_1', 'r_2', 'D_CJ_1', 'D_CJ_2', 'alpha_1', 'alpha_2', 't_d']
            s = self.cls(geometry=2, **{n: mk(n) for n in names})
        sol = s(H.mat([p]), 0.0)
        return {'bt': H.first(H.fields(sol))['burntime']}

    def domain(self, V):
        if self.solver == 'dsd':
            return [T.gt(T.mul(V('r_1'), V('D_CJ_1')), V('alpha_1')), T.gt(T.mul(V('r_2'), V('D_CJ_2')), V('alpha_2'))]
        return []

    def claims(self, cx):
        f = lambda c: c['bt']
        vecs = [COORDS[:self.geom]]
        if self.solver in ('kenamond1', 'kenamond3'):
            vecs.append(tuple('d' + c for c in COORDS[:self.geom]))
        if self.motion == 'translate':
            for i in range(self.geom):
                cx.zero('translation generator along %s annihilates bt' % COORDS[i], [cx.d(f, v[i]) for v in vecs], tol=1e-5)
            return
        i, j = {'rotxy': (0, 1), 'rotyz': (1, 2), 'rotxz': (0, 2)}[self.motion]
        add = []
        for v in vecs:
            add.append(cx.p(v[i]) * cx.d(f, v[j]))
            add.append(-cx.p(v[j]) * cx.d(f, v[i]))
        cx.zero('rotation generator (%s) annihilates bt' % self.motion, add, tol=1e-5)


def obligations(tier):
    obs = []
    pairs = R.GAMMA_PAIRS_QUICK if tier == 'quick' else R.GAMMA_PAIRS_FULL
    for gl, gr in pairs:
        obs.append(RiemannSym('mirror', gl, gr))
        obs.append(RiemannSym('boost', gl, gr))
    # general-EOS driver: mirrored problem on the same path (tables by the ODE contract, small tables)
    from . import geos
    obs += geos.obligations('C09', tier, patterns=('RCR',) if tier == 'quick' else ('RCR', 'RCS', 'SCR', 'SCS'), mirror=True)
    # ... and the Galilean boost of the general-EOS driver in the same two-run form (both velocities + w, points + w t)
    obs += [o for o in geos.obligations('C09', tier, patterns=('RCR', 'SCS') if tier == 'quick' else ('RCR', 'RCS', 'SCR', 'SCS'), boost=True)
            if 'ode_contract' not in o.id and (tier != 'quick' or '.RCR.00.' in o.id or '.SCS.11.' in o.id)]
    # ... and the explicit form of what the driver assembles on each side (same obligations as C04): every fan node and
    # wave position carries the state and the characteristic speed of ITS OWN side's table and gamma.  An output of that
    # form is mirror-covariant by inspection; a side treated with the other side's parameters is refuted here directly,
    # where the two-run form above runs out of paths before it finds a model.
    obs += [o for o in geos.obligations('C09', tier, patterns=('RCR',) if tier == 'quick' else ('RCR', 'RCS', 'SCR'))
            if 'ode_contract' not in o.id]
    # Kenamond 1: any rotation, reflection and translation; Kenamond 3 / DSD: rotations and reflections about the
    # origin (obstacle / tube centre); Kenamond 2: motions that fix the detonator axis (last coordinate)
    deep = (tier == 'thorough')
    for g in (2, 3):
        planes = ['rotxy'] if g == 2 else ['rotxy', 'rotyz', 'rotxz']
        refl = ['reflx', 'refly'] if g == 2 else ['reflx', 'refly', 'reflz']
        for mo in planes + refl + ['translate']:
            obs.append(BurnSym('kenamond1', g, mo))
        k3 = (planes + refl) if (deep or g == 2) else ['reflx']
        for mo in k3:
            obs.append(BurnSym('kenamond3', g, mo))
        k2 = ['reflx'] if g == 2 else (['rotxy', 'reflx', 'refly'] if deep else ['reflx'])
        for mo in k2:
            obs.append(BurnSym('kenamond2', g, mo))
    for mo in ('rotxy', 'reflx', 'refly'):
        obs.append(BurnSym('dsd', 2, mo))
    # infinitesimal generators (continuous symmetries), single-run
    for g in (2, 3):
        planes = ['rotxy'] if g == 2 else ['rotxy', 'rotyz', 'rotxz']
        for mo in planes + ['translate']:
            obs.append(BurnLie('kenamond1', g, mo))
        for mo in planes:
            obs.append(BurnLie('kenamond3', g, mo))
        if g == 3:
            obs.append(BurnLie('kenamond2', 3, 'rotxy'))
    obs.append(BurnLie('dsd', 2, 'rotxy'))
    return obs
