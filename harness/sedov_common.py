"""Shared symbolic runs of the Sedov solver (C01, C02, C03, C08, C10, C11, C17)."""
from fractions import Fraction
import numpy as np

from symx import terms as T
from symx import stubs
from symx.engine import SymReal, SymBool, term_of, current
from symx.framework import V
from . import common as H
from .common import K, Mode

SM = 'exactpack.solvers.sedov.sedov'


class QuadProxy(object):
    """stands in for scipy.integrate inside sedov.py: quad() returns a fresh symbol (the value of the
    integral is an uninterpreted quantity; the integrand is captured for C11)"""

    def __init__(self):
        self.calls = []

    def quad(self, f, a, b, **kw):
        ex = current()
        # the same integral (same integrand method, same limits as terms) requested again on this path (second
        # solver object with identical parameters) is the same number
        cache = ex.notes.setdefault('quadcache', {})
        key = (f.__name__, term_of(a), term_of(b), getattr(f.__self__, 'geometry', None), term_of(getattr(f.__self__, 'omega', 0)))
        if key in cache:
            return (cache[key], 0.0)
        v = ex.fresh('quad')
        cache[key] = v
        ex.note('quad', (f.__name__, a, b, v))
        return (v, 0.0)


def shim_extra(cut_at_jump=True):
    d = {'sci_int': QuadProxy(), 'print': H.quiet_print, 'max': stubs.sym_max, 'min': stubs.sym_min}
    if cut_at_jump:
        d['JumpCondition'] = stubs.cut_here
    return d


def make(mk, geom, gamma, omega=None, real_init=True):
    m = H.mod(SM)
    kw = dict(geometry=geom, gamma=K(mk, gamma), rho0=mk('rho0'), eblast=mk('eblast'),
              omega=mk('omega') if omega is None else K(mk, omega))
    return m.Sedov(**kw)


def jump_block(mk, geom, gamma, omega=None, tname='t'):
    """run the constructor and _run up to the JumpCondition call; returns the jump quantities"""
    s = make(mk, geom, gamma, omega)
    t = mk(tname)
    if Mode.symbolic(mk):
        try:
            s._run(H.arr([mk('r')]), t)
            raise RuntimeError('Sedov._run was not cut')
        except stubs.Cut:
            pass
    else:
        s(np.array([float(mk('r'))]), t)
    out = {k: getattr(s, k) for k in ('r2', 'rho1', 'us', 'u2', 'rho2', 'p2', 'alpha', 'xg2', 'gamm1', 'gamp1')}
    out['solution_type'] = s.solution_type
    out['special'] = s.special_singularity
    return out, s


def domain(V, geom, with_omega=True):
    d = [T.gt(V('rho0'), T.ZERO), T.gt(V('eblast'), T.ZERO), T.gt(V('t'), T.ZERO), T.gt(V('r'), T.ZERO)]
    if with_omega:
        d += [T.ge(V('omega'), T.ZERO), T.lt(V('omega'), T.const(geom))]
    return d
