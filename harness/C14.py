"""C14 -- heat solutions satisfy the heat equation, boundary conditions and initial data."""
import sys
import math
import random
import contextlib
from fractions import Fraction

import numpy as np
import z3

from symx import terms as T
from symx import smt
from symx import diff as D_
from symx import stubs          # noqa: F401  (registers the fsolve/bisect contract stubs with the shim)
from symx.framework import Obligation, V
from symx.engine import SymReal, SymBool, term_of, current
from symx.shim import Recorder
from . import common as H
from .common import K

EXPLANATION = ('The real heat solvers (constructors, mode tables and _run) are executed on symbolic diffusivities, lengths, '
               'boundary data, initial end temperatures, positions and times with small concrete truncation orders; single '
               'modes are isolated from the public call by differences in Nsum. z3 decides, on the returned terms: the '
               'diffusion equation from exact symbolic derivatives (sin/cos/exp/sinh/Bessel atoms closed under '
               'differentiation); the declared boundary operator on the static part (inhomogeneous) and on every mode '
               '(homogeneous) after substituting the boundary position and replacing sin/cos whose argument z3 proves to be '
               'a rational multiple of pi by their exact values; the coded mode numbers and Fourier coefficients against '
               'projection integrals written in the harness (this replaces the t->0+ limit); decay of every exponential and '
               'the steady remainder (t->infinity); and the r->0 limit of the r!=0 branch of Hutchens 1 (exact series '
               'expansion in r) against the value returned at r==0.')
BOUNDS = ['truncation orders are small and concrete: rod BC1-BC4 and sandwiches Nsum=4 (quick) / 9 (thorough); general Robin rod '
          'Nsum=3 / 5; Hutchens 1 modes n=1..3 / 1..7; Hutchens 2 Nsum=2 / 3; rectangle Nsum=3 / 5; cylindrical sandwich '
          'Nsum=Msum=1 (thorough tier only)',
          'boundary-condition types BC1-BC4, the two general (Robin) branches (alpha1 != 0; alpha1 == 0), each with general and with '
          'homogeneous data, and the three planar sandwich classes are enumerated; all real parameters, x and t are symbolic',
          'general Robin rod: physical sign convention alpha1, alpha2 > 0, beta1 < 0 < beta2 (the tested configuration)',
          'one evaluation point per run (boundary points, t=0 and antinodes are reached by exact substitution in the terms)']
OUTSIDE = ['convergence of the infinite series to the initial profile (t->0+) and to boundary values that are only met in the '
           'limit (Hutchens 2 at r=b, rectangle at y=b): replaced by the coefficient-equals-projection claims',
           '"truncation order large enough for the requested accuracy" (no accuracy claim is made)',
           'which root of the transcendental eigenvalue equation fsolve/newton returns (any positive root is admitted), hence '
           'completeness of the mode set of the general Robin rod and of the cylindrical sandwich; completeness of the '
           'Hutchens 2 mode set (only odd axial modes are coded)',
           'the quadrature and the normalisation integral of the cylindrical sandwich (the quadrature value is a free symbol), '
           'hence its initial condition']
ASSUMPTIONS = ['exact values of sin and cos at rational multiples of pi with denominator 1, 2, 3, 4 or 6 (used only after z3 has '
               'proved that the argument equals that multiple of pi under the domain)',
               'tan(u) cos(u) = sin(u), sin^2+cos^2 = 1, sin(2u) = 2 sin(u) cos(u), cos(2u) = cos(u)^2 - sin(u)^2 and congruence '
               '(equal arguments give equal values) for the sin/cos atoms of one eigenvalue root (general Robin rod)',
               'Taylor expansion of sin, cos, exp about a point (Hutchens 1 r->0 limits)',
               'Bessel functions: I0\' = I1, I1\' = I0 - I1/x, I0(0) = 1, I1(0) = 0; J0\' = -J1, J1\' = J0 - J1/x (same for Y); '
               'J_{k+1}(x) = (2k/x) J_k(x) - J_{k-1}(x) (same for Y) used to express jn/yn of integer order by j0, j1, y0, y1',
               'fsolve/newton stubs: the returned value is an arbitrary zero of the real residual function; for the decay claim '
               'of the general Robin rod the returned roots are assumed positive',
               'a value obtained by substituting an input in the term of a code path is claimed only under the substituted path '
               'condition']
META = {
    'level_text': ('Bounded symbolic check of the real heat solvers: diffusivity, lengths/radii, boundary values and fluxes, initial '
                   'end temperatures, position and time are symbolic reals; boundary-condition types, solver classes and mode '
                   'numbers below a small truncation order are enumerated; z3 proves the diffusion equation, the declared boundary '
                   'operators, coefficient = projection of the declared initial/boundary data, modal decay and the steady remainder. '
                   'Not a proof: floats as reals; transcendental functions as atoms; series convergence outside the claim.'),
    'level_note': ('Trusted: z3; symx proxies/shims/differentiation (validated per path against the unshimmed code); the heat '
                   'equation in the three coordinate systems, the projection integrals, the table of exact trigonometric values and '
                   'the series-expansion helper written in harness/C14.py.'),
}

RM = 'exactpack.solvers.heat.rod1d'
PSM = 'exactpack.solvers.heat.planar_sandwich'
PHM = 'exactpack.solvers.heat.planar_sandwich_half'
PTM = 'exactpack.solvers.heat.planar_sandwich_hot'
H1M = 'exactpack.solvers.heat.hutchens1'
H2M = 'exactpack.solvers.heat.hutchens2'
REM = 'exactpack.solvers.heat.rectangle'
CYM = 'exactpack.solvers.heat.cylindrical_sandwich'


# =============================================================================== helpers

def S(t):
    return SymReal(t)


class Guarded(object):
    """Claim context wrapper.  Values obtained by substituting an input (boundary position, t = 0, ...) in the term of a
    path are only meaningful if the substituted point lies in that path: the substituted path condition is added as a
    precondition (`when') to the claims made from such values (until the next substitution after a claim)."""

    def __init__(self, cx):
        self._cx = cx
        self._g = []
        self._claimed = False

    def __getattr__(self, name):
        return getattr(self._cx, name)

    def __getitem__(self, k):
        return self._cx[k]

    def __contains__(self, k):
        return k in self._cx

    def note_subst(self, m):
        """m: {var Term: Term}"""
        if self._claimed:
            self._g, self._claimed = [], False
        path = getattr(self._cx, 'path', None)
        if path is None:
            return
        names = {k.args[0] for k in m}
        for c in path.pc:
            if names & set(T.free_vars(c)):
                self._g.append(T.substitute(c, m))

    def note_limit(self, name):
        """a one-sided limit name -> 0 taken inside the path: conjuncts other than `name != 0' must hold at 0"""
        path = getattr(self._cx, 'path', None)
        if path is None:
            return
        if self._claimed:
            self._g, self._claimed = [], False
        v = T.var(name)
        for c in path.pc:
            if name in T.free_vars(c):
                if c.op == 'not' and c.args[0].op == 'eq' and v in c.args[0].args and T.ZERO in c.args[0].args:
                    continue
                self._g.append(T.substitute(c, {v: T.ZERO}))

    def pc_mentions(self, name):
        path = getattr(self._cx, 'path', None)
        return path is not None and any(name in T.free_vars(c) for c in path.pc)

    def _w(self, when):
        self._claimed = True
        if not self._cx.symbolic:
            return when
        g = T.land(*self._g) if self._g else T.TRUE
        if g is T.TRUE:
            return when
        return SymBool(g) if when is None else (SymBool(g) & when)

    def eq(self, label, a, b, when=None, **k):
        self._cx.eq(label, a, b, when=self._w(when), **k)

    def zero(self, label, addends, when=None, **k):
        self._cx.zero(label, addends, when=self._w(when), **k)

    def ge(self, label, a, b, when=None, **k):
        self._cx.ge(label, a, b, when=self._w(when), **k)

    def gt(self, label, a, b, when=None, **k):
        self._cx.gt(label, a, b, when=self._w(when), **k)

    def le(self, label, a, b, when=None, **k):
        self._cx.le(label, a, b, when=self._w(when), **k)

    def lt(self, label, a, b, when=None, **k):
        self._cx.lt(label, a, b, when=self._w(when), **k)

    def true(self, label, cond, when=None):
        self._cx.true(label, cond, when=self._w(when))


def at(cx, f, **where):
    """value of f(ctx) with the named inputs replaced (symbolic: exact substitution in the term;
    numeric: re-evaluation of the real code at the changed inputs)"""
    if cx.symbolic:
        v = f(cx)
        m = {T.var(k): term_of(val) for k, val in where.items()}
        cx.note_subst(m)
        return S(T.substitute(term_of(v), m))
    return f(cx.at(**{k: float(val) for k, val in where.items()}))


# ---- exact trigonometric values at rational multiples of pi

_SQ12 = T.pw(T.const(Fraction(1, 2)), T.HALF)       # sqrt(2)/2
_SQ34 = T.pw(T.const(Fraction(3, 4)), T.HALF)       # sqrt(3)/2
_HALF = T.const(Fraction(1, 2))


def _sin_table(p, q):
    """exact sin(p*pi/q) as a Term, q in {1,2,3,4,6}"""
    n = 12
    k = (p * (n // q)) % (2 * n)        # angle = k * pi/12, k multiple of 2, 3, 4, 6 or 12
    tab = {0: T.ZERO, 2: _HALF, 3: _SQ12, 4: _SQ34, 6: T.ONE, 8: _SQ34, 9: _SQ12, 10: _HALF, 12: T.ZERO}
    if k <= 12:
        return tab[k]
    return T.neg(tab[k - 12])


def trig_value(name, fr):
    p, q = fr.numerator, fr.denominator
    if q not in (1, 2, 3, 4, 6):
        return None
    if name == 'sin':
        return _sin_table(p, q)
    # cos(a) = sin(a + pi/2)
    fr2 = fr + Fraction(1, 2)
    return _sin_table(fr2.numerator, fr2.denominator) if fr2.denominator in (1, 2, 3, 4, 6) else None


class TrigSimplifier(object):
    """Replaces sin(u)/cos(u) by exact values when z3 proves, under the given assumptions, that u equals a
    rational multiple of pi from the table (u is first guessed numerically at random points)."""

    def __init__(self, assumptions):
        self.assumptions = list(assumptions)
        self.cache = {}
        self.rng = random.Random(4242)
        self.proved = []

    def _guess(self, u):
        names = T.free_vars(u)
        vals = []
        for _ in range(3):
            env = {n: self.rng.uniform(1.1, 2.9) for n in names}
            env['PI'] = math.pi
            try:
                vals.append(T.evalf(u, env) / math.pi)
            except Exception:
                return None
        if max(vals) - min(vals) > 1e-9:
            return None
        fr = Fraction(vals[0]).limit_denominator(12)
        if abs(float(fr) - vals[0]) > 1e-9:
            return None
        return fr

    def _prove(self, u, fr):
        enc = smt.Encoder(self.assumptions)
        claim = T.eq(u, T.mul(T.const(fr), T.var('PI')))
        zs = [enc.tr(a) for a in self.assumptions] + [enc.defined(a) for a in self.assumptions]
        zs += [enc.defined(claim), z3.Not(enc.tr(claim))]
        v = smt.solve(enc, zs, 5, label='C14:trig-arg', want_model=False)
        return v.status == 'unsat'

    def value(self, node):
        name, u = node.args[0], node.args[1]
        if node in self.cache:
            return self.cache[node]
        out = None
        if u.op != 'const':
            fr = self._guess(u)
            if fr is not None:
                val = trig_value(name, fr)
                if val is not None and self._prove(u, fr):
                    out = val
                    self.proved.append('%s(%s) at %s*pi' % (name, T.show(u, 60), fr))
        self.cache[node] = out
        return out

    def __call__(self, v):
        if not isinstance(v, SymReal):
            return v
        t = v.t
        m = {}
        for n in T.postorder(t):
            if n.op == 'fn' and n.args[0] in ('sin', 'cos') and len(n.args) == 2:
                val = self.value(n)
                if val is not None:
                    m[n] = val
        if not m:
            return v
        return S(T.substitute(t, m))


def atoms_of(values, names=('sin', 'cos', 'tan')):
    out = []
    seen = set()
    for v in values:
        if not isinstance(v, SymReal):
            continue
        for n in T.postorder(v.t):
            if n.op == 'fn' and n.args[0] in names and n.id not in seen:
                seen.add(n.id)
                out.append(n)
    return out


@contextlib.contextmanager
def patched(module, name, wrap):
    """temporarily replace module.<name> by wrap(current value) (works under the shim and on the real code)"""
    g = module.__dict__
    old = g[name]
    g[name] = wrap(old)
    try:
        yield
    finally:
        g[name] = old


def pos(*names):
    return [T.gt(V(n), T.ZERO) for n in names]


def nonzero(*names):
    return [T.ne(V(n), T.ZERO) for n in names]


# ---- truncated Laurent/Taylor series in one variable about 0 (for limits at a coordinate singularity)

SER_K = 4


class Series(object):
    """var**v * (c[0] + c[1] var + ... + c[K-1] var**(K-1) + O(var**K)); c[i] are Terms free of var"""

    def __init__(self, v, c, n=None):
        n = SER_K if n is None else n
        c = list(c) + [T.ZERO] * (SER_K - len(c))
        c = c[:SER_K]
        while c[0] is T.ZERO and any(x is not T.ZERO for x in c):
            c = c[1:] + [T.ZERO]
            v += 1
            n -= 1          # the appended coefficient is unknown, not zero
        if all(x is T.ZERO for x in c):
            v = 0
        self.v, self.c, self.n = v, c, n      # n: number of leading coefficients that are exact

    def is_zero(self):
        return all(x is T.ZERO for x in self.c)


def _s_add(a, b, sign=1):
    if a.is_zero():
        return b if sign == 1 else Series(b.v, [T.neg(x) for x in b.c], b.n)
    if b.is_zero():
        return a
    v = min(a.v, b.v)
    n = min(a.v + a.n, b.v + b.n) - v
    out = []
    for i in range(SER_K):
        x = a.c[i - (a.v - v)] if 0 <= i - (a.v - v) < SER_K else T.ZERO
        y = b.c[i - (b.v - v)] if 0 <= i - (b.v - v) < SER_K else T.ZERO
        out.append(T.add(x, y) if sign == 1 else T.sub(x, y))
    return Series(v, out, min(n, SER_K))


def _s_mul(a, b):
    out = []
    for k in range(SER_K):
        acc = T.ZERO
        for i in range(k + 1):
            acc = T.add(acc, T.mul(a.c[i], b.c[k - i]))
        out.append(acc)
    if a.is_zero() or b.is_zero():
        return _s_const(T.ZERO)
    return Series(a.v + b.v, out, min(a.n, b.n))


def _s_div(a, b):
    if b.is_zero():
        raise T.NotEncodable('series: division by a structurally zero series')
    b0 = b.c[0]
    q = []
    for k in range(SER_K):
        acc = a.c[k]
        for i in range(1, k + 1):
            acc = T.sub(acc, T.mul(b.c[i], q[k - i]))
        q.append(T.div(acc, b0))
    if a.is_zero():
        return _s_const(T.ZERO)
    return Series(a.v - b.v, q, min(a.n, b.n))


def _s_const(t):
    return Series(0, [t])


def series(term, var):
    """Series of `term' in the variable named var about 0.  Leading coefficients of denominators are assumed
    non-zero (they are definedness conditions of the original term away from var = 0)."""
    dep = {}
    ser = {}
    for n in T.postorder(term):
        ch = T.children(n)
        d = (n.op == 'var' and n.args[0] == var) or any(dep[c] for c in ch)
        dep[n] = d
        if not d:
            ser[n] = _s_const(n)
            continue
        op = n.op
        if op == 'var':
            ser[n] = Series(1, [T.ONE])
        elif op == 'add':
            ser[n] = _s_add(ser[n.args[0]], ser[n.args[1]])
        elif op == 'sub':
            ser[n] = _s_add(ser[n.args[0]], ser[n.args[1]], -1)
        elif op == 'neg':
            a = ser[n.args[0]]
            ser[n] = Series(a.v, [T.neg(x) for x in a.c], a.n)
        elif op == 'mul':
            ser[n] = _s_mul(ser[n.args[0]], ser[n.args[1]])
        elif op == 'div':
            ser[n] = _s_div(ser[n.args[0]], ser[n.args[1]])
        elif op == 'pow' and n.args[1].op == 'const' and n.args[1].args[0].denominator == 1 and not dep[n.args[1]]:
            e = int(n.args[1].args[0])
            base = ser[n.args[0]]
            r = _s_const(T.ONE)
            for _ in range(abs(e)):
                r = _s_mul(r, base)
            ser[n] = r if e >= 0 else _s_div(_s_const(T.ONE), r)
        elif op == 'fn' and n.args[0] in ('sin', 'cos', 'exp') and len(n.args) == 2:
            u = ser[n.args[1]]
            if u.v < 0:
                raise T.NotEncodable('series: essential singularity in %s' % n.args[0])
            u0 = u.c[0] if u.v == 0 else T.ZERO
            delta = Series(u.v, u.c, u.n) if u.v > 0 else Series(1, u.c[1:], u.n - 1)
            name = n.args[0]
            if name == 'exp':
                ders = [T.func('exp', u0)] * SER_K
            else:
                s_, c_ = T.func('sin', u0), T.func('cos', u0)
                cyc = [s_, c_, T.neg(s_), T.neg(c_)] if name == 'sin' else [c_, T.neg(s_), T.neg(c_), s_]
                ders = [cyc[j % 4] for j in range(SER_K)]
            acc = _s_const(ders[0])
            pw = _s_const(T.ONE)
            fact = 1
            for j in range(1, SER_K):
                pw = _s_mul(pw, delta)
                fact *= j
                acc = _s_add(acc, _s_mul(_s_const(T.div(ders[j], T.const(fact))), pw))
            # Taylor sum truncated after delta**(K-1): exact below order K*val(delta)
            ser[n] = Series(acc.v, acc.c, min(acc.n, max(0, SER_K * max(delta.v, 1) - acc.v)))
        else:
            raise T.NotEncodable('series of %s' % (n.args[0] if op == 'fn' else op))
    return ser[term]


def limit0(value, var):
    """(coefficients of the negative powers, limit) of value as var -> 0"""
    s = series(term_of(value), var)
    poles = []
    v = s.v
    c = list(s.c)
    used = 0
    while v < 0 and c:
        poles.append(S(c.pop(0)))
        v += 1
        used += 1
    if v > 0 or not c:
        return poles, S(T.ZERO)
    if used + 1 > s.n:
        raise T.NotEncodable('series: precision exhausted before order 0')
    return poles, S(c[0])

# =============================================================================== generic t -> infinity limit

def proves(assumptions, claim, timeout=5):
    """z3 proves claim (a bool Term) from the assumptions (bool Terms)"""
    enc = smt.Encoder(assumptions)
    zs = [enc.tr(a) for a in assumptions] + [enc.defined(a) for a in assumptions]
    zs += [enc.defined(claim), z3.Not(enc.tr(claim))]
    return smt.solve(enc, zs, timeout, label='C14:aux', want_model=False).status == 'unsat'


def steady_parts(value, assumptions, tvar='t'):
    """symbolic: ([(exp atom, d exponent/dt, d2 exponent/dt2)], value with every decaying exp atom set to 0).
    An exponential whose exponent z3 proves to be independent of t is replaced by its value at t = 0."""
    t = term_of(value)
    rates = []
    m = {}
    for n in T.postorder(t):
        if n.op == 'fn' and n.args[0] == 'exp' and tvar in T.free_vars(n.args[1]):
            r1 = D_.d(n.args[1], tvar)
            if proves(assumptions, T.eq(r1, T.ZERO)):
                m[n] = T.substitute(n, {T.var(tvar): T.ZERO})
                continue
            rates.append((n, S(r1), S(D_.d(r1, tvar))))
            m[n] = T.ZERO
    lim = T.substitute(t, m) if m else t
    return rates, S(lim)


DECAY = 'every time-dependent exponential factor decays: d(exponent)/dt < 0'


def decay_claims(cx, value, assumptions, tvar='t', when=None):
    """symbolic: every exponential factor that depends on t is exp(-c t) with c > 0; returns the t -> infinity limit"""
    rates, lim = steady_parts(value, assumptions, tvar)
    if cx.pc_mentions(tvar):
        cx.true('the code path does not depend on t (needed to take t -> infinity on it)', False)
    if rates:
        cx.true(DECAY, SymBool(T.land(*[T.lt(term_of(r1), T.ZERO) for _, r1, _ in rates])), when=when)
    for i, (atom, r1, r2) in enumerate(rates):
        cx.eq('exp factor %d: exponent linear in t' % i, r2, 0)
    if tvar in T.free_vars(lim.t):
        cx.true('t -> infinity limit exists (no time dependence left besides decaying exponentials)', False)
    return lim


def decay_numeric(cx, key, tb):
    """numeric twin of DECAY: the value has settled (finite, unchanged between tb and 2 tb)"""
    a, b = float(cx.at(t=tb)[key]), float(cx.at(t=2 * tb)[key])
    ok = math.isfinite(a) and math.isfinite(b) and abs(a - b) <= 1e-6 * max(abs(a), abs(b), 1e-300)
    cx.true(DECAY, ok)
    return cx.at(t=tb)[key]


def generalise(values, mapping):
    """mapping: [(SymReal, variable name)]; replace the given sub-terms by fresh variables (a claim proved for arbitrary values of the sub-terms holds
    for the actual ones; a witness is replayed on the real code anyway)"""
    m = {term_of(k): T.var(name) for k, name in mapping if isinstance(k, SymReal) and term_of(k).op not in ('const', 'var')}
    return [S(T.substitute(term_of(v), m)) if isinstance(v, SymReal) else v for v in values]


def dsym(v, var, order=1):
    t = term_of(v)
    for _ in range(order):
        t = D_.d(t, var)
    return S(t)


def subs(cx, v, **where):
    m = {T.var(k): term_of(x) for k, x in where.items()}
    cx.note_subst(m)
    return S(T.substitute(term_of(v), m))


# =============================================================================== the 1-D rod family

# kind: which branch of Rod1D is meant; kw: constructor keywords (input name or constant);
# bc: the declared boundary operator alpha1 T + beta1 T_x = gamma1 at x=0, alpha2 T + beta2 T_x = gamma2 at x=L
ROD = {
    'rod.BC1': dict(mod=RM, cls='Rod1D', kind='BC1',
                    kw=dict(alpha1='alpha1', beta1=0.0, gamma1='gamma1', alpha2='alpha2', beta2=0.0, gamma2='gamma2'),
                    bc=('alpha1', 0, 'gamma1', 'alpha2', 0, 'gamma2')),
    'rod.BC2': dict(mod=RM, cls='Rod1D', kind='BC2',
                    kw=dict(alpha1=0.0, beta1='beta1', gamma1='gamma1', alpha2=0.0, beta2='beta2', gamma2='gamma2'),
                    bc=(0, 'beta1', 'gamma1', 0, 'beta2', 'gamma2')),
    'rod.BC3': dict(mod=RM, cls='Rod1D', kind='BC3',
                    kw=dict(alpha1='alpha1', beta1=0.0, gamma1='gamma1', alpha2=0.0, beta2='beta2', gamma2='gamma2'),
                    bc=('alpha1', 0, 'gamma1', 0, 'beta2', 'gamma2')),
    'rod.BC4': dict(mod=RM, cls='Rod1D', kind='BC4',
                    kw=dict(alpha1=0.0, beta1='beta1', gamma1='gamma1', alpha2='alpha2', beta2=0.0, gamma2='gamma2'),
                    bc=(0, 'beta1', 'gamma1', 'alpha2', 0, 'gamma2')),
    'rod.robinA': dict(mod=RM, cls='Rod1D', kind='robinA',
                       kw=dict(alpha1='alpha1', beta1='beta1', gamma1='gamma1', alpha2='alpha2', beta2='beta2', gamma2='gamma2'),
                       bc=('alpha1', 'beta1', 'gamma1', 'alpha2', 'beta2', 'gamma2')),
    'rod.robinB': dict(mod=RM, cls='Rod1D', kind='robinB',
                       kw=dict(alpha1=0.0, beta1='beta1', gamma1='gamma1', alpha2='alpha2', beta2='beta2', gamma2='gamma2'),
                       bc=(0, 'beta1', 'gamma1', 'alpha2', 'beta2', 'gamma2')),
    'rod.robinA.hom': dict(mod=RM, cls='Rod1D', kind='robinA',
                           kw=dict(alpha1='alpha1', beta1='beta1', gamma1=0.0, alpha2='alpha2', beta2='beta2', gamma2=0.0),
                           bc=('alpha1', 'beta1', 0, 'alpha2', 'beta2', 0)),
    'rod.robinB.hom': dict(mod=RM, cls='Rod1D', kind='robinB',
                           kw=dict(alpha1=0.0, beta1='beta1', gamma1=0.0, alpha2='alpha2', beta2='beta2', gamma2=0.0),
                           bc=(0, 'beta1', 0, 'alpha2', 'beta2', 0)),
    'sandwich.planar': dict(mod=PSM, cls='PlanarSandwich', kind='BC1', kw=dict(TB='TB', TT='TT'),
                            bc=(1, 0, 'TB', 1, 0, 'TT')),
    'sandwich.half': dict(mod=PHM, cls='PlanarSandwichHalf', kind='BC3', kw=dict(TB='TB', FT='FT'),
                          bc=(1, 0, 'TB', 0, 1, 'FT')),
    'sandwich.hot': dict(mod=PTM, cls='PlanarSandwichHot', kind='BC2', kw=dict(F='F'),
                         bc=(0, 1, 'F', 0, 1, 'F')),
}


class RodBase(Obligation):
    uses_derivatives = True
    validate_negated = True
    timeout_s = 40
    timeout_thorough_s = 300
    deriv_tol = 1e-4

    def setup(self, cfg, nsum):
        self.cfg = cfg
        self.nsum = nsum
        self.c = ROD[cfg]
        self.rm = H.mod(RM)
        self.m = H.mod(self.c['mod'])
        self.cls = getattr(self.m, self.c['cls'])
        self.modules = [self.rm] if self.m is self.rm else [self.rm, self.m]
        self.extra_shim = {'ExactSolution': Recorder, 'print': H.quiet_print}
        self.kind = self.c['kind']
        self.robin = self.kind.startswith('robin')
        self.max_paths = 40
        self.skip_validation = self.robin
        R = self.rm.Rod1D
        f = {'BC1': R.modes_BC1, 'BC2': R.modes_BC2, 'BC3': R.modes_BC3, 'BC4': R.modes_BC4,
             'robinA': R.modes_BCgen, 'robinB': R.modes_BCgen}[self.kind]
        self.functions = [R.__init__, f, R._run] + ([self.cls.__init__] if self.cls is not R else [])
        self.params = 'kappa, L, TL, TR, ' + ', '.join(sorted({v for v in self.c['kw'].values() if isinstance(v, str)}))
        if self.robin:
            self.params += ' (alpha>0, beta1<0<beta2)'

    # modes that carry a coefficient (robinA skips n = 0)
    def modes(self):
        return [n for n in range(self.nsum) if not (self.kind == 'robinA' and n == 0)]

    def build(self, mk):
        """one real solver object (Nsum = self.nsum); partial sums T_j = the public call with Nsum lowered to j
        (j = 0: static part only), at (x, t)"""
        kw = {}
        for k, v in self.c['kw'].items():
            kw[k] = mk(v) if isinstance(v, str) else v
        kw.update(kappa=mk('kappa'), L=mk('L'), TL=mk('TL'), TR=mk('TR'), Nsum=self.nsum)
        mus = []

        def wrap(fs):
            def f(func, x0, *a, **k):
                r = fs(func, x0, *a, **k)
                mus.append(r[0])
                return r
            return f
        with patched(self.rm, 'fsolve', wrap):
            s = self.cls(**kw)
        out = {}
        x, t = mk('x'), mk('t')
        for j in range(self.nsum + 1):
            s.Nsum = j
            out['T%d' % j] = H.first(H.fields(s(H.arr([x]), t)))['temperature']
        s.Nsum = 0
        out['S0'] = H.first(H.fields(s(H.arr([K(mk, 0)]), t)))['temperature']
        out['SL'] = H.first(H.fields(s(H.arr([mk('L')]), t)))['temperature']
        s.Nsum = self.nsum
        for n in range(self.nsum):
            out['kn%d' % n] = s.kn[n]
            out['An%d' % n] = s.An[n]
            out['Bn%d' % n] = s.Bn[n]
        for n, mu in zip(self.modes(), mus):
            out['mu%d' % n] = mu
        for nm in ('kappa', 'L', 'TL', 'TR', 'x', 't'):
            out['_' + nm] = mk(nm)
        return out

    def bcop(self, cx):
        return [cx.p(v) if isinstance(v, str) else v for v in self.c['bc']]

    def domain(self, V):
        d = pos('kappa', 'L', 't') + [T.gt(V('x'), T.ZERO), T.lt(V('x'), V('L'))]
        for v in self.c['bc']:
            if isinstance(v, str) and (v.startswith('alpha') or v.startswith('beta')):
                if self.robin:
                    # general case: the physical (dissipative) sign convention alpha >= 0, beta1 < 0 < beta2
                    d.append(T.lt(V(v), T.ZERO) if v == 'beta1' else T.gt(V(v), T.ZERO))
                else:
                    d.append(T.ne(V(v), T.ZERO))
        return d

    def mode(self, n):
        return lambda c: c['T%d' % (n + 1)] - c['T%d' % n]

    def mus_positive(self, cx):
        """assumption on the root finder (general case): the returned eigenvalue roots are positive"""
        if not (cx.symbolic and self.robin):
            return None
        return SymBool(T.land(*[T.gt(term_of(cx['mu%d' % n]), T.ZERO) for n in self.modes()]))

    def tbig(self, cx):
        return 400.0 * cx.p('L') ** 2 / cx.p('kappa')

    # trusted trigonometric facts for the general (Robin) case, as an assumption of the claim
    def robin_facts(self, cx, values, n):
        """facts about the eigenvalue root mu_n of mode n only"""
        if not cx.symbolic or not self.robin:
            return None
        mus = [term_of(cx['mu%d' % n])]
        facts = []
        for a in atoms_of(values, ('sin', 'cos')):
            name, u = a.args[0], a.args[1]
            su, cu = T.func('sin', u), T.func('cos', u)
            for mu in mus:
                if u is mu:
                    continue
                sm, cm = T.func('sin', mu), T.func('cos', mu)
                # congruence and double angle
                facts.append(T.implies(T.eq(u, mu), T.land(T.eq(su, sm), T.eq(cu, cm))))
                two = T.mul(T.TWO, mu)
                facts.append(T.implies(T.eq(u, two), T.land(T.eq(su, T.mul(T.TWO, T.mul(sm, cm))),
                                                            T.eq(cu, T.sub(T.mul(cm, cm), T.mul(sm, sm))))))
        for mu in mus:
            facts.append(T.eq(T.mul(T.func('tan', mu), T.func('cos', mu)), T.func('sin', mu)))
            facts.append(T.eq(T.add(T.mul(T.func('sin', mu), T.func('sin', mu)), T.mul(T.func('cos', mu), T.func('cos', mu))), T.ONE))
        return SymBool(T.land(*facts)) if facts else None


class RodPDE(RodBase):
    def __init__(self, cfg, nsum):
        self.setup(cfg, nsum)
        self.id = 'C14.pde.%s' % cfg
        self.bounds = 'Nsum=%d (all modes n<%d summed); %s, x, t symbolic' % (nsum, nsum, self.params)

    def claims(self, cx):
        cx = Guarded(cx)
        f = lambda c: c['T%d' % self.nsum]
        cx.zero('T_t = kappa T_xx', [cx.d(f, 't'), -cx['_kappa'] * cx.d(f, 'x', 2)], tol=1e-3)


class RodBC(RodBase):
    """static part (Nsum=0) meets the declared inhomogeneous operator; every mode meets the homogeneous one"""

    def __init__(self, cfg, nsum, side):
        self.setup(cfg, nsum)
        self.side = side
        self.id = 'C14.bc.%s.%s' % (cfg, side)
        self.bounds = 'modes n<%d one by one and the static part; %s, t symbolic; boundary position substituted exactly' % (nsum, self.params)

    def claims(self, cx):
        cx = Guarded(cx)
        op = self.bcop(cx)
        a, b, g = op[:3] if self.side == 'x0' else op[3:]
        xb = 0 if self.side == 'x0' else cx.p('L')
        where = 'x=0' if self.side == 'x0' else 'x=L'
        ts = TrigSimplifier(self.domain(V)) if cx.symbolic else (lambda v: v)
        fS = lambda c: c['T0']
        Sv = at(cx, fS, x=xb)
        Sx = at(cx, lambda c: c.d(fS, 'x'), x=xb)
        cx.eq('static part: alpha T + beta T_x = gamma at %s' % where, a * Sv + b * Sx, g)
        for n in self.modes():
            f = self.mode(n)
            Mv = ts(at(cx, f, x=xb))
            Mx = ts(at(cx, lambda c: c.d(f, 'x'), x=xb))
            w = self.robin_facts(cx, [Mv, Mx], n)
            if cx.symbolic and self.robin:
                # the amplitude is a common factor: prove the claim for an arbitrary amplitude
                amp = cx['An%d' % n] if self.kind == 'robinB' else cx['Bn%d' % n]
                Mv, Mx = generalise([Mv, Mx], [(amp, 'amp#%d' % n)])
            amp_sc = 1e-9 * (abs(cx['An%d' % n]) + abs(cx['Bn%d' % n])) if not cx.symbolic else None
            cx.eq('mode %d: alpha T + beta T_x = 0 at %s' % (n, where), a * Mv + b * Mx, 0, when=w,
                  scale=None if cx.symbolic else [a * Mv, b * Mx, amp_sc])
            # the same at t = 0 (implied for a separable mode; a witness there is not masked by the decay)
            if cx.symbolic:
                Mv0, Mx0 = subs(cx, Mv, t=0), subs(cx, Mx, t=0)
            else:
                Mv0 = at(cx, f, x=xb, t=0)
                Mx0 = at(cx, lambda c: c.d(f, 'x'), x=xb, t=0)
            cx.eq('mode %d at t=0: alpha T + beta T_x = 0 at %s' % (n, where), a * Mv0 + b * Mx0, 0, when=w,
                  scale=None if cx.symbolic else [a * Mv0, b * Mx0, amp_sc])


class RodCoeff(RodBase):
    """mode numbers and Fourier coefficients = projection of (declared initial profile - static part) on the mode"""

    def __init__(self, cfg, nsum):
        self.setup(cfg, nsum)
        self.id = 'C14.coeff.%s' % cfg
        self.bounds = 'modes n<%d; %s symbolic' % (nsum, self.params)

    def claims(self, cx):
        cx = Guarded(cx)
        L, TL, TR = cx['_L'], cx['_TL'], cx['_TR']
        pi = cx.const('PI')
        a = TL - cx['S0']                 # f(x) = initial profile - static part = a + b x
        b = ((TR - cx['SL']) - a) / L
        kind = self.kind
        for n in self.modes():
            k, An, Bn = cx['kn%d' % n], cx['An%d' % n], cx['Bn%d' % n]
            tag = 'mode %d: ' % n
            # assembly at t = 0: the mode added by _run is An cos(kn x) + Bn sin(kn x)
            x = cx['_x']
            M0 = at(cx, self.mode(n), t=0)
            cx.eq(tag + 'term added at t=0 is An cos(kn x) + Bn sin(kn x)', M0,
                  An * cx.fn('cos', k * x) + Bn * cx.fn('sin', k * x))
            if kind in ('BC1', 'BC2'):
                cx.eq(tag + 'kn L = n pi', k * L, n * pi)
                sgn = (-1) ** n
                if kind == 'BC1':
                    cx.eq(tag + 'An = 0', An, 0)
                    if n == 0:
                        cx.eq(tag + 'Bn = 0 (null mode)', Bn, 0)
                    else:
                        cx.eq(tag + 'Bn = projection on sin(kn x)', Bn * L / 2, (a - sgn * (a + b * L)) / k)
                else:
                    cx.eq(tag + 'Bn = 0', Bn, 0)
                    if n == 0:
                        cx.eq(tag + 'A0 = mean of the shifted initial profile', An * L, a * L + b * L * L / 2)
                    else:
                        cx.eq(tag + 'An = projection on cos(kn x)', An * L / 2, b * (sgn - 1) / (k * k))
            elif kind in ('BC3', 'BC4'):
                cx.eq(tag + 'kn L = (2n+1) pi/2', k * L, (2 * n + 1) * pi / 2)
                sgn = (-1) ** n
                if kind == 'BC3':
                    cx.eq(tag + 'An = 0', An, 0)
                    cx.eq(tag + 'Bn = projection on sin(kn x)', Bn * L / 2, b * sgn / (k * k) + a / k)
                else:
                    cx.eq(tag + 'Bn = 0', Bn, 0)
                    cx.eq(tag + 'An = projection on cos(kn x)', An * L / 2, (a + b * L) * sgn / k - b / (k * k))
            else:
                mu = cx['mu%d' % n]
                s_, c_ = cx.fn('sin', mu), cx.fn('cos', mu)
                w = self.robin_facts(cx, [An, Bn], n)
                cx.eq(tag + 'kn L = mu (root of the eigenvalue equation)', k * L, mu)
                Isin = -(a + b * L) * c_ / k + b * s_ / (k * k) + a / k          # int_0^L (a+bx) sin kx dx
                Icos = (a + b * L) * s_ / k + b * (c_ - 1) / (k * k)              # int_0^L (a+bx) cos kx dx
                s2 = 2 * s_ * c_
                c2 = c_ * c_ - s_ * s_
                if kind == 'robinA':
                    q = cx.p('beta1') * k / cx.p('alpha1')                          # X = sin kx - q cos kx
                    norm = L / 2 - s2 / (4 * k) + q * q * (L / 2 + s2 / (4 * k)) - 2 * q * (1 - c2) / (4 * k)
                    cx.eq(tag + 'An = -(beta1 kn/alpha1) Bn', An, -q * Bn, when=w)
                    cx.eq(tag + 'Bn = projection on sin(kn x) - (beta1 kn/alpha1) cos(kn x)', Bn * norm, Isin - q * Icos, when=w)
                else:
                    norm = L / 2 + s2 / (4 * k)
                    cx.eq(tag + 'Bn = 0', Bn, 0)
                    cx.eq(tag + 'An = projection on cos(kn x)', An * norm, Icos, when=w)


class RodSteady(RodBase):
    """t -> infinity: every exponential decays; the remainder is the steady solution of the declared problem"""

    def __init__(self, cfg, nsum):
        self.setup(cfg, nsum)
        self.id = 'C14.steady.%s' % cfg
        self.bounds = 'Nsum=%d; %s, x symbolic' % (nsum, self.params)

    def claims(self, cx):
        cx = Guarded(cx)
        key = 'T%d' % self.nsum
        L = cx['_L']
        op = self.bcop(cx)
        if cx.symbolic:
            lim = decay_claims(cx, cx[key], self.domain(V), when=self.mus_positive(cx))
            ts = TrigSimplifier(self.domain(V))
            l0, lL = ts(subs(cx, lim, x=0)), ts(subs(cx, lim, x=cx.p('L')))
            lx = dsym(lim, 'x')
            lx0, lxL = ts(subs(cx, lx, x=0)), ts(subs(cx, lx, x=cx.p('L')))
            lxx = dsym(lim, 'x', 2)
        else:
            tb = self.tbig(cx)
            f = lambda c: c[key]
            decay_numeric(cx, key, tb)
            l0, lL = cx.at(t=tb, x=0.0)[key], cx.at(t=tb, x=cx.p('L'))[key]
            lx0, lxL = cx.at(t=tb, x=0.0).d(f, 'x'), cx.at(t=tb, x=cx.p('L')).d(f, 'x')
            lxx = cx.at(t=tb).d(f, 'x', 2)
        sc = None if cx.symbolic else [l0, lL, 1.0]
        cx.eq('steady limit: T_xx = 0', lxx, 0, scale=None if cx.symbolic else [l0 / (L * L), lL / (L * L), 1.0])
        cx.eq('steady limit: alpha1 T + beta1 T_x = gamma1 at x=0', op[0] * l0 + op[1] * lx0, op[2], scale=sc)
        cx.eq('steady limit: alpha2 T + beta2 T_x = gamma2 at x=L', op[3] * lL + op[4] * lxL, op[5], scale=sc)
        if self.kind == 'BC2':
            # both ends prescribe the flux: the heat content is conserved
            cx.eq('steady limit conserves the initial heat content', (l0 + lL) * L / 2, (cx['_TL'] + cx['_TR']) * L / 2, scale=sc)

# =============================================================================== Hutchens 1 (sphere)

class H1Base(Obligation):
    uses_derivatives = True
    validate_negated = True
    timeout_s = 40
    timeout_thorough_s = 300
    deriv_tol = 1e-4
    PARAMS = ('k', 'cp', 'rho', 'b', 'Tb', 'T0')

    def setup(self, nsum):
        self.nsum = nsum            # range(1, Nsum): modes 1 .. nsum-1
        self.m = H.mod(H1M)
        self.modules = [self.m]
        self.extra_shim = {'ExactSolution': Recorder}
        self.functions = [self.m.Hutchens1._run]
        self.max_paths = 20

    def solver(self, mk, nsum):
        kw = {p: mk(p) for p in self.PARAMS}
        return self.m.Hutchens1(Nsum=nsum, **kw)

    def build(self, mk):
        s = self.solver(mk, self.nsum)
        out = {}
        r, t = mk('r'), mk('t')
        for j in range(1, self.nsum + 1):
            s.Nsum = j
            out['T%d' % j] = H.first(H.fields(s(H.arr([r]), t)))['temperature']
        s.Nsum = self.nsum
        out['Tcenter'] = H.first(H.fields(s(H.arr([K(mk, 0)]), t)))['temperature']
        out['_alpha'] = mk('k') / (mk('rho') * mk('cp'))          # declared diffusivity
        for p in self.PARAMS + ('r', 't'):
            out['_' + p] = mk(p)
        return out

    def domain(self, V):
        return pos('k', 'cp', 'rho', 'b', 't') + [T.gt(V('r'), T.ZERO), T.lt(V('r'), V('b'))]

    def mode(self, n):
        return lambda c: c['T%d' % (n + 1)] - c['T%d' % n]


class H1PDE(H1Base):
    def __init__(self, nsum):
        self.setup(nsum)
        self.id = 'C14.pde.hutchens1'
        self.bounds = 'modes n=1..%d summed; k, cp, rho, b, Tb, T0, r, t symbolic' % (nsum - 1)

    def claims(self, cx):
        cx = Guarded(cx)
        f = lambda c: c['T%d' % self.nsum]
        al, r = cx['_alpha'], cx['_r']
        cx.zero('T_t = alpha (T_rr + 2 T_r / r)', [cx.d(f, 't'), -al * cx.d(f, 'r', 2), -al * 2 * cx.d(f, 'r') / r], tol=1e-3)


class H1BC(H1Base):
    def __init__(self, nsum):
        self.setup(nsum)
        self.id = 'C14.bc.hutchens1'
        self.bounds = 'modes n=1..%d; parameters and t symbolic; r=b substituted exactly, r->0 by series expansion' % (nsum - 1)

    def claims(self, cx):
        cx = Guarded(cx)
        key = 'T%d' % self.nsum
        f = lambda c: c[key]
        ts = TrigSimplifier(self.domain(V)) if cx.symbolic else (lambda v: v)
        cx.eq('surface: T(b,t) = Tb', ts(at(cx, f, r=cx.p('b'))), cx['_Tb'])
        cx.eq('surface at t=0: T(b,0) = Tb', ts(at(cx, f, r=cx.p('b'), t=0)), cx['_Tb'])
        # centre: dT/dr -> 0 as r -> 0
        if cx.symbolic:
            cx.note_limit('r')
            poles, lim = limit0(dsym(cx[key], 'r'), 'r')
            for i, p in enumerate(poles):
                cx.eq('centre: T_r has no r^-%d singularity' % (len(poles) - i), p, 0)
            cx.eq('centre: T_r -> 0 as r -> 0', lim, 0)
        else:
            eps = 1e-4 * cx.p('b')
            cx.eq('centre: T_r -> 0 as r -> 0', cx.at(r=eps).d(f, 'r') * cx.p('b'), 0,
                  scale=[cx[key], cx['_Tb'], cx['_T0']], tol=1e-3)


class H1R0(H1Base):
    def __init__(self, nsum):
        self.setup(nsum)
        self.id = 'C14.r0.hutchens1'
        self.bounds = 'modes n=1..%d; parameters and t symbolic; limit of the r!=0 branch by exact series expansion in r' % (nsum - 1)
        self.replay_tol = 1e-5

    def claims(self, cx):
        cx = Guarded(cx)
        key = 'T%d' % self.nsum
        if cx.symbolic:
            cx.note_limit('r')
            poles, lim = limit0(cx[key], 'r')
            for i, p in enumerate(poles):
                cx.eq('r!=0 branch has no r^-%d singularity' % (len(poles) - i), p, 0)
        else:
            lim = cx.at(r=1e-6 * cx.p('b'))[key]
        # compared relative to the surface temperature (the natural scale is |T0 - Tb|)
        cx.eq('value returned at r=0 equals the r->0 limit of nearby values', cx['Tcenter'] - cx['_Tb'], lim - cx['_Tb'])


class H1Coeff(H1Base):
    def __init__(self, nsum):
        self.setup(nsum)
        self.id = 'C14.coeff.hutchens1'
        self.bounds = 'modes n=1..%d; parameters symbolic; amplitude read at the first antinode r=b/(2n), t=0' % (nsum - 1)

    def claims(self, cx):
        cx = Guarded(cx)
        ts = TrigSimplifier(self.domain(V)) if cx.symbolic else (lambda v: v)
        pi = cx.const('PI')
        b, Tb, T0 = cx['_b'], cx['_Tb'], cx['_T0']
        for n in range(1, self.nsum):
            rn = cx.p('b') / (2 * n)
            amp = ts(at(cx, self.mode(n), r=rn, t=0)) * rn
            # u = r (T - Tb) solves the slab problem with u(r,0) = r (T0 - Tb): (2/b) int_0^b r (T0-Tb) sin(n pi r/b) dr
            cx.eq('mode %d: r (T - Tb) amplitude = projection of r (T0 - Tb) on sin(n pi r/b)' % n, amp,
                  2 * (Tb - T0) * (-1) ** n * b / (n * pi))


class H1Steady(H1Base):
    def __init__(self, nsum):
        self.setup(nsum)
        self.id = 'C14.steady.hutchens1'
        self.bounds = 'modes n=1..%d; parameters, r symbolic' % (nsum - 1)

    def claims(self, cx):
        cx = Guarded(cx)
        key = 'T%d' % self.nsum
        if cx.symbolic:
            lim = decay_claims(cx, cx[key], self.domain(V))
        else:
            lim = decay_numeric(cx, key, 400.0 * cx.p('b') ** 2 * cx.p('rho') * cx.p('cp') / cx.p('k'))
        cx.eq('steady limit is the surface temperature Tb', lim, cx['_Tb'])


# =============================================================================== Hutchens 2 (cylinder, steady, source)

def sym_i0(x):
    from symx.shim import _elementwise
    from scipy.special import i0 as real_i0
    return _elementwise(lambda v: S(T.func('i0', v.t)), real_i0, 'i0')(x)


def bessel0(v):
    """I0(0) = 1, I1(0) = 0"""
    if not isinstance(v, SymReal):
        return v
    return S(T.substitute(v.t, {T.func('i0', T.ZERO): T.ONE, T.func('i1', T.ZERO): T.ZERO}))


class H2Base(Obligation):
    uses_derivatives = True
    validate_negated = True
    timeout_s = 40
    timeout_thorough_s = 300
    deriv_tol = 1e-4
    PARAMS = ('k', 'g0', 'Tb', 'T0', 'TL', 'b', 'L')

    def setup(self, nsum, g0zero):
        self.nsum = nsum
        self.g0zero = g0zero
        self.m = H.mod(H2M)
        self.modules = [self.m]
        self.extra_shim = {'ExactSolution': Recorder, 'i0': sym_i0}
        self.functions = [self.m.Hutchens2._run]
        self.sfx = '.g0=0' if g0zero else ''
        self.ptxt = 'k, Tb, T0, TL, b, L%s, r, z symbolic' % ('' if g0zero else ', g0')

    def build(self, mk):
        kw = {p: (0.0 if (p == 'g0' and self.g0zero) else mk(p)) for p in self.PARAMS}
        s = self.m.Hutchens2(Nsum=self.nsum, **kw)
        out = {}
        r, z = mk('r'), mk('z')
        for j in range(self.nsum + 1):
            s.Nsum = j
            out['T%d' % j] = H.first(H.fields(s(H.mat([[r], [z]]), 0.0)))['temperature']
        for p in self.PARAMS:
            out['_' + p] = kw[p]
        out['_r'], out['_z'] = r, z
        return out

    def domain(self, V):
        return pos('k', 'b', 'L') + [T.gt(V('r'), T.ZERO), T.lt(V('r'), V('b')), T.gt(V('z'), T.ZERO), T.lt(V('z'), V('L'))]

    def mode(self, n):
        return lambda c: c['T%d' % (n + 1)] - c['T%d' % n]


class H2PDE(H2Base):
    """The operator is linear: T[N] = T[0] + sum_j (T[j+1] - T[j]) and T[j+1] - T[j] = sum_{i<=j} D_i with the second
    differences D_0 = T[1] - T[0], D_j = T[j+1] - 2 T[j] + T[j-1] (T[j]: the public call with Nsum = j).  So the static
    part T[0] must balance the source and every D_j must be harmonic.  With the accumulator added inside the loop (as
    coded) D_j is exactly series term j; with the accumulator added once after the loop it is term j minus term j-1."""

    def __init__(self, nsum, g0zero=False):
        self.setup(nsum, g0zero)
        self.id = 'C14.pde.hutchens2' + self.sfx
        self.bounds = 'static part and series terms j<%d one by one; %s' % (nsum, self.ptxt)

    def claims(self, cx):
        cx = Guarded(cx)
        r = cx['_r']
        L2 = cx['_L'] * cx['_L']
        src = cx['_g0'] / cx['_k']
        f0 = lambda c: c['T0']
        cx.zero('static part: T_rr + T_r/r + T_zz + g0/k = 0', [cx.d(f0, 'r', 2), cx.d(f0, 'r') / r, cx.d(f0, 'z', 2), src], tol=1e-3,
                scale_extra=[cx['T0'] / L2])
        for j in range(self.nsum):
            if j == 0:
                f = lambda c: c['T1'] - c['T0']
            else:
                f = lambda c, j=j: c['T%d' % (j + 1)] - 2 * c['T%d' % j] + c['T%d' % (j - 1)]
            cx.zero('series term %d: T_rr + T_r/r + T_zz = 0' % j, [cx.d(f, 'r', 2), cx.d(f, 'r') / r, cx.d(f, 'z', 2)], tol=1e-3,
                    scale_extra=[f(cx) / L2, cx['T%d' % self.nsum] * 1e-6 / L2])


class H2BC(H2Base):
    def __init__(self, nsum, g0zero=False):
        self.setup(nsum, g0zero)
        self.id = 'C14.bc.hutchens2' + self.sfx
        self.bounds = 'Nsum=%d; %s; z=0, z=L, r=0 substituted exactly' % (nsum, self.ptxt)

    def claims(self, cx):
        cx = Guarded(cx)
        key = 'T%d' % self.nsum
        f = lambda c: c[key]
        ts = TrigSimplifier(self.domain(V)) if cx.symbolic else (lambda v: v)
        cx.eq('bottom: T(r,0) = T0', ts(at(cx, f, z=0)), cx['_T0'])
        cx.eq('top: T(r,L) = TL', ts(at(cx, f, z=cx.p('L'))), cx['_TL'])
        if cx.symbolic:
            tr0 = bessel0(subs(cx, dsym(cx[key], 'r'), r=0))
        else:
            tr0 = cx.at(r=1e-7 * cx.p('b')).d(f, 'r') * cx.p('b')
        cx.eq('axis: T_r(0,z) = 0', tr0, 0, scale=None if cx.symbolic else [cx[key], 1.0], tol=1e-3)


class H2Coeff(H2Base):
    """T(b,z) = Tb holds only in the limit; per mode: the term contributed by raising Nsum from n to n+1, read at r=b and
    at the antinode z = L/(2(2n+1)), is the projection of Tb - static part on sin((2n+1) pi z/L)"""

    def __init__(self, nsum, g0zero=False):
        self.setup(nsum, g0zero)
        self.id = 'C14.coeff.hutchens2' + self.sfx
        self.bounds = 'terms n<%d; %s' % (nsum, self.ptxt)

    def claims(self, cx):
        cx = Guarded(cx)
        ts = TrigSimplifier(self.domain(V)) if cx.symbolic else (lambda v: v)
        pi = cx.const('PI')
        Tb, T0, TL, g0, k, L = (cx['_' + p] for p in ('Tb', 'T0', 'TL', 'g0', 'k', 'L'))
        for n in range(self.nsum):
            m = 2 * n + 1
            zn = cx.p('L') / (2 * m)
            amp = ts(at(cx, self.mode(n), r=cx.p('b'), z=zn))
            # (2/L) int_0^L [Tb - T0 - (TL-T0) z/L - g0/(2k) z (L-z)] sin(m pi z/L) dz,  m odd
            ref = 2 * (2 * Tb - T0 - TL) / (m * pi) - 4 * g0 * L * L / (k * (m * pi) ** 3)
            cx.eq('term %d of the returned sum at r=b = projection of the boundary data on sin((2n+1) pi z/L)' % n, amp, ref)


# =============================================================================== rectangle

class RectBase(Obligation):
    uses_derivatives = True
    validate_negated = True
    timeout_s = 40
    timeout_thorough_s = 300
    deriv_tol = 1e-4
    PARAMS = ('kappa', 'a', 'b', 'Ttop')

    def setup(self, nsum):
        self.nsum = nsum
        self.m = H.mod(REM)
        self.modules = [self.m]
        self.extra_shim = {'ExactSolution': Recorder}
        self.functions = [self.m.Rectangle._run]

    def build(self, mk):
        kw = {p: mk(p) for p in self.PARAMS}
        x, y, t = mk('x'), mk('y'), mk('t')
        out = {}
        pts = H.mat([[x], [y]])
        s = self.m.Rectangle(Nsum=self.nsum, NonHomogeneousOnly=False, **kw)
        out['T'] = H.first(H.fields(s(pts, t)))['temperature']
        out['S1'] = K(mk, 0)         # Nsum=1: empty static sum (the real ExactSolution cannot even be built from it)
        for j in range(2, self.nsum + 1):
            s = self.m.Rectangle(Nsum=j, NonHomogeneousOnly=True, **kw)
            out['S%d' % j] = H.first(H.fields(s(pts, t)))['temperature']
        for p in self.PARAMS + ('x', 'y', 't'):
            out['_' + p] = mk(p)
        return out

    def domain(self, V):
        return pos('kappa', 'a', 'b', 't') + [T.gt(V('x'), T.ZERO), T.lt(V('x'), V('a')), T.gt(V('y'), T.ZERO), T.lt(V('y'), V('b'))]


class RectPDE(RectBase):
    def __init__(self, nsum):
        self.setup(nsum)
        self.id = 'C14.pde.rectangle'
        self.bounds = 'Nsum=%d (static n<%d, transient n<%d, 1<=m<%d); kappa, a, b, Ttop, x, y, t symbolic' % (nsum, nsum, nsum, nsum)

    def claims(self, cx):
        cx = Guarded(cx)
        f = lambda c: c['T']
        g = lambda c: c['S%d' % self.nsum]
        kap = cx['_kappa']
        cx.zero('T_t = kappa (T_xx + T_yy)', [cx.d(f, 't'), -kap * cx.d(f, 'x', 2), -kap * cx.d(f, 'y', 2)], tol=1e-3)
        cx.zero('static part harmonic: S_xx + S_yy = 0', [cx.d(g, 'x', 2), cx.d(g, 'y', 2)], tol=1e-3,
                scale_extra=[cx['S%d' % self.nsum] / (cx['_a'] * cx['_a'])])


class RectBC(RectBase):
    def __init__(self, nsum):
        self.setup(nsum)
        self.id = 'C14.bc.rectangle'
        self.bounds = 'Nsum=%d; kappa, a, b, Ttop, x, y, t symbolic; boundary positions substituted exactly' % nsum

    def claims(self, cx):
        cx = Guarded(cx)
        ts = TrigSimplifier(self.domain(V)) if cx.symbolic else (lambda v: v)
        f = lambda c: c['T']
        h = lambda c: c['T'] - c['S%d' % self.nsum]
        a, b = cx.p('a'), cx.p('b')
        sc = None if cx.symbolic else [cx['_Ttop'], 1e-30]
        cx.eq('bottom: T(x,0,t) = 0', ts(at(cx, f, y=0)), 0, scale=sc)
        cx.eq('top: transient part vanishes at y=b', ts(at(cx, h, y=b)), 0, scale=sc)
        # declared: "the sides of the rectangle use zero heat flux conditions"
        cx.eq('side x=0: declared zero heat flux T_x = 0', ts(at(cx, lambda c: c.d(f, 'x'), x=0)) * a, 0, scale=sc)
        cx.eq('side x=a: declared zero heat flux T_x = 0', ts(at(cx, lambda c: c.d(f, 'x'), x=a)) * a, 0, scale=sc)
        # the top condition T = Ttop is met in the limit: coefficient n of the static part, read at y=b and the antinode
        # x = a/(2n), is the sine coefficient (2/a) int_0^a Ttop sin(n pi x/a) dx
        pi = cx.const('PI')
        for n in range(1, self.nsum):
            term = lambda c, n=n: c['S%d' % (n + 1)] - c['S%d' % n]
            amp = ts(at(cx, term, x=a / (2 * n), y=b))
            cx.eq('top: static coefficient %d = sine coefficient of the constant Ttop' % n, amp,
                  2 * cx['_Ttop'] * (1 - (-1) ** n) / (n * pi), scale=sc)


class SpyNP(object):
    """numpy stand-in that records the caller's local variables whenever np.exp is called (the real Rectangle._run calls it
    once per transient term, right after computing the coefficient Anm); everything is delegated to `inner'"""

    def __init__(self, inner, log):
        self._inner = inner
        self._log = log

    def __getattr__(self, name):
        f = getattr(self._inner, name)
        if name != 'exp':
            return f

        def exp(*a, **k):
            self._log.append(dict(sys._getframe(1).f_locals))
            return f(*a, **k)
        return exp


class RectCoeff(RectBase):
    """T(x,y,0+) = 0.  (i) every coefficient Anm computed by _run (read from its local variable through a recording numpy
    stand-in) is the projection of -(static solution) on sin(kn x) sin(km y) (Green's identity with the declared top
    value Ttop); (ii) assembly: the transient part returned at t=0 and its y-derivative, at points where every sine/cosine
    is a rational table value, are the sums of those coefficients times the table values (value at y=b/2 weighs the odd m,
    the y-derivative the even m)."""
    XS = (2, 6)       # x = a/2, a/6

    def __init__(self, nsum):
        self.setup(nsum)
        self.id = 'C14.coeff.rectangle'
        self.bounds = 'Nsum=%d: transient modes n<%d, 1<=m<%d; kappa, a, b, Ttop symbolic; assembly at (a/2,b/2), (a/6,b/2)' % (nsum, nsum, nsum)

    def build(self, mk):
        log = []
        with patched(self.m, 'np', lambda inner: SpyNP(inner, log)):
            out = RectBase.build(self, mk)
        for loc in log:
            if 'Anm' in loc and 'm' in loc and 'n' in loc:
                out.setdefault('A_%d_%d' % (loc['n'], loc['m']), loc['Anm'])
        return out

    def claims(self, cx):
        cx = Guarded(cx)
        ts = TrigSimplifier(self.domain(V)) if cx.symbolic else (lambda v: v)
        h = lambda c: c['T'] - c['S%d' % self.nsum]
        hy = lambda c: c.d(h, 'y')
        a, b, Ttop = cx['_a'], cx['_b'], cx['_Ttop']
        pi = cx.const('PI')
        sc = None if cx.symbolic else [Ttop, 1e-30]
        idx = [(n, m) for n in range(self.nsum) for m in range(1, self.nsum)]
        for n, m in idx:
            kn = (2 * n + 1) * pi / a
            km = m * pi / b
            # -(4/(a b)) int int Tbar sin(kn x) sin(km y) = 4 Ttop km (-1)^m (1 - cos(kn a)) / (a b kn (kn^2+km^2)), cos(kn a) = -1
            ref = 8 * Ttop * km * (-1) ** m / (a * b * kn * (kn * kn + km * km))
            cx.eq('coefficient (n=%d, m=%d) = projection of -static on sin((2n+1) pi x/a) sin(m pi y/b)' % (n, m),
                  cx['A_%d_%d' % (n, m)], ref, scale=sc)

        def tv(name, fr):
            t = trig_value(name, fr)
            return S(t) if cx.symbolic else T.evalf(t, {})
        for p in self.XS:
            where = dict(x=cx.p('a') / p, y=cx.p('b') / 2, t=0)
            got = ts(at(cx, h, **where))
            goty = ts(at(cx, hy, **where)) * b
            A = {nm: cx['A_%d_%d' % nm] for nm in idx}
            if cx.symbolic:
                # the coefficients enter linearly: prove the assembly for arbitrary coefficient values
                vals = generalise([got, goty] + [A[nm] for nm in idx], [(A[nm], 'A#%d#%d' % nm) for nm in idx])
                got, goty = vals[0], vals[1]
                A = dict(zip(idx, vals[2:]))
            ref = 0
            refy = 0
            for n, m in idx:
                sx = tv('sin', Fraction(2 * n + 1, p))
                ref = ref + A[(n, m)] * sx * tv('sin', Fraction(m, 2))
                refy = refy + A[(n, m)] * sx * (m * pi) * tv('cos', Fraction(m, 2))
            cx.eq('transient part at t=0, (x,y)=(a/%d,b/2) = sum of coefficients x mode values' % p, got, ref, scale=sc)
            cx.eq('y-derivative of the transient part at t=0, (x,y)=(a/%d,b/2) = sum of coefficients x mode derivatives' % p,
                  goty, refy, scale=None if cx.symbolic else [Ttop * self.nsum, 1e-30], tol=1e-4)


class RectSteady(RectBase):
    def __init__(self, nsum):
        self.setup(nsum)
        self.id = 'C14.steady.rectangle'
        self.bounds = 'Nsum=%d; kappa, a, b, Ttop, x, y symbolic' % nsum

    def claims(self, cx):
        cx = Guarded(cx)
        if cx.symbolic:
            lim = decay_claims(cx, cx['T'], self.domain(V))
        else:
            lim = decay_numeric(cx, 'T', 400.0 * max(cx.p('a'), cx.p('b')) ** 2 / cx.p('kappa'))
        cx.eq('steady limit is the static (NonHomogeneousOnly) solution', lim, cx['S%d' % self.nsum],
              scale=None if cx.symbolic else [cx['_Ttop'], 1e-30])

# =============================================================================== cylindrical sandwich (thorough tier)

def _bessel(kind, k, x):
    """J_k / Y_k of integer order through the three-term recurrence on the atoms j0, j1 / y0, y1"""
    if k < 0:
        return (-1) ** (-k) * _bessel(kind, -k, x)
    f0, f1 = S(T.func(kind + '0', x.t)), S(T.func(kind + '1', x.t))
    if k == 0:
        return f0
    lo, hi = f0, f1
    for j in range(1, k):
        lo, hi = hi, (2 * j / x) * hi - lo
    return hi


class SpecialProxy(object):
    """stands in for scipy.special inside cylindrical_sandwich"""

    def _wrap(self, kind, real):
        def f(k, x):
            if isinstance(x, SymReal):
                return _bessel(kind, int(k), x)
            if isinstance(x, np.ndarray) and x.dtype == object:
                out = np.empty(x.shape, dtype=object)
                for idx in np.ndindex(x.shape):
                    out[idx] = _bessel(kind, int(k), x[idx]) if isinstance(x[idx], SymReal) else real(k, x[idx])
                return out
            return real(k, x)
        return f

    def __getattr__(self, name):
        import scipy.special as sp
        if name == 'jn':
            return self._wrap('j', sp.jn)
        if name == 'yn':
            return self._wrap('y', sp.yn)
        return getattr(sp, name)


def newton_stub(func, x0, args=(), **kw):
    """scipy.optimize.newton contract: a positive zero of func"""
    ex = current()
    x = ex.fresh('root')
    ex.assume(T.gt(x.t, T.ZERO))
    ex.assume(T.eq(term_of(func(x, *args)), T.ZERO))
    return x


def quad_stub(func, a, b, args=(), **kw):
    """scipy.integrate.quad: the value of the integral is a free symbol"""
    return (current().fresh('quad'), 0.0)


class CylBase(Obligation):
    uses_derivatives = True
    timeout_s = 60
    timeout_thorough_s = 600
    deriv_tol = 1e-3
    skip_validation = True
    PARAMS = ('kappa', 'a', 'b', 'T0', 'T1')

    def setup(self):
        self.m = H.mod(CYM)
        self.modules = [self.m]
        self.extra_shim = {'ExactSolution': Recorder, 'sp': SpecialProxy(), 'newton': newton_stub, 'quad': quad_stub}
        C = self.m.CylindricalSandwich
        self.functions = [C._run, C.alpha, C.R, C.bc_solve]
        self.ptxt = 'Nsum=Msum=1 (angular order k=2, first radial root); kappa, a, b, T0, T1, r, theta, t symbolic; radial root = newton contract, quadrature value free'

    def build(self, mk):
        kw = {p: mk(p) for p in self.PARAMS}
        r, th, t = mk('r'), mk('theta'), mk('t')
        pts = H.mat([[r], [th]])
        out = {}
        s = self.m.CylindricalSandwich(Nsum=1, Msum=1, NonHomogeneousOnly=False, **kw)
        out['T'] = H.first(H.fields(s(pts, t)))['temperature']
        s = self.m.CylindricalSandwich(Nsum=1, Msum=1, NonHomogeneousOnly=True, **kw)
        out['S'] = H.first(H.fields(s(pts, t)))['temperature']
        for p in self.PARAMS + ('r', 'theta', 't'):
            out['_' + p] = mk(p)
        return out

    def domain(self, V):
        return pos('kappa', 'a', 't') + [T.gt(V('r'), V('a')), T.lt(V('r'), V('b')), T.gt(V('theta'), T.ZERO),
                                         T.lt(T.mul(T.TWO, V('theta')), V('PI'))]


class CylPDE(CylBase):
    def __init__(self):
        self.setup()
        self.id = 'C14.pde.cylsandwich'
        self.bounds = self.ptxt

    def claims(self, cx):
        cx = Guarded(cx)
        f = lambda c: c['T']
        g = lambda c: c['S']
        kap, r = cx['_kappa'], cx['_r']
        cx.zero('T_t = kappa (T_rr + T_r/r + T_thetatheta/r^2)',
                [cx.d(f, 't'), -kap * cx.d(f, 'r', 2), -kap * cx.d(f, 'r') / r, -kap * cx.d(f, 'theta', 2) / (r * r)], tol=1e-2)
        cx.zero('static part harmonic', [cx.d(g, 'r', 2), cx.d(g, 'r') / r, cx.d(g, 'theta', 2) / (r * r)], tol=1e-2,
                scale_extra=[cx['S'] / (r * r), 1e-30])


class CylBC(CylBase):
    def __init__(self):
        self.setup()
        self.id = 'C14.bc.cylsandwich'
        self.bounds = self.ptxt + '; boundary positions substituted exactly'

    def claims(self, cx):
        cx = Guarded(cx)
        ts = TrigSimplifier(self.domain(V)) if cx.symbolic else (lambda v: v)
        f = lambda c: c['T']
        pi = cx.const('PI')
        sc = None if cx.symbolic else [cx['_T0'], cx['_T1'], 1e-30]
        cx.eq('theta=0: T = T0', ts(at(cx, f, theta=0)), cx['_T0'], scale=sc)
        cx.eq('theta=pi/2: T = T1', ts(at(cx, f, theta=pi / 2)), cx['_T1'], scale=sc)
        fr = lambda c: c.d(f, 'r')
        cx.eq('r=a: T_r = 0', at(cx, fr, r=cx.p('a')) * cx.p('a'), 0, scale=sc, tol=1e-3)
        cx.eq('r=b: T_r = 0', at(cx, fr, r=cx.p('b')) * cx.p('a'), 0, scale=sc, tol=1e-3)


class CylSteady(CylBase):
    def __init__(self):
        self.setup()
        self.id = 'C14.steady.cylsandwich'
        self.bounds = self.ptxt

    def claims(self, cx):
        cx = Guarded(cx)
        if cx.symbolic:
            lim = decay_claims(cx, cx['T'], self.domain(V))
        else:
            lim = decay_numeric(cx, 'T', 1e4 * cx.p('b') ** 2 / cx.p('kappa'))
        cx.eq('steady limit is the static (NonHomogeneousOnly) solution', lim, cx['S'])


# =============================================================================== obligation list

def obligations(tier):
    q = tier == 'quick'
    obs = []
    N = 4 if q else 9
    for cfg in ROD:
        robin = ROD[cfg]['kind'].startswith('robin')
        n = (3 if q else 5) if robin else N
        obs.append(RodPDE(cfg, n))
        obs.append(RodBC(cfg, n, 'x0'))
        obs.append(RodBC(cfg, n, 'xL'))
        obs.append(RodCoeff(cfg, n))
        obs.append(RodSteady(cfg, n))
    n1 = 4 if q else 8
    obs += [H1PDE(n1), H1BC(n1), H1R0(n1), H1Coeff(n1), H1Steady(n1)]
    n2 = 2 if q else 3
    for g0zero in (False, True):
        obs += [H2PDE(n2, g0zero), H2BC(n2, g0zero), H2Coeff(n2, g0zero)]
    nr = 3 if q else 5
    obs += [RectPDE(nr), RectBC(nr), RectCoeff(nr), RectSteady(nr)]
    if not q:
        obs += [CylPDE(), CylBC(), CylSteady()]
    for o in obs:
        o.tier = tier
    return obs
