"""C01 -- returned fields satisfy the documented governing PDEs wherever smooth."""
from fractions import Fraction
import numpy as np

from symx import terms as T
from symx.framework import Obligation, V
from symx.shim import Recorder
from . import common as H
from .common import K, Mode
from .pde import euler_claims

EXPLANATION = ('Each solver is executed on symbolic reals; the three conservation laws are formed from exact symbolic '
               'derivatives (in r and t) of the returned field terms and z3 is asked for an admissible input where a '
               'residual is non-zero, separately on every feasible path (= every smooth region).')
BOUNDS = ['geometry enumerated; one evaluation point (the PDE is pointwise); adiabatic index symbolic for closed forms']
OUTSIDE = ['accuracy of ODE integration / root finding inside Sedov, Guderley (only the Python-level right-hand sides '
           'and dimensionalisation are encoded)', 'behaviour exactly on a discontinuity',
           "general-EOS fans between table nodes (linear interpolation); general-EOS Riemann driver (RiemannGenEOS.driver): run as coded with scipy.integrate.ode replaced by its contract (ideal-gas flag: the closed-form integral curve, proved to satisfy the real right-hand side drdp_dudp by the `geos.ode_contract' obligations), bisect by f(x*)=0, tables of 2 (rarefaction) / 4 (shock) nodes, empty internal grid; wave ordering and monotone fan knots (np.interp's precondition) are assumed; one obligation per wave pattern and per pair of table intervals containing p*; p* within one table step of an initial pressure (star-state lookup clamps to the last node) and the JWL flag are outside"]
ASSUMPTIONS = ['Coggeshall energy equation: conservation form with e = Gamma T/(gamma-1) and the heat flux '
               'F = -(4 a c lambda0/3) rho^alpha T^(beta+3) dT/dr with a, c as hard-wired in the cog modules; solvers that '
               'declare alpha/beta but no lambda0 must have a divergence-free flux']

META = {
    'level_text': ('Bounded symbolic check of the real _run code: parameters, position and time are symbolic reals, the '
                   'conservation laws are built from exact symbolic derivatives of the returned fields and z3 decides each '
                   'residual on every feasible path (smooth region); geometry enumerated, adiabatic index sliced only where '
                   'stated. Not a proof: floats are read as reals; integration/root-finding accuracy of the semi-analytic '
                   'solvers is outside.'),
    'level_note': ('Trusted: z3; symx proxies/shims/differentiation (validated per path against the unshimmed code and, for '
                   'witnesses, by Richardson finite differences of the public call); the PDE oracle harness/pde.py; the '
                   'reading of the Coggeshall heat-flux term given under assumptions.'),
}

A_RAD = Fraction('137.20')       # a = 1.3720e+02 erg cm^-3 eV^-4 as written in the cog modules
C_LIGHT = Fraction('2.997e10')   # c = 2.997e10 cm/s as written in the cog modules

# how the conduction term enters each Coggeshall solution (from the module docstrings)
COG_FLUX = {
    'Cog8': ('free', lambda mk, k: mk('alpha'), lambda mk, k: mk('beta')),
    'Cog9': ('free', lambda mk, k: mk('alpha'), lambda mk, k: mk('beta')),
    'Cog10': ('full', lambda mk, k: mk('beta') + 4 - K(mk, Fraction(1, k)), lambda mk, k: mk('beta')),
    'Cog11': ('free', lambda mk, k: mk('beta') + 4 + (k - 1) / (2 - (mk('gamma') - 1) * (k + 1)), lambda mk, k: mk('beta')),
    'Cog12': ('free', lambda mk, k: (mk('beta') + 4) * (1 - mk('gamma')) + K(mk, Fraction(k - 1, 2 * k)) * (mk('gamma') + 1),
              lambda mk, k: mk('beta')),
    'Cog13': ('full', lambda mk, k: mk('alpha'), lambda mk, k: mk('beta')),
    'Cog14': ('full', lambda mk, k: mk('alpha'), lambda mk, k: mk('beta')),
    'Cog16': ('full', lambda mk, k: K(mk, 1 - Fraction(1, k)), lambda mk, k: K(mk, (1 - Fraction(1, k)) / 2 - 3)),
    'Cog17': ('full', lambda mk, k: mk('alpha'), lambda mk, k: mk('beta')),
    'Cog18': ('free', lambda mk, k: mk('alpha'), lambda mk, k: mk('beta')),
}


class CogPDE(Obligation):
    uses_derivatives = True

    def __init__(self, name, geom, quick=True, fix_gamma=None):
        self.name = name
        self.geom = geom
        self.quick = quick
        self.fix_gamma = fix_gamma
        self.m, self.cls = H.cog_class(name)
        self.id = 'C01.%s.g%s' % (name.lower(), geom if geom else 'fixed')
        if fix_gamma is not None:
            self.id += '.gamma=%s' % fix_gamma
        self.modules = [self.m]
        self.extra_shim = {'ExactSolution': Recorder, 'print': H.quiet_print}
        self.functions = [self.cls._run]
        self.k = (geom - 1) if geom else H.COG[name]['k']
        self.timeout_s = 20
        self.timeout_thorough_s = 900
        self.bounds = 'all declared real parameters, r>0, t>0 symbolic; geometry fixed per obligation'

    def build(self, mk):
        attrs = {p: mk(p) for p in H.COG[self.name]['params']}
        if self.geom:
            attrs['geometry'] = self.geom
        if self.fix_gamma is not None:
            attrs['gamma'] = K(mk, self.fix_gamma)
        s = H.new_solver(self.cls, attrs)
        out = H.first(H.run_1d(s, mk))
        fl = COG_FLUX.get(self.name)
        if fl is not None:
            out['_alpha'] = fl[1](mk, self.k)
            out['_beta'] = fl[2](mk, self.k)
            if fl[0] == 'full':
                out['_K0'] = -(4 * K(mk, A_RAD) * K(mk, C_LIGHT) * mk('lambda0')) / 3
        return out

    def domain(self, V):
        d = [T.gt(V('r'), T.ZERO), T.gt(V('t'), T.ZERO), T.gt(V('Gamma'), T.ZERO)]
        ps = H.COG[self.name]['params']
        for p in ('rho0', 'temp0', 'tau', 'R0', 'Ri', 'lambda0'):
            if p in ps:
                d.append(T.gt(V(p), T.ZERO))
        if self.name == 'Cog20':
            # documented shock trajectory u0 (gamma-1)/(4a) t (1-2at)/(1-at): outward for 0 < t < 1/(2a)
            d += [T.gt(V('a'), T.ZERO), T.gt(V('u0'), T.ZERO), T.lt(T.mul(T.const(2), T.mul(V('a'), V('t'))), T.ONE)]
        if 'gamma' in ps and self.fix_gamma is None:
            if self.name in ('Cog4', 'Cog12'):      # documented: T > 0 only for gamma < 1
                d += [T.gt(V('gamma'), T.ZERO), T.lt(V('gamma'), T.ONE)]
            else:
                d.append(T.gt(V('gamma'), T.ONE))
        if 'tau' in ps:
            d.append(T.lt(V('t'), V('tau')))
        return d

    def claims(self, cx):
        fl = COG_FLUX.get(self.name)
        flux = None
        free = None
        if fl is not None:
            def F0(c):
                return (c['density'] ** c['_alpha']) * (c['temperature'] ** (c['_beta'] + 3)) * \
                    c.d(lambda cc: cc['temperature'], 'r')
            if fl[0] == 'full':
                flux = lambda c: c['_K0'] * F0(c)
            else:
                free = F0
        euler_claims(cx, self.k, flux=flux, flux_free=free)


class NohPDE(Obligation):
    uses_derivatives = True

    def __init__(self, geom):
        self.geom = geom
        self.m = H.mod('exactpack.solvers.noh.noh1')
        self.id = 'C01.noh.g%d' % geom
        self.modules = [self.m]
        self.extra_shim = {'ExactSolution': Recorder}
        self.functions = [self.m.Noh._run]
        self.bounds = 'gamma>1, u0<0, rho0>0, r>0, t>0 all symbolic; geometry fixed per obligation'

    def build(self, mk):
        s = H.new_solver(self.m.Noh, dict(geometry=self.geom, gamma=mk('gamma'), u0=mk('u0'), rho0=mk('rho0')))
        return H.first(H.run_1d(s, mk))

    def domain(self, V):
        return [T.gt(V('gamma'), T.ONE), T.lt(V('u0'), T.ZERO), T.gt(V('rho0'), T.ZERO),
                T.gt(V('r'), T.ZERO), T.gt(V('t'), T.ZERO)]

    def claims(self, cx):
        euler_claims(cx, self.geom - 1)


class Noh2PDE(Obligation):
    uses_derivatives = True

    def __init__(self, geom, which):
        self.geom = geom
        if which == 'noh2':
            self.m = H.mod('exactpack.solvers.noh2.noh2')
            self.cls = self.m.Noh2
            self.modules = [self.m]
        else:
            self.m = H.mod('exactpack.solvers.noh2.noh2_cog')
            self.cls = self.m.Noh2Cog
            self.modules = [self.m, H.mod('exactpack.solvers.cog.cog1')]
        self.id = 'C01.%s.g%d' % (which, geom)
        self.extra_shim = {'ExactSolution': Recorder}
        self.functions = [self.cls._run]
        self.bounds = 'gamma>1, rho0>0, e0>0, r>0, 0<t<1 symbolic; geometry fixed per obligation'

    def build(self, mk):
        s = self.cls(geometry=self.geom, gamma=mk('gamma'), rho0=mk('rho0'), e0=mk('e0'))
        return H.first(H.run_1d(s, mk))

    def domain(self, V):
        return [T.gt(V('gamma'), T.ONE), T.gt(V('rho0'), T.ZERO), T.gt(V('e0'), T.ZERO),
                T.gt(V('r'), T.ZERO), T.gt(V('t'), T.ZERO), T.lt(V('t'), T.ONE)]

    def claims(self, cx):
        euler_claims(cx, self.geom - 1)


class GuderleyPDE(Obligation):
    replay_limit_s = 300        # the real Guderley solve takes 20-40 s on an idle core, several times that under load
    """pre- and post-reflection flow: with dV/dx, dC/dx, dR/dx := g(x, y) (the real right-hand side, executed symbolically)
    the dimensional fields of state() at x = t_L / r^lambda satisfy the Euler equations"""
    uses_derivatives = True

    def __init__(self, n, gamma):
        from . import guderley_common as G
        self.G = G
        self.n, self.gamma = n, gamma
        self.id = 'C01.guderley.n%d.gamma=%s' % (n, gamma)
        self.m = H.mod(G.GM)
        self.modules = [self.m]
        self.extra_shim = G.shim_extra()
        self.functions = [self.m.state, self.m.g]
        self.bounds = 'r, Lazarus time t, rho0, lambda (no relation to gamma assumed), B symbolic; gamma fixed; every branch of state() = path'
        self.skip_validation = True
        self.timeout_s = 30
        self.timeout_thorough_s = 900

    def build(self, mk):
        x = mk('t') / mk('r') ** mk('lam')
        out = self.G.run_state(mk, self.n, self.gamma, x=x)
        if Mode.symbolic(mk):
            out['_rules'] = self.G.ivp_rules(H.term_of(x))
        return out

    def rules(self, out):
        return out.get('_rules', {})

    def domain(self, V):
        return [T.gt(V('r'), T.ZERO), T.gt(V('rho0'), T.ZERO), T.gt(V('lam'), T.ONE), T.gt(V('B'), T.ZERO), T.ne(V('t'), T.ZERO)]

    def claims(self, cx):
        euler_claims(cx, self.n - 1)


class EHEPPDE(Obligation):
    uses_derivatives = True

    def __init__(self):
        from . import ehep_common as E
        self.E = E
        self.m = H.mod(E.EM)
        self.id = 'C01.ehep'
        self.modules = [self.m]
        self.extra_shim = E.shim_extra()
        self.functions = [self.m.EscapeOfHEProducts.__init__, self.m.EscapeOfHEProducts._run, self.m.EscapeOfHEProducts.p_rho]
        self.bounds = 'D, rho_0, up, xtilde, xmax, tmax, x, t symbolic (constructor-admitted); every region I-V = path (point strictly inside the region)'
        self.max_paths = 100

    def build(self, mk):
        out, s = self.E.run(mk)
        out.pop('_corners')
        return out

    def domain(self, V):
        return self.E.domain(V)

    def claims(self, cx):
        reg = cx['_region']
        if reg not in ('I', 'II', 'III', 'IV', 'V'):
            return
        euler_claims(cx, 0, rvar='x', tvar='t', tag='region %s ' % reg)
        cx.eq('region %s c^2 = gamma p/rho (gamma = 3)' % reg, cx['sound_speed'] * cx['sound_speed'] * cx['density'], 3 * cx['pressure'])


class SedovPDE(Obligation):
    """Sedov interior: the physical fields rho2(t) g(v), u2(t) f(v), p2(t) h(v) at r = r2(t) lambda(v) satisfy the Euler
    equations.  Derivatives at fixed r / fixed t follow from the parametrisation by the similarity variable v:
       d/dr|t = (1/(r2 lambda')) d/dv ,   d/dt|r = d/dt|v - (r2' lambda/(r2 lambda')) d/dv ."""
    uses_derivatives = True

    def __init__(self, geom, gamma, case):
        from . import C11
        self.inner = C11.SedovIdentity(geom, gamma, case)
        self.geom, self.gamma, self.case = geom, gamma, case
        self.id = 'C01.sedov.%s.g%d.gamma=%s' % (case, geom, gamma)
        self.modules = self.inner.modules
        self.extra_shim = self.inner.extra_shim
        self.functions = self.inner.functions
        self.bounds = self.inner.bounds
        self.skip_validation = True
        self.max_paths = 60
        self.timeout_s = 30
        self.timeout_thorough_s = 900

    def build(self, mk):
        return self.inner.build(mk)

    def domain(self, V):
        return self.inner.domain(V)

    def claims(self, cx):
        # logarithmic form (every equation divided by its own field and multiplied by t): with L(F) = dlog F/dv / dlog lambda/dv,
        #   t (D_t F)/F = t dlog_t F - L(F) t dlog_t r2 ,     r (D_r F)/F = L(F) ,     u t / r = v
        j = self.geom
        k = j - 1
        v, t = cx.p('v'), cx.p('t')
        fl, fr2 = (lambda c: c['l']), (lambda c: c['r2'])
        frho, fu, fp = (lambda c: c['rho']), (lambda c: c['u']), (lambda c: c['p'])
        lv = cx.dlog(fl, 'v')
        a0 = t * cx.dlog(fr2, 't')                     # t r2'/r2
        L = lambda f: cx.dlog(f, 'v') / lv
        Tt = lambda f: t * cx.dlog(f, 't') - L(f) * a0
        rho, u, p, r = cx['rho'], cx['u'], cx['p'], cx['r2'] * cx['l']
        cx.eq('similarity velocity: u t = v r', u * t, v * r)
        cx.zero('mass (log form)', [Tt(frho), v * L(frho), v * L(fu), k * v], tol=1e-4)
        # momentum: t D_t u/u + v L(u) + (p t^2/(rho r^2 v)) L(p) = 0   (using u = v r/t)
        cx.zero('momentum (log form)', [Tt(fu), v * L(fu), (p * t * t / (rho * r * r * v)) * L(fp)], tol=1e-4)
        # energy (entropy form for e = p/((gamma-1) rho)):  t D_t e/e + v L(e) + (gamma-1) (v L(u) + k v) = 0
        gm1 = cx['gamm1']
        cx.zero('energy (log form)', [Tt(fp) - Tt(frho), v * (L(fp) - L(frho)), gm1 * v * L(fu), gm1 * k * v], tol=1e-4)


def obligations(tier):
    obs = []
    for g in (1, 2, 3):
        obs.append(NohPDE(g))
        obs.append(Noh2PDE(g, 'noh2'))
        obs.append(Noh2PDE(g, 'noh2cog'))
    for name, spec in H.COG.items():
        for g in spec['geoms']:
            obs.append(CogPDE(name, g))
    # Cog20 balances energy only for gamma = (k+3)/(k+1) (known finding for other gamma): keep the
    # slice where it must hold as its own obligation so that a different defect is still seen
    for g in (1, 2, 3):
        obs.append(CogPDE('Cog20', g, fix_gamma=Fraction(g + 2, g)))
    # Sedov interior (similarity functions); fans of the ideal-gas Riemann solver; escape-of-HE-products regions
    from . import C11
    gams = [Fraction(7, 5)] if tier == 'quick' else [Fraction(7, 5), Fraction(5, 3), Fraction(2)]
    for j in (1, 2, 3):
        for gam in gams:
            obs.append(SedovPDE(j, gam, 'generic'))
            for case in ('omega2', 'omega3'):
                om = C11.SPECIAL[case](j, Fraction(gam))
                if 0 <= om < j:
                    obs.append(SedovPDE(j, gam, case))
    from . import C04
    for g in (H.G_QUICK if tier == 'quick' else H.G_FULL):
        for side in ('L', 'R'):
            o = C04.Fan(side, g)
            o.id = o.id.replace('C04.fan', 'C01.riemann.fan')
            obs.append(o)
    # general-EOS Riemann solver: its fans are tables.  The ODE contract (closed form == integral curve of the real
    # right-hand side drdp_dudp: dr/dp = 1/c^2, du/dp = -/+ 1/(rho c)) plus "every table node sits on its own characteristic
    # x = xd0 + t (u -/+ c) with the node's state" is the self-similar form of the Euler equations at the nodes
    from . import geos
    obs += geos.obligations('C01', tier, patterns=('RCR', 'RCS', 'SCR'))
    obs.append(EHEPPDE())
    for n in (2, 3):
        for gam in ([Fraction(7, 5)] if tier == 'quick' else H.G_FULL):
            obs.append(GuderleyPDE(n, gam))
    return obs
