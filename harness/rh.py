"""Rankine-Hugoniot oracle (DESIGN.md 5, C02): for a front moving with speed D between state a
and state b (rho, u, p, e):   [rho (u-D)] = 0,  [rho (u-D)^2 + p] = 0,
[rho (u-D) (e + (u-D)^2/2) + p (u-D)] = 0   (Galilean-invariant form)."""


def rh_claims(cx, tag, a, b, D, when=None, mass=True):
    (ra, ua, pa, ea), (rb, ub, pb, eb) = a, b
    wa, wb = ua - D, ub - D
    if mass:
        cx.eq(tag + ' RH mass', ra * wa, rb * wb, when=when)
    cx.eq(tag + ' RH momentum', ra * wa * wa + pa, rb * wb * wb + pb, when=when)
    cx.eq(tag + ' RH energy', ra * wa * (ea + wa * wa / 2) + pa * wa, rb * wb * (eb + wb * wb / 2) + pb * wb, when=when)
