"""Shared symbolic run of Guderley's state() (C01, C03, C06, C10)."""
from fractions import Fraction
import numpy as np

from symx import terms as T
from symx.engine import SymReal, SymBool, term_of, current, sym
from . import common as H
from .common import K, Mode

GM = 'exactpack.solvers.guderley.ramsey'
GLOBALS = ('gamma', 'lambda_', 'nu', 'sigma', 'intno', 'V1')


class _Sol(object):
    def __init__(self, y):
        self.y = y


def solve_ivp_stub(f, span, y0, **kw):
    """scipy.integrate.solve_ivp contract: the end value y(t1) is a vector of fresh symbols (a deterministic function of the
    arguments and of the right-hand side); the right-hand side is executed once, symbolically, at the end point: that term
    IS dy/dt there, which is all the properties need."""
    ex = current()
    n = len(y0)
    from symx.engine import lift
    # the same initial-value problem requested again on this path (second evaluation at the same similarity coordinate)
    # has the same solution
    cache = ex.notes.setdefault('ivpcache', {})
    key = (f.__name__, lift(span[0]), lift(span[1])) + tuple(lift(v) for v in y0)
    if key in cache:
        return _Sol(cache[key].copy())
    y = np.empty((n, 1), dtype=object)
    for i in range(n):
        y[i, 0] = ex.fresh('ivp')
    cache[key] = y.copy()
    t1 = span[1]
    yp = f(t1, [y[i, 0] for i in range(n)])
    ex.note('ivp', {'rhs': f.__name__, 't0': span[0], 't1': t1, 'y0': list(y0), 'y': [y[i, 0] for i in range(n)], 'yp': list(yp)})
    return _Sol(y)


def shim_extra():
    return {'solve_ivp': solve_ivp_stub}


def set_prestate(mk_pre):
    """arbitrary earlier history: the module globals hold arbitrary values"""
    m = H.mod(GM)
    for g in GLOBALS:
        setattr(m, g, mk_pre(g))


def run_state(mk, n, gamma, r=None, x=None, prestate=False):
    m = H.mod(GM)
    if prestate and Mode.symbolic(mk):
        set_prestate(lambda g: mk('pre_' + g))
    r = mk('r') if r is None else r
    x = mk('x') if x is None else x
    out = m.state(r, mk('rho0'), n, K(mk, gamma) if not isinstance(gamma, str) else mk('gamma'), mk('lam'), mk('B'), x)
    return dict(zip(('density', 'velocity', 'pressure', 'sound_speed', 'specific_internal_energy'), out))


def ivp_rules(x_term, wrt=('r', 't')):
    """derivative rules for the fresh end values of the last integration on this path: d y_i/d(var) = g_i(x, y) dx/d(var)"""
    from symx import diff as Df
    ex = current()
    rules = {}
    for rec in ex.notes.get('ivp', []):
        if term_of(rec['t1']) is not x_term:
            continue
        for yv, ypv in zip(rec['y'], rec['yp']):
            rules[term_of(yv)] = {w: T.mul(term_of(ypv), Df.d(x_term, w)) for w in wrt}
    return rules
