"""Conservation-law oracles written once (DESIGN.md 5, C01).

1-D flow in planar/cylindrical/spherical symmetry, geometry factor k = 0, 1, 2:
  mass      rho_t + u rho_r + rho u_r + k rho u / r                  = 0
  momentum  u_t + u u_r + p_r / rho                                  = 0
  energy    rho (e_t + u e_r) + p (u_r + k u / r) + F_r + k F / r    = 0
with F the radial heat flux (0 for pure hydro).  All quantities are the fields the solver
returns under their names; derivatives are exact symbolic derivatives of the terms the
code produced (or Richardson finite differences of the public call when replaying).
"""


def euler_claims(cx, k, rho='density', u='velocity', p='pressure', e='specific_internal_energy',
                 rvar='r', tvar='t', flux=None, flux_free=None, tag='', r_of=None):
    frho = lambda c: c[rho]
    fu = lambda c: c[u]
    fp = lambda c: c[p]
    fe = lambda c: c[e]
    r = cx.p(rvar) if r_of is None else r_of(cx)
    R, U, P, E = cx[rho], cx[u], cx[p], cx[e]
    rho_t, rho_r = cx.d(frho, tvar), cx.d(frho, rvar)
    u_t, u_r = cx.d(fu, tvar), cx.d(fu, rvar)
    p_r = cx.d(fp, rvar)
    e_t, e_r = cx.d(fe, tvar), cx.d(fe, rvar)
    geo_mass = [k * R * U / r] if k else []
    t = cx.p(tvar)
    cx.zero(tag + 'mass', [rho_t, U * rho_r, R * u_r] + geo_mass, scale_extra=[R * U / r, R / t])
    cx.zero(tag + 'momentum', [u_t, U * u_r, p_r / R], scale_extra=[U / t, U * U / r, P / (R * r)])
    en = [R * e_t, R * U * e_r, P * u_r] + ([k * P * U / r] if k else [])
    if flux is not None:
        F = flux
        en = en + [cx.d(F, rvar)] + ([k * F(cx) / r] if k else [])
    cx.zero(tag + 'energy', en, scale_extra=[R * E / t, R * U * E / r, P * U / r])
    if flux_free is not None:
        # a heat flux with an arbitrary positive prefactor must be divergence-free by itself
        F = flux_free
        cx.zero(tag + 'flux-divergence', [cx.d(F, rvar)] + ([k * F(cx) / r] if k else []), scale_extra=[F(cx) / r])


def planar_euler_claims(cx, rho='density', u='velocity', p='pressure', e='specific_internal_energy',
                        xvar='x', tvar='t', tag=''):
    euler_claims(cx, 0, rho, u, p, e, rvar=xvar, tvar=tvar, tag=tag)
