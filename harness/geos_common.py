"""Symbolic run of the general-EOS 1-D Riemann driver (RiemannGenEOS.driver), shared by C01, C04, C09.

The driver is table based: two rarefaction tables from an ODE integration (r_int_call), two shock tables from a root
search per pressure (match_shocks), the star pressure from the crossing of the spliced P-U curves (bisect on the difference
of two np.interp), and the assembly of the regions by np.interp on position knots.  Everything of that runs as coded; only
  * scipy.integrate.ode is replaced by its contract: for the ideal-gas EOS flag the closed-form integral of the REAL right-hand
    side drdp_dudp (obligation `geos.ode_contract' proves d/dp of the closed form == the real RHS executed symbolically, and
    the initial condition); for other EOS flags arbitrary node values, monotone as any solution of that RHS is;
  * scipy.optimize.bisect by its contract f(x*) = 0, a <= x* <= b.
Tables are small (num_int_pts nodes) and the internal grid is empty (num_x_pts = 0): x = wave positions + user points, so the
values at the wave positions and at the fan nodes are exactly what the region assembly puts there.
"""
import sys
from fractions import Fraction

import numpy as np

from symx import terms as T
from symx import stubs
from symx.engine import SymReal, SymBool, term_of, current, lift, PathAbort
from symx.shim import sym_linspace
from . import common as H
from .common import K, Mode

RM = 'exactpack.solvers.riemann.riemann'
UM = 'exactpack.solvers.riemann.utils'
STATE = ('rl', 'ul', 'pl', 'rr', 'ur', 'pr')
NPTS = 2


def modules():
    return [H.mod(RM), H.mod(UM)]


class OdeStub(object):
    """scipy.integrate.ode used the way r_int_call uses it"""

    def __init__(self, f):
        self.f = f

    def set_initial_value(self, y, t=0.0):
        self.y0 = list(y)
        self.t0 = t
        self.y = np.array(list(y), dtype=object)
        self.t = t
        self.k = 0
        return self

    def set_f_params(self, *args):
        self.args = args
        return self

    def set_integrator(self, *a, **k):
        return self

    def successful(self):
        return True

    def integrate(self, tnew):
        g, sign, inst = self.args
        r0, u0 = self.y0
        p0 = self.t0
        self.k += 1
        ex = current()
        if inst.problem == 'igeos':
            # closed-form integral curve of the real RHS (proved by geos.ode_contract): isentrope + Riemann invariant.
            # tnew / p0 is a constant (the code's linspace): found numerically, and handed to the obligation as a claim
            # (`ratio_checks'), so a wrong guess cannot go unnoticed
            c = _const_ratio(tnew, p0)
            if c is None:
                r, u = closed_form(p0, r0, u0, g, sign, tnew, inst)
            else:
                checks = ex.notes.setdefault('ratio_checks', [])
                checks.append((tnew, p0 * c))
                gf = Fraction(term_of(g).args[0]) if isinstance(g, SymReal) else T.float_to_fraction(float(g))
                r, u = closed_form_const(p0, r0, u0, g, gf, sign, c, inst)
        else:
            # no closed form: ARBITRARY node values, monotone as every solution of the real RHS is (dr/dp = 1/c^2 > 0,
            # du/dp = sign/(rho c)); the same integration asked again on this path returns the same values
            cache = ex.notes.setdefault('ode_cache', {})
            key = (lift(p0), lift(r0), lift(u0), sign, lift(tnew))
            if key not in cache:
                r = ex.fresh('r_node')
                u = ex.fresh('u_node')
                rp, up = self.y
                ex.assume(T.gt(r.t, T.ZERO))
                ex.assume(T.lt(r.t, lift(rp)))
                if sign > 0:
                    ex.assume(T.lt(u.t, lift(up)))
                else:
                    ex.assume(T.gt(u.t, lift(up)))
                cache[key] = (r, u)
            r, u = cache[key]
        self.t = tnew
        self.y = np.array([r, u], dtype=object)
        return self.y


def _const_ratio(a, b):
    """Fraction c with a == c*b for all values of the variables (checked at three random points), else None"""
    import random
    ta, tb = lift(a), lift(b)
    names = T.free_vars([ta, tb])
    rnd = random.Random(7)
    cs = []
    for _ in range(3):
        env = {n: rnd.uniform(0.5, 2.0) for n in names}
        try:
            cs.append(T.evalf(ta, env) / T.evalf(tb, env))
        except Exception:
            return None
    if max(cs) - min(cs) > 1e-12 * abs(cs[0]):
        return None
    c = Fraction(cs[0]).limit_denominator(1000)
    if abs(float(c) - cs[0]) > 1e-12:
        return None
    return c


def closed_form(p0, r0, u0, g, sign, p, inst):
    """integral curve through (p0, r0, u0), as a function of p"""
    u_mod = H.mod(UM)
    a0 = u_mod.sound_speed(p0, r0, g, inst)
    r = r0 * (p / p0) ** (1 / g)
    u = u0 + sign * 2 / (g - 1) * a0 * ((p / p0) ** ((g - 1) / (2 * g)) - 1)
    return r, u


def const_power(c, e):
    """c**e for rational constants: exact when rational, otherwise a fresh symbol enclosed in a rational interval of
    relative width 2e-12 (an over-approximation: high-degree algebraic constants stall nlsat, and nothing claimed needs more
    than their position)"""
    t = T.pw(T.const(c), T.const(e))
    if t.op == 'const':
        return SymReal(t)
    ex = current()
    cache = ex.notes.setdefault('const_powers', {})
    key = (c, e)
    if key not in cache:
        k = ex.fresh('kpow')
        v = Fraction(float(c) ** float(e)).limit_denominator(10 ** 15)
        ex.assume(T.lt(T.const(v * (1 - Fraction(1, 10 ** 12))), k.t))
        ex.assume(T.lt(k.t, T.const(v * (1 + Fraction(1, 10 ** 12)))))
        cache[key] = k
    return cache[key]


def closed_form_const(p0, r0, u0, g, gf, sign, c, inst):
    """the same curve at p = c*p0, c a rational constant: powers of c are constants"""
    u_mod = H.mod(UM)
    a0 = u_mod.sound_speed(p0, r0, g, inst)
    c1 = const_power(c, 1 / gf)
    c2 = const_power(c, (gf - 1) / (2 * gf))
    r = r0 * c1
    u = u0 + sign * 2 / (g - 1) * a0 * (c2 - 1)
    return r, u


class _Integrate(object):
    ode = OdeStub


class ScipyProxy(object):
    integrate = _Integrate


def bisect_for(pattern, case=None, second='mirror'):
    """bisect contract; the star-pressure call additionally abandons the path when the root is not on the branches of
    `pattern' (e.g. 'RCR': px < pl and px < pr) -- each pattern has its own obligation; `case' = (iL, iR) further fixes the
    interval of each side's table that contains the root (every interval has its own obligation).
    A SECOND star-pressure call on the same path (the mirrored problem of the symmetry obligations) returns the same root
    and records the value of its own function there (`second_residual'): the obligation has to prove it zero."""

    def f(fun, a, b, *args, **kw):
        names = getattr(getattr(fun, '__code__', None), 'co_names', ())
        fr = sys._getframe(1)
        ex = current()
        nstar = len(ex.notes.get('geos_star', []))
        pat = pattern if (pattern is None or nstar == 0 or second == 'same') else pattern[::-1]
        if 'shock_jump' in names and pat is not None:
            side = 0 if fr.f_locals.get('sgn') == -1 else 2
            if pat[side] == 'R':
                # the shock table of a side whose wave is a rarefaction is never read below p*: any value in the bracket
                # (weaker contract, fewer equations for the solver)
                x = ex.fresh('rx_unused')
                ex.assume(T.le(lift(a), x.t))
                ex.assume(T.le(x.t, lift(b)))
                return x
        if 'shock_jump' in names or pat is None:
            return stubs.bisect_stub(fun, a, b, *args, **kw)
        if nstar:
            x = ex.notes['geos_star'][0]
            ex.note('second_residual', fun(x, *args))
            ex.note('geos_star', x)
            return x
        L = fr.f_locals
        pl, pr = L['pl'], L['pr']
        x = ex.fresh('root')
        ex.assume(T.le(lift(a), x.t))
        ex.assume(T.le(x.t, lift(b)))
        ex.assume(T.lt(x.t, lift(pl)) if pat[0] == 'R' else T.gt(x.t, lift(pl)))
        ex.assume(T.lt(x.t, lift(pr)) if pat[2] == 'R' else T.gt(x.t, lift(pr)))
        if case is not None:
            for idx, sd, p0 in ((0, 'left', pl), (2, 'right', pr)):
                if pat[idx] == 'R':
                    knots = list(L['integ_ps_' + sd]) + [p0]
                else:
                    knots = list(L['shock_ps_' + sd])
                i = case[idx // 2]
                ex.assume(T.lt(lift(knots[i]), x.t))
                ex.assume(T.lt(x.t, lift(knots[i + 1])))
        fx = fun(x, *args)
        ex.assume(T.eq(lift(fx), T.ZERO))
        ex.note('roots', x.t)
        ex.note('geos_star', x)
        return x
    return f


def linspace_ordered(*a, **k):
    """the driver's grid construction: Xregs are assumed strictly increasing from here on (wave ordering of the general-EOS
    tables is outside the claim: arbitrary tables do not imply it)"""
    fr = sys._getframe(1)
    X = fr.f_locals.get('Xregs')
    if X is not None and 'soln_type' in fr.f_locals:
        ex = current()
        L = fr.f_locals
        for i in range(len(X) - 1):
            ex.assume(T.lt(lift(X[i]), lift(X[i + 1])))
        # np.interp's precondition on the fan knots: the characteristic speed u -/+ c is monotone along each rarefaction
        # table including the interpolated star point (true on the exact wave curve of a convex EOS)
        u_mod = H.mod(UM)
        st = L['soln_type']
        for idx, sgn, sd, g in ((0, -1, 'left', L['gl']), (2, 1, 'right', L['gr'])):
            if st[idx] != 'R':
                continue
            ps, rs, us = L['ps_' + sd], L['rs_' + sd], L['us_' + sd]
            c = u_mod.sound_speed(ps, rs, g, L['self'])
            xr = L['xd0'] + L['t'] * ((us - c) if sgn < 0 else (us + c))       # spelled as the driver spells it
            for i in range(len(xr) - 1):
                ex.assume(T.lt(lift(xr[i]), lift(xr[i + 1])))
    return nice_linspace(*a, **k)


def nice_linspace(start, stop, num=50, endpoint=True, **kw):
    """np.linspace on symbolic end points as start*(1-f) + stop*f (zero end points dropped): simpler terms than
    start + (stop-start)*f, same value"""
    from symx.shim import is_sym
    if not (is_sym(start) or is_sym(stop) or isinstance(start, SymReal) or isinstance(stop, SymReal)):
        return sym_linspace(start, stop, num, endpoint=endpoint, **kw)
    num = int(num)
    out = np.empty(num, dtype=object)
    div = (num - 1) if endpoint else num
    for i in range(num):
        f = Fraction(i, div) if div else Fraction(0)
        v = 0
        if not (not isinstance(start, SymReal) and start == 0) and f != 1:
            v = start * (1 - f) if f != 0 else start
        if not (not isinstance(stop, SymReal) and stop == 0) and f != 0:
            w = stop * f if f != 1 else stop
            v = w if (not isinstance(v, SymReal) and v == 0) else v + w
        out[i] = v if isinstance(v, SymReal) else SymReal(T.const(Fraction(v)))
    return out


def shim_extra(pattern, case=None, second='mirror'):
    return {'min': stubs.sym_min, 'max': stubs.sym_max, 'print': H.quiet_print, 'scipy': ScipyProxy,
            'bisect': bisect_for(pattern, case, second), 'linspace': linspace_ordered}


def make(mk, gl, gr, problem='igeos', n=NPTS, state=None, **kw):
    m = H.mod(RM)
    st = state or {k: mk(k) for k in STATE}
    xd0, t = mk('xd0'), mk('t')
    a = dict(st)
    a.update(gl=K(mk, gl), gr=K(mk, gr), xd0=xd0, xmin=xd0 - 1, xmax=xd0 + 1, t=t, num_x_pts=0, num_int_pts=n,
             problem=problem)
    a.update(kw)
    return m.RiemannGenEOS(**a), st, xd0, t


def tables(prob, side):
    """the rarefaction table of one side through the real r_int_call: (ps, rs, us), increasing pressure"""
    u = H.mod(UM)
    if side == 'L':
        return u.r_int_call([prob.rl, prob.ul, prob.pl], [prob.gl, -1], 0., prob)
    return u.r_int_call([prob.rr, prob.ur, prob.pr], [prob.gr, 1], 0., prob)


def value_at(prob, xq):
    """(p, r, u, e) of the driver's arrays at the grid point that IS the user point xq"""
    x = prob.x
    if isinstance(xq, SymReal):
        for i in range(len(x)):
            if x[i] is xq:
                return prob.p[i], prob.r[i], prob.u[i], prob.e[i]
        raise RuntimeError('user point not in the grid')
    i = int(np.argmin(np.abs(np.asarray(x, dtype=float) - float(xq))))
    return prob.p[i], prob.r[i], prob.u[i], prob.e[i]


def domain(V, generic=False):
    d = [T.gt(V('rl'), T.ZERO), T.gt(V('pl'), T.ZERO), T.gt(V('rr'), T.ZERO), T.gt(V('pr'), T.ZERO), T.gt(V('t'), T.ZERO)]
    d.append(T.lnot(T.land(T.eq(V('pl'), V('pr')), T.eq(V('rl'), V('rr')), T.eq(V('ul'), V('ur')))))
    if generic:
        d.append(T.lnot(T.eq(V('pl'), V('pr'))))
    return d
