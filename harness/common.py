"""Shared harness helpers: building solver objects with symbolic / concrete parameters,
the catalogue of closed-form 1-D solvers (documented parameter domains, EOS constants)."""
import importlib
from fractions import Fraction

import numpy as np

from symx import terms as T
from symx.engine import SymReal, SymBool, sym, term_of
from symx.framework import Obligation, V
from symx.shim import Recorder

G_QUICK = [Fraction(7, 5), Fraction(5, 3), Fraction(3)]
G_FULL = [Fraction(6, 5), Fraction(7, 5), Fraction(5, 3), Fraction(2), Fraction(3)]


SYM_INPUT_ARRAYS = False      # obligations that opt in get input arrays whose comparisons give boolean masks (engine.SymArr)


def arr(values):
    """1-D array of inputs: object dtype when symbolic, float otherwise."""
    values = list(values)
    if any(isinstance(v, SymReal) for v in values):
        a = np.empty(len(values), dtype=object)
        for i, v in enumerate(values):
            a[i] = v
        if SYM_INPUT_ARRAYS:
            from symx.engine import SymArr
            return a.view(SymArr)
        return a
    return np.array([float(v) for v in values], dtype=float)


def mat(rows):
    rows = [list(r) for r in rows]
    if any(isinstance(v, SymReal) for r in rows for v in r):
        a = np.empty((len(rows), len(rows[0])), dtype=object)
        for i, r in enumerate(rows):
            for j, v in enumerate(r):
                a[i, j] = v
        return a
    return np.array([[float(v) for v in r] for r in rows], dtype=float)


def num(x):
    """constant usable in both modes: Fractions become floats when the inputs are floats"""
    return x


def cval(mk_value, const):
    """a constant of the harness (Fraction) in the arithmetic of the current mode"""
    if isinstance(mk_value, SymReal):
        return SymReal(T.const(const))
    return float(const)


def fields(sol):
    """{name: array} from a Recorder (symbolic run) or a real ExactSolution (replay)."""
    if isinstance(sol, Recorder):
        return dict(zip(sol.names, sol.data))
    return {n: np.asarray(sol[n]) for n in sol.dtype.names}


def first(d):
    """pointwise view: element 0 of every field"""
    out = {}
    for k, v in d.items():
        a = np.asarray(v, dtype=object) if not isinstance(v, np.ndarray) else v
        out[k] = a.ravel()[0] if a.ndim else a.item()
    return out


def new_solver(cls, attrs):
    """Instance with attributes set directly (constructor validation skipped: the
    admissible domain is stated by the obligation instead)."""
    s = cls.__new__(cls)
    for k, v in attrs.items():
        setattr(s, k, v)
    s.verbose = False
    return s


def mod(name):
    return importlib.import_module(name)


def quiet_print(*a, **k):
    return None


def C(x):
    return T.const(x)


def dom_pos(*names):
    return [T.gt(V(n), T.ZERO) for n in names]


def gval(mk, name, value):
    """gamma slicing: a sliced parameter is a concrete Fraction in symbolic mode (exact) and a
    float in concrete mode"""
    probe = mk('__mode_probe__') if False else None
    return value


class Mode(object):
    """helper to find out whether mk() produces symbols"""
    @staticmethod
    def symbolic(mk):
        return hasattr(mk, 'vals')


def K(mk, fr):
    """harness constant (Fraction) in the current mode's arithmetic"""
    if Mode.symbolic(mk):
        return SymReal(T.const(Fraction(fr)))
    return float(Fraction(fr))


# ------------------------------------------------------------------ Coggeshall catalogue
# name -> (module, class, geometries, symbolic parameters, gamma rule, domain)
# gamma rule: 'param' (self.gamma) or a function k -> Fraction (documented in the docstring)

def _g3(k):   # cog3
    return Fraction(k - 1, k + 1)


def _g6(k):   # cog6, 7, 18
    return Fraction(k + 3, k + 1)


COG = {
    'Cog1': dict(geoms=[1, 2, 3], params=['gamma', 'rho0', 'temp0', 'b', 'Gamma'], gamma='param'),
    'Cog2': dict(geoms=[1, 2, 3], params=['gamma', 'rho0', 'b', 'Gamma'], gamma='param'),
    'Cog3': dict(geoms=[1, 2, 3], params=['rho0', 'b', 'v', 'Gamma'], gamma=_g3),
    'Cog4': dict(geoms=[1, 2, 3], params=['gamma', 'rho0', 'u0', 'Gamma'], gamma='param'),
    'Cog5': dict(geoms=[None], params=['rho0', 'u0', 'Gamma'], gamma=lambda k: Fraction(1, 2), k=2),
    'Cog6': dict(geoms=[1, 2, 3], params=['rho0', 'tau', 'b', 'Gamma'], gamma=_g6),
    'Cog7': dict(geoms=[1, 2, 3], params=['tau', 'b', 'R0', 'Ri', 'Gamma'], gamma=_g6),
    'Cog8': dict(geoms=[1, 2, 3], params=['gamma', 'alpha', 'beta', 'rho0', 'temp0', 'Gamma'], gamma='param'),
    'Cog9': dict(geoms=[1, 2, 3], params=['gamma', 'alpha', 'beta', 'rho0', 'Gamma'], gamma='param'),
    'Cog10': dict(geoms=[2, 3], params=['gamma', 'beta', 'lambda0', 'rho0', 'temp0', 'Gamma'], gamma='param'),
    'Cog11': dict(geoms=[1, 2, 3], params=['gamma', 'beta', 'rho0', 'temp0', 'Gamma'], gamma='param'),
    'Cog12': dict(geoms=[2, 3], params=['gamma', 'beta', 'rho0', 'u0', 'Gamma'], gamma='param'),
    'Cog13': dict(geoms=[1, 2, 3], params=['gamma', 'rho0', 'alpha', 'beta', 'lambda0', 'Gamma'], gamma='param'),
    'Cog14': dict(geoms=[2, 3],   # geometry 1: temp0 = -1/Gamma < 0 under a real power (no real solution; see C20)
              params=['gamma', 'rho0', 'alpha', 'beta', 'lambda0', 'Gamma'], gamma='param'),
    'Cog16': dict(geoms=[2, 3], params=['gamma', 'u0', 'b', 'lambda0', 'Gamma'], gamma='param'),
    'Cog17': dict(geoms=[1, 2, 3], params=['gamma', 'alpha', 'beta', 'lambda0', 'Gamma'], gamma='param'),
    'Cog18': dict(geoms=[1, 2, 3], params=['alpha', 'beta', 'rho0', 'tau', 'Gamma'], gamma=_g6),
    'Cog19': dict(geoms=[1, 2, 3], params=['gamma', 'rho0', 'u0', 'Gamma'], gamma='param'),
    'Cog20': dict(geoms=[1, 2, 3], params=['gamma', 'rho0', 'u0', 'a', 'Gamma'], gamma='param'),
    'Cog21': dict(geoms=[None], params=['rho0', 'temp0', 'Gamma'], gamma=lambda k: Fraction(5), k=2),
}


def cog_class(name):
    m = mod('exactpack.solvers.cog.' + name.lower())
    return m, getattr(m, name)


def cog_gamma(name, geom, mk):
    """the adiabatic index the solver documents for itself"""
    rule = COG[name]['gamma']
    if rule == 'param':
        return mk('gamma')
    k = COG[name].get('k', None)
    if k is None:
        k = geom - 1
    return K(mk, rule(k))


def run_1d(solver, mk, rnames=('r',), tname='t'):
    """call solver(r, t) through the public __call__ and return {field: array}"""
    r = arr([mk(n) for n in rnames])
    sol = solver(r, mk(tname))
    return fields(sol)


def capture_locals(func_code_owner, call):
    """Run call() (real code, concrete mode) and return the local variables of the last invocation of the
    function `func_code_owner' at the moment it returned (profile hook).  Used to read quantities that a
    function computes but does not return; the symbolic runs get the same quantities through cut_here."""
    import sys
    code = func_code_owner.__code__
    box = {}

    def prof(frame, event, arg):
        if event == 'return' and frame.f_code is code:
            box['locals'] = dict(frame.f_locals)
    old = sys.getprofile()
    sys.setprofile(prof)
    try:
        res = call()
    finally:
        sys.setprofile(old)
    return res, box.get('locals', {})


class ModProxy(object):
    """stand-in for a module alias (e.g. `sci_opt`): attributes from `over' first, then the real module"""

    def __init__(self, real, **over):
        self.__dict__['_real'] = real
        self.__dict__['_over'] = over

    def __getattr__(self, name):
        o = self.__dict__['_over']
        if name in o:
            return o[name]
        return getattr(self.__dict__['_real'], name)


class Sub(object):
    """mk wrapper that overrides some inputs but keeps the symbolic/concrete mode marker"""

    def __init__(self, mk, fn):
        self.mk = mk
        self.fn = fn
        if hasattr(mk, 'vals'):
            self.vals = mk.vals

    def __call__(self, name):
        return self.fn(name)


def choose(mk, name, n):
    """a symbolic choice among n alternatives: the index is a symbolic variable; the explorer forks on (index == k) and the
    solver decides which alternatives are feasible -- every alternative becomes its own path.  Replay: the float index."""
    v = mk(name)
    if isinstance(v, SymReal):
        from symx.engine import PathAbort
        for k in range(n):
            if bool(v == k):
                return k
        raise PathAbort()
    return int(round(float(v))) % n
