"""C10 -- self-similar problems return self-similar fields with the documented exponents."""
from fractions import Fraction
import numpy as np

from symx import terms as T
from symx.framework import Obligation, V
from symx.engine import SymReal, SymBool, term_of
from symx.shim import Recorder
from . import common as H
from . import riemann_common as R
from . import sedov_common as S
from . import ehep_common as E
from .common import K, Mode

EXPLANATION = ('Two-time relational symbolic execution: the real solver is run at (x, t) and at the similarity image '
               '(s x, s t) (s > 0 symbolic; for Sedov at t and s t) in one solver context and z3 decides that the outputs are '
               'related by the documented similarity map on every pair of feasible paths.')
BOUNDS = ['one evaluation point; geometry enumerated; gamma sliced for Riemann/Sedov']
OUTSIDE = ['Sedov interior profile (fminbound/interp1d numerics): only the shock trajectory and post-shock amplitudes and the fact '
           'that the similarity functions take dimensionless arguments', 'Guderley: see C10.guderley obligations']
ASSUMPTIONS = ['Riemann: unique star-pressure root (the root function is shown to be time-independent)']
META = {
    'level_text': ('Bounded relational symbolic check on the real code: fields at (x,t) and at the similarity image are equal '
                   '(Noh, Cog19, Riemann wave table and fans, EHEP, Mader incl. cell size) or differ by the documented powers of '
                   'the time ratio (Sedov shock radius and post-shock amplitudes), for all real inputs on every path pair.'),
    'level_note': 'Trusted: z3; symx proxies/shims/stubs; the similarity maps written in harness/C10.py.',
}


class XoverT(Obligation):
    """closed-form 1-D solvers depending on r/t only"""

    def __init__(self, name, geom):
        self.name, self.geom = name, geom
        if name == 'Noh':
            self.m = H.mod('exactpack.solvers.noh.noh1')
            self.cls = self.m.Noh
            self.params = ['gamma', 'u0', 'rho0']
        else:
            self.m, self.cls = H.cog_class(name)
            self.params = H.COG[name]['params']
        self.id = 'C10.%s.g%d' % (name.lower(), geom)
        self.modules = [self.m]
        self.extra_shim = {'ExactSolution': Recorder, 'print': H.quiet_print}
        self.functions = [self.cls._run]
        self.bounds = 'all real parameters, r, t and the scale s>0 symbolic; geometry fixed'
        self.skip_validation = True

    def build(self, mk):
        attrs = {p: mk(p) for p in self.params}
        attrs['geometry'] = self.geom
        s = H.new_solver(self.cls, attrs)
        a = H.first(H.run_1d(s, mk))
        sc = mk('s')
        b = H.first(H.run_1d(s, lambda n: mk(n) * sc if n in ('r', 't') else mk(n)))
        out = {}
        for k in a:
            if k == 'position':
                continue
            out['a_' + k] = a[k]
            out['b_' + k] = b[k]
        return out

    def domain(self, V):
        d = [T.gt(V('r'), T.ZERO), T.gt(V('t'), T.ZERO), T.gt(V('s'), T.ZERO), T.gt(V('rho0'), T.ZERO), T.gt(V('gamma'), T.ONE),
             T.lt(V('u0'), T.ZERO)]
        if self.name != 'Noh':
            d.append(T.gt(V('Gamma'), T.ZERO))
        return d

    def claims(self, cx):
        for k in sorted(cx.out if cx.symbolic else cx._run()):
            if k.startswith('a_'):
                cx.eq('%s(s r, s t) = %s(r, t)' % (k[2:], k[2:]), cx['b_' + k[2:]], cx[k])


class RiemannScale(Obligation):
    def __init__(self, gl, gr):
        self.gl, self.gr = gl, gr
        self.id = 'C10.riemann.waves.gl=%s.gr=%s' % (gl, gr)
        self.modules = R.modules()
        self.extra_shim = R.shim_extra()
        m = H.mod(R.UM)
        self.functions = [H.mod(R.RM).RiemannIGEOS.driver]
        self.bounds = 'states, membrane position, two times t and s t symbolic; gamma pair fixed; all wave-pattern path pairs'
        self.max_paths = 400
        self.timeout_s = 20
        self.skip_validation = True

    def build(self, mk):
        A = R.run_driver(mk, self.gl, self.gr)
        st = {k: A[k] for k in R.STATE}
        B = R.run_driver(mk, self.gl, self.gr, state=st, xd0=A['xd0'], t=A['t'] * mk('s'))
        u = H.mod(R.UM)
        pp = mk('pp')
        d = R.flat(A, 'A_')
        d.update(R.flat(B, 'B_'))
        d['fA'] = getattr(u, A['pattern'] + '_call')(pp, A['inst'])
        d['fB'] = getattr(u, B['pattern'] + '_call')(pp, B['inst'])
        d['s'] = mk('s')
        return d

    def domain(self, V):
        return R.domain(V) + [T.gt(V('pp'), T.ZERO), T.gt(V('s'), T.ZERO)]

    def claims(self, cx):
        pa, pb = cx['A__pattern'], cx['B__pattern']
        if pa != pb:
            cx.true('wave pattern %s at t but %s at s t' % (pa, pb), False if not cx.symbolic else SymBool(T.FALSE))
            return
        cx.eq(pa + ': star-pressure function independent of t', cx['fA'], cx['fB'])
        same = (cx['A_px'] == cx['B_px']) if cx.symbolic else (abs(cx['A_px'] - cx['B_px']) < 1e-8 * abs(cx['A_px']))
        n = cx['A_nVregs']
        for i in range(n):
            cx.eq(pa + ': V[%d] independent of t' % i, cx['B_Vregs%d' % i], cx['A_Vregs%d' % i], when=same)
            cx.eq(pa + ': X[%d]-xd0 scales with t' % i, cx['B_Xregs%d' % i] - cx['A_xd0'], cx['s'] * (cx['A_Xregs%d' % i] - cx['A_xd0']), when=same)
        for k in ('ux', 'rx1', 'rx2', 'ex1', 'ex2'):
            cx.eq(pa + ': %s independent of t' % k, cx['B_' + k], cx['A_' + k], when=same)


class FanScale(Obligation):
    def __init__(self, side, g):
        self.side, self.g = side, g
        self.id = 'C10.riemann.fan.%s.gamma=%s' % (side, g)
        self.modules = R.modules()
        self.extra_shim = R.shim_extra(cut=False)
        self.functions = [H.mod(R.UM).rho_p_u_rarefaction]
        self.bounds = 'outer state, x, xd0, t, s symbolic; gamma fixed'
        self.skip_validation = True

    def build(self, mk):
        m = H.mod(R.RM)
        u = H.mod(R.UM)
        g = K(mk, self.g)
        other = dict(rl=mk('r0') * 2, ul=mk('u0') + 1, pl=mk('p0') * 3) if self.side == 'R' else \
            dict(rr=mk('r0') * 2, ur=mk('u0') + 1, pr=mk('p0') * 3)
        mine = dict(rl=mk('r0'), ul=mk('u0'), pl=mk('p0')) if self.side == 'L' else dict(rr=mk('r0'), ur=mk('u0'), pr=mk('p0'))
        kw = dict(other)
        kw.update(mine)
        kw.update(gl=g, gr=g, xd0=mk('xd0'), t=mk('t'), num_x_pts=2)
        inst = m.RiemannIGEOS(**kw)
        x, t, xd0, s = mk('x'), mk('t'), mk('xd0'), mk('s')
        a = u.rho_p_u_rarefaction(mk('p0'), mk('r0'), mk('u0'), g, x, xd0, t, inst)
        b = u.rho_p_u_rarefaction(mk('p0'), mk('r0'), mk('u0'), g, xd0 + s * (x - xd0), xd0, s * t, inst)
        return {'a_density': a[0], 'a_pressure': a[1], 'a_velocity': a[2], 'b_density': b[0], 'b_pressure': b[1], 'b_velocity': b[2]}

    def domain(self, V):
        return [T.gt(V('r0'), T.ZERO), T.gt(V('p0'), T.ZERO), T.gt(V('t'), T.ZERO), T.gt(V('s'), T.ZERO)]

    def claims(self, cx):
        for k in ('density', 'pressure', 'velocity'):
            cx.eq('fan %s depends on (x-xd0)/t only' % k, cx['b_' + k], cx['a_' + k])


class EHEPScale(Obligation):
    def __init__(self):
        self.m = H.mod(E.EM)
        self.id = 'C10.ehep.regionI'
        self.modules = [self.m]
        self.extra_shim = E.shim_extra()
        self.functions = [self.m.EscapeOfHEProducts._run]
        self.bounds = 'D, rho_0, up, xtilde, xmax, tmax, x, t, s symbolic; both points inside region I'
        self.max_paths = 300
        self.skip_validation = True

    def build(self, mk):
        from symx.engine import PathAbort
        a, _ = E.run(mk)
        if Mode.symbolic(mk) and a['_region'] != 'I':
            raise PathAbort()
        s = mk('s')
        b, _ = E.run(mk, x=mk('x') * s, t=mk('t') * s)
        if Mode.symbolic(mk) and b['_region'] != 'I':
            raise PathAbort()
        out = {'_ra': a['_region'], '_rb': b['_region']}
        for k in ('density', 'pressure', 'velocity', 'sound_speed', 'specific_internal_energy'):
            out['a_' + k] = a[k]
            out['b_' + k] = b[k]
        return out

    def domain(self, V):
        return E.domain(V) + [T.gt(V('s'), T.ZERO)]

    def claims(self, cx):
        if cx['_ra'] != 'I' or cx['_rb'] != 'I':
            return
        for k in ('density', 'pressure', 'velocity', 'sound_speed', 'specific_internal_energy'):
            cx.eq('region I %s depends on x/t only' % k, cx['b_' + k], cx['a_' + k])


class MaderScale(Obligation):
    def __init__(self, gamma):
        self.gamma = gamma
        self.m = H.mod('exactpack.solvers.mader.rarefaction')
        self.id = 'C10.mader.gamma=%s' % gamma
        self.modules = [self.m]
        self.functions = [self.m.rare]
        self.bounds = 'time, x, dx, p_cj, d_cj, u_piston and the scale s symbolic (x, t and the cell size scaled together); gamma fixed; all three branches'
        self.max_paths = 100
        self.skip_validation = True
        self.timeout_s = 12
        self.timeout_thorough_s = 900

    def build(self, mk):
        g = K(mk, self.gamma)
        s = mk('s')
        a = self.m.rare(mk('time'), mk('xlab'), mk('dx'), mk('p_cj'), mk('d_cj'), g, mk('u_piston'))
        b = self.m.rare(mk('time') * s, mk('xlab') * s, mk('dx') * s, mk('p_cj'), mk('d_cj'), g, mk('u_piston'))
        names = ('velocity', 'pressure', 'sound_speed', 'density')
        out = {}
        for i, n in enumerate(names):
            out['a_' + n] = a[i]
            out['b_' + n] = b[i]
        return out

    def domain(self, V):
        return [T.gt(V(n), T.ZERO) for n in ('time', 'dx', 'p_cj', 'd_cj', 's')] + [T.ge(V('u_piston'), T.ZERO)]

    def claims(self, cx):
        for n in ('velocity', 'pressure', 'sound_speed', 'density'):
            cx.eq('%s at (s x, s t, s dx) = at (x, t, dx)' % n, cx['b_' + n], cx['a_' + n])


class SedovScale(Obligation):
    def __init__(self, geom, gamma):
        self.geom, self.gamma = geom, gamma
        self.id = 'C10.sedov.g%d.gamma=%s' % (geom, gamma)
        self.modules = [H.mod(S.SM)]
        self.extra_shim = S.shim_extra()
        self.functions = [H.mod(S.SM).Sedov._run]
        self.bounds = 'rho0, eblast, omega, t, s symbolic; gamma fixed; alpha a free symbol (the same in both runs)'
        self.max_paths = 200
        self.skip_validation = True

    def build(self, mk):
        a, sa = S.jump_block(mk, self.geom, self.gamma)
        s = mk('s')
        b, sb = S.jump_block(H.Sub(mk, lambda n: mk('t') * s if n == 't' else mk(n)), self.geom, self.gamma)
        out = {'s': s, 'xg2': a['xg2'], 'omega': mk('omega'), 'alpha_a': a['alpha'], 'alpha_b': b['alpha']}
        for k in ('r2', 'rho2', 'u2', 'p2', 'rho1', 'us'):
            out['a_' + k] = a[k]
            out['b_' + k] = b[k]
        return out

    def domain(self, V):
        return S.domain(V, self.geom) + [T.gt(V('s'), T.ZERO)]

    def claims(self, cx):
        same = (cx['alpha_a'] == cx['alpha_b']) if cx.symbolic else True
        s, xg2, om = cx['s'], cx['xg2'], cx['omega']
        lam = s ** (2 / xg2)                       # r_shock ratio
        cx.eq('r_shock(s t) = s^(2/(k+2-omega)) r_shock(t)', cx['b_r2'], lam * cx['a_r2'], when=same)
        cx.eq('post-shock density ~ t^(-omega 2/(k+2-omega))', cx['b_rho2'], cx['a_rho2'] * lam ** (-om), when=same)
        cx.eq('post-shock velocity ~ r_shock/t', cx['b_u2'] * s, cx['a_u2'] * lam, when=same)
        cx.eq('post-shock pressure ~ rho (r_shock/t)^2', cx['b_p2'] * s * s, cx['a_p2'] * lam ** (-om) * lam * lam, when=same)


class GuderleyScale(Obligation):
    replay_limit_s = 300        # the real Guderley solve takes 20-40 s on an idle core, several times that under load
    def __init__(self, n, gamma):
        from . import guderley_common as G
        self.G = G
        self.n, self.gamma = n, gamma
        self.id = 'C10.guderley.n%d.gamma=%s' % (n, gamma)
        self.m = H.mod(G.GM)
        self.modules = [self.m]
        self.extra_shim = G.shim_extra()
        self.functions = [self.m.state]
        self.bounds = 'r, rho0, lambda, B, x and the radius ratio s symbolic; gamma fixed; both evaluations at the same similarity coordinate x = t_L/r^lambda'
        self.skip_validation = True
        self.max_paths = 200
        self.replay_tol = 1e-5

    def build(self, mk):
        if Mode.symbolic(mk):
            a = self.G.run_state(mk, self.n, self.gamma)
            b = self.G.run_state(mk, self.n, self.gamma, r=mk('r') * mk('s'))
            out = {'s': mk('s'), 'lam': mk('lam')}
            for k in a:
                out['a_' + k] = a[k]
                out['b_' + k] = b[k]
            return out
        # replay on the real numerics: the similarity exponent and the reflected-shock position are the ones the code
        # itself computes for this gamma; one similarity coordinate in each branch of state(); the worst case is returned
        m = self.m
        g = float(Fraction(self.gamma))
        lam = m.eexp(self.n, g)
        B = m.get_shock_position(self.n, g, lam)
        r, s_, rho0 = abs(float(mk('r'))) + 0.1, abs(float(mk('s'))) + 0.1, abs(float(mk('rho0'))) + 0.1
        names = ('density', 'velocity', 'pressure', 'sound_speed', 'specific_internal_energy')
        worst, best = -1.0, None
        for x in (-0.5, 0.5 * B, 2.0 * B):
            a = dict(zip(names, m.state(r, rho0, self.n, g, lam, B, x)))
            b = dict(zip(names, m.state(r * s_, rho0, self.n, g, lam, B, x)))
            f1 = s_ ** (1 - lam)
            dev = max(abs(b['pressure'] - a['pressure'] * f1 * f1) / max(abs(b['pressure']), 1e-300),
                      abs(b['specific_internal_energy'] - a['specific_internal_energy'] * f1 * f1) / max(abs(b['specific_internal_energy']), 1e-300),
                      abs(b['velocity'] - a['velocity'] * f1) / max(abs(b['velocity']), 1e-300),
                      abs(b['density'] - a['density']) / max(abs(b['density']), 1e-300))
            if dev > worst:
                worst = dev
                best = {'s': s_, 'lam': lam}
                for k in a:
                    best['a_' + k] = a[k]
                    best['b_' + k] = b[k]
        return best

    def domain(self, V):
        return [T.gt(V('r'), T.ZERO), T.gt(V('rho0'), T.ZERO), T.gt(V('lam'), T.ONE), T.gt(V('B'), T.ZERO), T.ne(V('x'), T.ZERO),
                T.gt(V('s'), T.ZERO)]

    def claims(self, cx):
        s, lam = cx['s'], cx['lam']
        f1 = s ** (1 - lam)
        cx.eq('density at fixed x independent of r', cx['b_density'], cx['a_density'])
        cx.eq('velocity ~ r^(1-lambda)', cx['b_velocity'], cx['a_velocity'] * f1)
        cx.eq('sound speed ~ r^(1-lambda)', cx['b_sound_speed'], cx['a_sound_speed'] * f1)
        cx.eq('pressure ~ r^(2-2 lambda)', cx['b_pressure'], cx['a_pressure'] * f1 * f1)
        cx.eq('specific internal energy ~ r^(2-2 lambda)', cx['b_specific_internal_energy'], cx['a_specific_internal_energy'] * f1 * f1)


def obligations(tier):
    obs = []
    for g in (1, 2, 3):
        obs.append(XoverT('Noh', g))
        obs.append(XoverT('Cog19', g))
    pairs = R.GAMMA_PAIRS_QUICK if tier == 'quick' else R.GAMMA_PAIRS_FULL
    for gl, gr in pairs:
        obs.append(RiemannScale(gl, gr))
    gams = H.G_QUICK if tier == 'quick' else H.G_FULL
    for g in gams:
        obs.append(FanScale('L', g))
        obs.append(FanScale('R', g))
        obs.append(MaderScale(g))
    obs.append(EHEPScale())
    for n in (2, 3):
        for gam in ([Fraction(7, 5)] if tier == 'quick' else H.G_FULL):
            obs.append(GuderleyScale(n, gam))
    for g in (1, 2, 3):
        for gam in ([Fraction(7, 5)] if tier == 'quick' else H.G_FULL):
            obs.append(SedovScale(g, gam))
    return obs
