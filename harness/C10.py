"""C10 -- self-similar problems return self-similar fields with the documented exponents."""
from fractions import Fraction
import numpy as np

from symx import terms as T
from symx.framework import Obligation, V
from symx.engine import SymReal, SymBool, term_of
from symx.shim import Recorder
from . import common as H
from . import riemann_common as R
from . import sedov_common as S
from . import ehep_common as E
from .common import K, Mode

EXPLANATION = ('Two-time relational symbolic execution: the real solver is run at (x, t) and at the similarity image '
               '(s x, s t) (s > 0 symbolic; for Sedov at t and s t) in one solver context and z3 decides that the outputs are '
               'related by the documented similarity map on every pair of feasible paths.  Sedov interior: the whole _run on a 2-point '
               'internal table (fminbound -> fresh value, interp1d exact at nodes) in infinitesimal form, generator D = t d/dt + a0 r d/dr: '
               'D r_shock = a0 r_shock, the lambda handed to fminbound is r/r_shock, the similarity functions at fixed v do not depend on '
               '(r, t), D rho = -omega a0 rho, D u = (a0-1) u, D p = (-omega a0 + 2(a0-1)) p.  General-EOS wrapper: a call at t after an '
               'earlier call at another time returns the interpolant of the self-similar table xd0 + t w_k of this t (stub driver).')
BOUNDS = ['one evaluation point; geometry enumerated; gamma sliced for Riemann/Sedov']
OUTSIDE = ['Sedov interior: accuracy of the fminbound inversion and of the interpolation between the 3001 internal table points '
           '(the check runs the same code on a 2-point table whose node is the user point)', 'Guderley: see C10.guderley obligations']
ASSUMPTIONS = ['Riemann: unique star-pressure root (the root function is shown to be time-independent)']
META = {
    'level_text': ('Bounded relational symbolic check on the real code: fields at (x,t) and at the similarity image are equal '
                   '(Noh, Cog19, Riemann wave table and fans, EHEP, Mader incl. cell size) or differ by the documented powers of '
                   'the time ratio (Sedov shock radius and post-shock amplitudes; Sedov interior fields in infinitesimal form through the '
                   'whole _run on a 2-point table), for all real inputs on every path pair.'),
    'level_note': 'Trusted: z3; symx proxies/shims/stubs; the similarity maps written in harness/C10.py.',
}


class XoverT(Obligation):
    """closed-form 1-D solvers depending on r/t only"""

    def __init__(self, name, geom):
        self.name, self.geom = name, geom
        if name == 'Noh':
            self.m = H.mod('exactpack.solvers.noh.noh1')
            self.cls = self.m.Noh
            self.params = ['gamma', 'u0', 'rho0']
        else:
            self.m, self.cls = H.cog_class(name)
            self.params = H.COG[name]['params']
        self.id = 'C10.%s.g%d' % (name.lower(), geom)
        self.modules = [self.m]
        self.extra_shim = {'ExactSolution': Recorder, 'print': H.quiet_print}
        self.functions = [self.cls._run]
        self.bounds = 'all real parameters, r, t and the scale s>0 symbolic; geometry fixed'
        self.skip_validation = True

    def build(self, mk):
        attrs = {p: mk(p) for p in self.params}
        attrs['geometry'] = self.geom
        s = H.new_solver(self.cls, attrs)
        a = H.first(H.run_1d(s, mk))
        sc = mk('s')
        b = H.first(H.run_1d(s, lambda n: mk(n) * sc if n in ('r', 't') else mk(n)))
        out = {}
        for k in a:
            if k == 'position':
                continue
            out['a_' + k] = a[k]
            out['b_' + k] = b[k]
        return out

    def domain(self, V):
        d = [T.gt(V('r'), T.ZERO), T.gt(V('t'), T.ZERO), T.gt(V('s'), T.ZERO), T.gt(V('rho0'), T.ZERO), T.gt(V('gamma'), T.ONE),
             T.lt(V('u0'), T.ZERO)]
        if self.name != 'Noh':
            d.append(T.gt(V('Gamma'), T.ZERO))
        return d

    def claims(self, cx):
        for k in sorted(cx.out if cx.symbolic else cx._run()):
            if k.startswith('a_'):
                cx.eq('%s(s r, s t) = %s(r, t)' % (k[2:], k[2:]), cx['b_' + k[2:]], cx[k])


class RiemannScale(Obligation):
    def __init__(self, gl, gr):
        self.gl, self.gr = gl, gr
        self.id = 'C10.riemann.waves.gl=%s.gr=%s' % (gl, gr)
        self.modules = R.modules()
        self.extra_shim = R.shim_extra()
        m = H.mod(R.UM)
        self.functions = [H.mod(R.RM).RiemannIGEOS.driver]
        self.bounds = 'states, membrane position, two times t and s t symbolic; gamma pair fixed; all wave-pattern path pairs'
        self.max_paths = 400
        self.timeout_s = 20
        self.skip_validation = True

    def build(self, mk):
        A = R.run_driver(mk, self.gl, self.gr)
        st = {k: A[k] for k in R.STATE}
        B = R.run_driver(mk, self.gl, self.gr, state=st, xd0=A['xd0'], t=A['t'] * mk('s'))
        u = H.mod(R.UM)
        pp = mk('pp')
        d = R.flat(A, 'A_')
        d.update(R.flat(B, 'B_'))
        d['fA'] = getattr(u, A['pattern'] + '_call')(pp, A['inst'])
        d['fB'] = getattr(u, B['pattern'] + '_call')(pp, B['inst'])
        d['s'] = mk('s')
        return d

    def domain(self, V):
        return R.domain(V) + [T.gt(V('pp'), T.ZERO), T.gt(V('s'), T.ZERO)]

    def claims(self, cx):
        pa, pb = cx['A__pattern'], cx['B__pattern']
        if pa != pb:
            cx.true('wave pattern %s at t but %s at s t' % (pa, pb), False if not cx.symbolic else SymBool(T.FALSE))
            return
        cx.eq(pa + ': star-pressure function independent of t', cx['fA'], cx['fB'])
        same = (cx['A_px'] == cx['B_px']) if cx.symbolic else (abs(cx['A_px'] - cx['B_px']) < 1e-8 * abs(cx['A_px']))
        n = cx['A_nVregs']
        for i in range(n):
            cx.eq(pa + ': V[%d] independent of t' % i, cx['B_Vregs%d' % i], cx['A_Vregs%d' % i], when=same)
            cx.eq(pa + ': X[%d]-xd0 scales with t' % i, cx['B_Xregs%d' % i] - cx['A_xd0'], cx['s'] * (cx['A_Xregs%d' % i] - cx['A_xd0']), when=same)
        for k in ('ux', 'rx1', 'rx2', 'ex1', 'ex2'):
            cx.eq(pa + ': %s independent of t' % k, cx['B_' + k], cx['A_' + k], when=same)


class FanScale(Obligation):
    def __init__(self, side, g):
        self.side, self.g = side, g
        self.id = 'C10.riemann.fan.%s.gamma=%s' % (side, g)
        self.modules = R.modules()
        self.extra_shim = R.shim_extra(cut=False)
        self.functions = [H.mod(R.UM).rho_p_u_rarefaction]
        self.bounds = 'outer state, x, xd0, t, s symbolic; gamma fixed'
        self.skip_validation = True

    def build(self, mk):
        m = H.mod(R.RM)
        u = H.mod(R.UM)
        g = K(mk, self.g)
        other = dict(rl=mk('r0') * 2, ul=mk('u0') + 1, pl=mk('p0') * 3) if self.side == 'R' else \
            dict(rr=mk('r0') * 2, ur=mk('u0') + 1, pr=mk('p0') * 3)
        mine = dict(rl=mk('r0'), ul=mk('u0'), pl=mk('p0')) if self.side == 'L' else dict(rr=mk('r0'), ur=mk('u0'), pr=mk('p0'))
        kw = dict(other)
        kw.update(mine)
        kw.update(gl=g, gr=g, xd0=mk('xd0'), t=mk('t'), num_x_pts=2)
        inst = m.RiemannIGEOS(**kw)
        x, t, xd0, s = mk('x'), mk('t'), mk('xd0'), mk('s')
        a = u.rho_p_u_rarefaction(mk('p0'), mk('r0'), mk('u0'), g, x, xd0, t, inst)
        b = u.rho_p_u_rarefaction(mk('p0'), mk('r0'), mk('u0'), g, xd0 + s * (x - xd0), xd0, s * t, inst)
        return {'a_density': a[0], 'a_pressure': a[1], 'a_velocity': a[2], 'b_density': b[0], 'b_pressure': b[1], 'b_velocity': b[2]}

    def domain(self, V):
        return [T.gt(V('r0'), T.ZERO), T.gt(V('p0'), T.ZERO), T.gt(V('t'), T.ZERO), T.gt(V('s'), T.ZERO)]

    def claims(self, cx):
        for k in ('density', 'pressure', 'velocity'):
            cx.eq('fan %s depends on (x-xd0)/t only' % k, cx['b_' + k], cx['a_' + k])


class EHEPScale(Obligation):
    def __init__(self):
        self.m = H.mod(E.EM)
        self.id = 'C10.ehep.regionI'
        self.modules = [self.m]
        self.extra_shim = E.shim_extra()
        self.functions = [self.m.EscapeOfHEProducts._run]
        self.bounds = 'D, rho_0, up, xtilde, xmax, tmax, x, t, s symbolic; both points inside region I'
        self.max_paths = 300
        self.skip_validation = True

    def build(self, mk):
        from symx.engine import PathAbort
        a, _ = E.run(mk)
        if Mode.symbolic(mk) and a['_region'] != 'I':
            raise PathAbort()
        s = mk('s')
        b, _ = E.run(mk, x=mk('x') * s, t=mk('t') * s)
        if Mode.symbolic(mk) and b['_region'] != 'I':
            raise PathAbort()
        out = {'_ra': a['_region'], '_rb': b['_region']}
        for k in ('density', 'pressure', 'velocity', 'sound_speed', 'specific_internal_energy'):
            out['a_' + k] = a[k]
            out['b_' + k] = b[k]
        return out

    def domain(self, V):
        return E.domain(V) + [T.gt(V('s'), T.ZERO)]

    def claims(self, cx):
        if cx['_ra'] != 'I' or cx['_rb'] != 'I':
            return
        for k in ('density', 'pressure', 'velocity', 'sound_speed', 'specific_internal_energy'):
            cx.eq('region I %s depends on x/t only' % k, cx['b_' + k], cx['a_' + k])


class MaderScale(Obligation):
    def __init__(self, gamma):
        self.gamma = gamma
        self.m = H.mod('exactpack.solvers.mader.rarefaction')
        self.id = 'C10.mader.gamma=%s' % gamma
        self.modules = [self.m]
        self.functions = [self.m.rare]
        self.bounds = 'time, x, dx, p_cj, d_cj, u_piston and the scale s symbolic (x, t and the cell size scaled together); gamma fixed; all three branches'
        self.max_paths = 100
        self.skip_validation = True
        self.timeout_s = 12
        self.timeout_thorough_s = 900

    def build(self, mk):
        g = K(mk, self.gamma)
        s = mk('s')
        a = self.m.rare(mk('time'), mk('xlab'), mk('dx'), mk('p_cj'), mk('d_cj'), g, mk('u_piston'))
        b = self.m.rare(mk('time') * s, mk('xlab') * s, mk('dx') * s, mk('p_cj'), mk('d_cj'), g, mk('u_piston'))
        names = ('velocity', 'pressure', 'sound_speed', 'density')
        out = {}
        for i, n in enumerate(names):
            out['a_' + n] = a[i]
            out['b_' + n] = b[i]
        return out

    def domain(self, V):
        return [T.gt(V(n), T.ZERO) for n in ('time', 'dx', 'p_cj', 'd_cj', 's')] + [T.ge(V('u_piston'), T.ZERO)]

    def claims(self, cx):
        for n in ('velocity', 'pressure', 'sound_speed', 'density'):
            cx.eq('%s at (s x, s t, s dx) = at (x, t, dx)' % n, cx['b_' + n], cx['a_' + n])


class SedovScale(Obligation):
    def __init__(self, geom, gamma):
        self.geom, self.gamma = geom, gamma
        self.id = 'C10.sedov.g%d.gamma=%s' % (geom, gamma)
        self.modules = [H.mod(S.SM)]
        self.extra_shim = S.shim_extra()
        self.functions = [H.mod(S.SM).Sedov._run]
        self.bounds = 'rho0, eblast, omega, t, s symbolic; gamma fixed; alpha a free symbol (the same in both runs)'
        self.max_paths = 200
        self.skip_validation = True

    def build(self, mk):
        a, sa = S.jump_block(mk, self.geom, self.gamma)
        s = mk('s')
        b, sb = S.jump_block(H.Sub(mk, lambda n: mk('t') * s if n == 't' else mk(n)), self.geom, self.gamma)
        out = {'s': s, 'xg2': a['xg2'], 'omega': mk('omega'), 'alpha_a': a['alpha'], 'alpha_b': b['alpha']}
        for k in ('r2', 'rho2', 'u2', 'p2', 'rho1', 'us'):
            out['a_' + k] = a[k]
            out['b_' + k] = b[k]
        return out

    def domain(self, V):
        return S.domain(V, self.geom) + [T.gt(V('s'), T.ZERO)]

    def claims(self, cx):
        same = (cx['alpha_a'] == cx['alpha_b']) if cx.symbolic else True
        s, xg2, om = cx['s'], cx['xg2'], cx['omega']
        lam = s ** (2 / xg2)                       # r_shock ratio
        cx.eq('r_shock(s t) = s^(2/(k+2-omega)) r_shock(t)', cx['b_r2'], lam * cx['a_r2'], when=same)
        cx.eq('post-shock density ~ t^(-omega 2/(k+2-omega))', cx['b_rho2'], cx['a_rho2'] * lam ** (-om), when=same)
        cx.eq('post-shock velocity ~ r_shock/t', cx['b_u2'] * s, cx['a_u2'] * lam, when=same)
        cx.eq('post-shock pressure ~ rho (r_shock/t)^2', cx['b_p2'] * s * s, cx['a_p2'] * lam ** (-om) * lam * lam, when=same)


class SedovInterior(Obligation):
    """interior of the Sedov flow: the whole _run (internal table of 2 points: the user's radius and the origin) with fminbound
    replaced by a fresh value v and interp1d exact at its nodes.  With the generator of the similarity group
    D = t d/dt + a0 r d/dr (a0 = 2/(k+2-omega), so D(r/r_shock) = 0) z3 decides: D(lam_want) = 0 for the lambda the code asks
    fminbound to invert; the similarity functions lambda, f, g, h of sedov_funcs_standard at fixed v do not depend on r, t
    (so the inverted v is a function of r/r_shock alone); and the returned fields obey D(rho) = -omega a0 rho,
    D(u) = (a0 - 1) u, D(p) = (-omega a0 + 2 (a0 - 1)) p: the infinitesimal form of 'fields at equal r/r_shock(t) differ only by
    t^(-omega a0), r_shock/t, (r_shock/t)^2'."""
    uses_derivatives = True

    def __init__(self, geom, gamma):
        self.geom, self.gamma = geom, gamma
        self.id = 'C10.sedov-interior.g%d.gamma=%s' % (geom, gamma)
        self.modules = [H.mod(S.SM)]
        self.functions = [H.mod(S.SM).Sedov._run, H.mod(S.SM).Sedov.sedov_funcs_standard, H.mod(S.SM).Sedov.physical]
        self.bounds = 'rho0, eblast, omega, r, t symbolic; gamma fixed; internal table of 2 points; one user point behind the shock'
        self.skip_validation = True
        self.max_paths = 120
        self.replay_tol = 2e-3
        self.budget_s = 300

    def shim_extra(self):
        import scipy.optimize as so
        from symx.engine import current
        from symx.shim import Recorder

        def fminbound(f, a, b, **kw):
            current().note('lam_want', getattr(f.__self__, 'lam_want', None))
            return current().fresh('vwant')

        def interp1d(x, y, **kw):
            xs = [term_of(v) for v in np.asarray(x, dtype=object).ravel()]
            ys = list(np.asarray(y, dtype=object).ravel())

            def g(q):
                q = np.asarray(q, dtype=object)
                out = np.empty(q.shape, dtype=object)
                for i in range(out.size):
                    qt = term_of(q.flat[i])
                    hit = [k for k, xt in enumerate(xs) if xt is qt or xt == qt]
                    out.flat[i] = ys[hit[0]] if hit else current().fresh('interp')
                return out
            return g
        d = S.shim_extra(cut_at_jump=False)
        d.update({'sci_opt': H.ModProxy(so, fminbound=fminbound), 'interp1d': interp1d, 'ExactSolution': Recorder})
        return d

    def build(self, mk):
        s = S.make(mk, self.geom, self.gamma)
        r, t = mk('r'), mk('t')
        if Mode.symbolic(mk):
            from symx.engine import current
            r2_pre = (s.eblast / (s.alpha * s.rho0)) ** (1.0 / s.xg2) * t ** (2.0 / s.xg2)
            current().assume(T.lt(term_of(r), term_of(r2_pre)))
            sol = s._run(H.arr([r]), t, npts=2)
            out = H.first(H.fields(sol))
            # lam_want as left by the loop is that of the LAST table point (the origin); the one of the user's point is r/r2 as
            # the code spells it
            v = mk('v')
            if s.solution_type != 'singular':
                l, dl, f, g, h = s.sedov_funcs_standard(v)
                out.update(l=l, f=f, g=g, h=h)
            lw = [x for x in current().notes.get('lam_want', []) if x is not None]
            if lw and not (term_of(lw[0]) is T.ZERO or term_of(lw[0]) == T.ZERO):
                out['lam_want'] = lw[0]         # the first inversion requested is that of the user's point
        else:
            m = H.mod(S.SM)
            real, rec = m.sci_opt, []

            class Rec(object):
                def __getattr__(self, n):
                    return getattr(real, n)

                def fminbound(self, f, a, b, **kw):
                    rec.append(f.__self__.lam_want)
                    return real.fminbound(f, a, b, **kw)
            m.sci_opt = Rec()
            try:
                sol = s(np.array([float(r)]), t)
            finally:
                m.sci_opt = real
            out = H.first(H.fields(sol))
            if rec and rec[0] != 0:
                # the real table runs from the largest radius (the user's point) inwards: the first inversion is the user's point
                out['lam_want'] = rec[0]
        out.update(r=r, t=t, omega=mk('omega'), xg2=s.xg2, r2=s.r2, _type=s.solution_type)
        return out

    def domain(self, V):
        return S.domain(V, self.geom) + [T.gt(V('v'), T.ZERO)]

    def claims(self, cx):
        a0 = 2 / cx['xg2']
        om = cx['omega']

        def DL(name):
            # logarithmic form D(f)/f, computed structurally (power-law factors drop out before the solver sees them)
            fn = lambda cc: cc[name]
            return cx.p('t') * cx.dlog(fn, 't') + a0 * cx.p('r') * cx.dlog(fn, 'r')

        def zero(name):
            v = cx[name]
            if cx.symbolic:
                tt = term_of(v)
                return tt is T.ZERO or tt == T.ZERO
            return float(v) == 0.0
        inside = (cx['r'] < cx['r2'])
        if not cx.symbolic:
            inside = bool(inside)
        cx.eq('D(r_shock) = a0 r_shock', DL('r2'), a0 + 0 * cx['r'])
        if 'lam_want' in cx:
            cx.eq('the lambda handed to fminbound is r/r_shock', cx['lam_want'] * cx['r2'], cx['r'])
        if cx.symbolic and cx['_type'] != 'singular':
            for k in ('l', 'f', 'g', 'h'):
                cx.eq('similarity function %s at fixed v does not depend on (r, t)' % k, DL(k), 0 * cx['r'])
        for name, k in (('density', -om * a0), ('velocity', a0 - 1), ('pressure', -om * a0 + 2 * (a0 - 1))):
            if zero(name):
                continue            # the vacuum hole (all fields 0) and u = 0 at the origin are trivially self-similar
            cx.eq('D(%s)/%s = documented exponent' % (name, name), DL(name), k + 0 * cx['r'], when=inside)


class GuderleyScale(Obligation):
    replay_limit_s = 300        # the real Guderley solve takes 20-40 s on an idle core, several times that under load
    def __init__(self, n, gamma):
        from . import guderley_common as G
        self.G = G
        self.n, self.gamma = n, gamma
        self.id = 'C10.guderley.n%d.gamma=%s' % (n, gamma)
        self.m = H.mod(G.GM)
        self.modules = [self.m]
        self.extra_shim = G.shim_extra()
        self.functions = [self.m.state]
        self.bounds = 'r, rho0, lambda, B, x and the radius ratio s symbolic; gamma fixed; both evaluations at the same similarity coordinate x = t_L/r^lambda'
        self.skip_validation = True
        self.max_paths = 200
        self.replay_tol = 1e-5

    def build(self, mk):
        if Mode.symbolic(mk):
            a = self.G.run_state(mk, self.n, self.gamma)
            b = self.G.run_state(mk, self.n, self.gamma, r=mk('r') * mk('s'))
            out = {'s': mk('s'), 'lam': mk('lam')}
            for k in a:
                out['a_' + k] = a[k]
                out['b_' + k] = b[k]
            return out
        # replay on the real numerics: the similarity exponent and the reflected-shock position are the ones the code
        # itself computes for this gamma; one similarity coordinate in each branch of state(); the worst case is returned
        m = self.m
        g = float(Fraction(self.gamma))
        lam = m.eexp(self.n, g)
        B = m.get_shock_position(self.n, g, lam)
        r, s_, rho0 = abs(float(mk('r'))) + 0.1, abs(float(mk('s'))) + 0.1, abs(float(mk('rho0'))) + 0.1
        names = ('density', 'velocity', 'pressure', 'sound_speed', 'specific_internal_energy')
        worst, best = -1.0, None
        for x in (-0.5, 0.5 * B, 2.0 * B):
            a = dict(zip(names, m.state(r, rho0, self.n, g, lam, B, x)))
            b = dict(zip(names, m.state(r * s_, rho0, self.n, g, lam, B, x)))
            f1 = s_ ** (1 - lam)
            dev = max(abs(b['pressure'] - a['pressure'] * f1 * f1) / max(abs(b['pressure']), 1e-300),
                      abs(b['specific_internal_energy'] - a['specific_internal_energy'] * f1 * f1) / max(abs(b['specific_internal_energy']), 1e-300),
                      abs(b['velocity'] - a['velocity'] * f1) / max(abs(b['velocity']), 1e-300),
                      abs(b['density'] - a['density']) / max(abs(b['density']), 1e-300))
            if dev > worst:
                worst = dev
                best = {'s': s_, 'lam': lam}
                for k in a:
                    best['a_' + k] = a[k]
                    best['b_' + k] = b[k]
        return best

    def domain(self, V):
        return [T.gt(V('r'), T.ZERO), T.gt(V('rho0'), T.ZERO), T.gt(V('lam'), T.ONE), T.gt(V('B'), T.ZERO), T.ne(V('x'), T.ZERO),
                T.gt(V('s'), T.ZERO)]

    def claims(self, cx):
        s, lam = cx['s'], cx['lam']
        f1 = s ** (1 - lam)
        cx.eq('density at fixed x independent of r', cx['b_density'], cx['a_density'])
        cx.eq('velocity ~ r^(1-lambda)', cx['b_velocity'], cx['a_velocity'] * f1)
        cx.eq('sound speed ~ r^(1-lambda)', cx['b_sound_speed'], cx['a_sound_speed'] * f1)
        cx.eq('pressure ~ r^(2-2 lambda)', cx['b_pressure'], cx['a_pressure'] * f1 * f1)
        cx.eq('specific internal energy ~ r^(2-2 lambda)', cx['b_specific_internal_energy'], cx['a_specific_internal_energy'] * f1 * f1)


def obligations(tier):
    obs = []
    for g in (1, 2, 3):
        obs.append(XoverT('Noh', g))
        obs.append(XoverT('Cog19', g))
    pairs = R.GAMMA_PAIRS_QUICK if tier == 'quick' else R.GAMMA_PAIRS_FULL
    for gl, gr in pairs:
        obs.append(RiemannScale(gl, gr))
    gams = H.G_QUICK if tier == 'quick' else H.G_FULL
    for g in gams:
        obs.append(FanScale('L', g))
        obs.append(FanScale('R', g))
        obs.append(MaderScale(g))
    obs.append(EHEPScale())
    for n in (2, 3):
        for gam in ([Fraction(7, 5)] if tier == 'quick' else H.G_FULL):
            obs.append(GuderleyScale(n, gam))
    for g in (1, 2, 3):
        for gam in ([Fraction(7, 5)] if tier == 'quick' else H.G_FULL):
            obs.append(SedovScale(g, gam))
            obs.append(SedovInterior(g, gam))
    # public general-EOS wrapper: a call at time t after an arbitrary earlier call returns the interpolant of the self-similar table
    # xd0 + t w_k of THIS t (stub driver, arbitrary node values)
    from .C03 import GenEOSWrapper
    obs.append(GenEOSWrapper('C10', repeat=True))
    return obs
