"""C19 -- 2-D steady supersonic Riemann problem: oblique shocks, Prandtl-Meyer fans, balanced slip line."""
import math
import contextlib
from fractions import Fraction

import numpy as np

from symx import terms as T
from symx import stubs
from symx.framework import Obligation, V
from symx.engine import SymReal, SymBool, term_of, current
from . import common as H
from .common import K, Mode

EXPLANATION = 'TODO'
BOUNDS = []
OUTSIDE = []
ASSUMPTIONS = []
META = {'level_text': 'TODO', 'level_note': 'TODO'}

M2 = 'exactpack.solvers.riemann2D_2section_steadystate.riemann2D_2section_steadystate'
G_QUICK = [Fraction(7, 5), Fraction(5, 3)]
G_FULL = [Fraction(6, 5), Fraction(7, 5), Fraction(5, 3), Fraction(2), Fraction(3)]


def new_prob():
    cls = H.mod(M2).SetupRiemannProblem
    return cls.__new__(cls)


def tan_of(v):
    """tan of an angle returned by the code: tan(arctan(x)) is x (symbolic mode unwraps the atom)"""
    if isinstance(v, SymReal):
        t = v.t
        if t.op == 'fn' and t.args[0] == 'arctan':
            return SymReal(t.args[1])
        return SymReal(T.func('tan', t))
    return math.tan(v)


def gam(mk, g, name='g'):
    """adiabatic index: a fixed rational (sliced) or a symbolic input"""
    return mk(name) if g is None else K(mk, g)


def gterm(g, name='g'):
    return V(name) if g is None else T.const(g)


def gdom(g, name='g'):
    return [T.gt(V(name), T.ONE)] if g is None else []


def fn_nodes(roots, names):
    return [n for n in T.postorder(list(roots)) if n.op == 'fn' and n.args[0] in names]


def congruence(roots, names=('arctan', 'arcsin')):
    """arctan / arcsin are functions: equal arguments give equal values (the encoder treats every syntactically
    different application as an independent atom)"""
    ns = fn_nodes(roots, names)
    facts = []
    for i in range(len(ns)):
        for j in range(i + 1, len(ns)):
            if ns[i].args[0] == ns[j].args[0]:
                facts.append(T.implies(T.eq(ns[i].args[1], ns[j].args[1]), T.eq(ns[i], ns[j])))
    return facts


def out_terms(out):
    ts = []
    for v in out.values():
        if isinstance(v, SymReal):
            ts.append(v.t)
    return ts


def assume_all(facts):
    ex = current()
    for f in facts:
        ex.assume(f)


def _t(x):
    return x if isinstance(x, T.Term) else term_of(x)


def fsin(v):
    return v.sin() if isinstance(v, SymReal) else math.sin(v)


def fcos(v):
    return v.cos() if isinstance(v, SymReal) else math.cos(v)


def ftan(v):
    return v.tan() if isinstance(v, SymReal) else math.tan(v)


def fsqrt(v):
    return v.sqrt() if isinstance(v, SymReal) else math.sqrt(v)


class Trig(object):
    """Trusted trigonometry for the solver: every sin/cos/tan atom whose argument is an integer combination of the
    given base angles is expressed through the cos/sin of the base angles by the addition formulas.  Each fact has the
    form  (A == sum k_i b_i)  ->  f(A) == polynomial,  the antecedent being decided by the solver (linear), so a wrong
    decomposition can only make a fact vacuous, never unsound.  arctan / arcsin bases additionally get
    sin(arctan t) = t cos(arctan t), cos(arctan t) > 0, sin(arcsin y) = y, cos(arcsin y) >= 0."""

    def __init__(self, bases=()):
        self.bases = []
        for b in bases:
            self.add_base(b)

    def add_base(self, b):
        b = _t(b)
        if b.op == 'const' or any(b is x for x in self.bases):
            return
        self.bases.append(b)

    def cs(self, b):
        return T.func('cos', b), T.func('sin', b)

    def facts(self, roots):
        roots = [_t(r) for r in roots]
        for n in fn_nodes(roots, ('arctan', 'arcsin')):
            self.add_base(n)
        out = []
        for b in self.bases:
            c, s_ = self.cs(b)
            out.append(T.eq(T.add(T.mul(c, c), T.mul(s_, s_)), T.ONE))
            if b.op == 'fn' and b.args[0] == 'arctan':
                out += [T.eq(s_, T.mul(b.args[1], c)), T.gt(c, T.ZERO)]
            if b.op == 'fn' and b.args[0] == 'arcsin':
                out += [T.eq(s_, b.args[1]), T.ge(c, T.ZERO)]
        fresh = [T.var('__ang%d' % i) for i in range(len(self.bases))]
        mapping = dict(zip(self.bases, fresh))
        names = [f.args[0] for f in fresh]
        for n in fn_nodes(roots + out, ('sin', 'cos', 'tan')):
            A = n.args[1]
            if any(A is b for b in self.bases) and n.args[0] != 'tan':
                continue
            ks = self._decompose(A, mapping, names)
            if ks is None:
                continue
            comb = T.ZERO
            cA, sA = T.ONE, T.ZERO
            for k, b in zip(ks, self.bases):
                if k == 0:
                    continue
                comb = T.add(comb, T.mul(T.const(k), b))
                c, s_ = self.cs(b)
                if k < 0:
                    s_ = T.neg(s_)
                for _ in range(abs(k)):
                    cA, sA = T.sub(T.mul(cA, c), T.mul(sA, s_)), T.add(T.mul(sA, c), T.mul(cA, s_))
            cond = T.eq(A, comb)
            if n.args[0] == 'cos':
                fact = T.eq(n, cA)
            elif n.args[0] == 'sin':
                fact = T.eq(n, sA)
            else:
                fact = T.eq(T.mul(n, cA), sA)
            out.append(fact if cond is T.TRUE else T.implies(cond, fact))
        return out

    def _decompose(self, A, mapping, names):
        A2 = T.substitute(A, mapping)
        if any(v not in names for v in T.free_vars(A2)):
            return None
        zero = {n: 0.0 for n in names}
        try:
            c0 = T.evalf(A2, zero)
            ks = []
            for n in names:
                e = dict(zero)
                e[n] = 1.0
                ks.append(T.evalf(A2, e) - c0)
            e = {n: 0.37 + 0.11 * i for i, n in enumerate(names)}
            lin = c0 + sum(k * e[n] for k, n in zip(ks, names))
            if abs(c0) > 1e-12 or abs(T.evalf(A2, e) - lin) > 1e-9:
                return None
        except Exception:
            return None
        ki = [int(round(k)) for k in ks]
        if any(abs(k - kk) > 1e-9 or abs(kk) > 4 for k, kk in zip(ks, ki)) or not any(ki):
            return None
        return ki


@contextlib.contextmanager
def patched(mod, **names):
    """temporarily rebind module globals (both modes; restores whatever was there, shim or original)"""
    saved = {k: mod.__dict__.get(k) for k in names}
    mod.__dict__.update(names)
    try:
        yield
    finally:
        mod.__dict__.update(saved)


def capturing_fsolve(cap, symbolic, contract=False):
    """scipy.optimize.fsolve stand-in that records the residual function it is given.  Symbolic mode: returns a fresh
    unconstrained symbol (contract=False: the defining equation is checked separately at the true solution) or the
    usual root stub; concrete mode: the real fsolve."""
    import scipy.optimize as so

    def f(func, x0, *a, **k):
        cap.append(func)
        if symbolic:
            if contract:
                return stubs.fsolve_stub(func, x0, *a, **k)
            out = np.empty(1, dtype=object)
            out[0] = current().fresh('root')
            return out
        return so.fsolve(func, x0, *a, **k)
    return f


def fake_arrays(prob):
    """determine_state_functions only reads the end points of the tabulated pressure ranges: [p0, 10 p0] for
    compression, [1e-10, p0] for expansion (the linspace end points of setup_initial_arrays)"""
    for name, st in (('bottom', prob.bottom_state), ('top', prob.top_state)):
        p0 = st[0]
        z = 0 * p0
        setattr(prob, name + '_compression_arrays', [H.arr([p0, 10 * p0]), H.arr([z, z])])
        setattr(prob, name + '_expansion_arrays', [H.arr([1e-10 + z, p0]), H.arr([z, z])])


def one_sided(m, mk, side, tested, ps, gd, cap, contract=False):
    """Run the real set_initial_state_values / determine_state_functions / set_starstate_values with the stream under
    test on `side' and a dummy stream (a shock of pressure ratio 2 at Mach 3, its own gamma) on the other side; the
    star pressure ps is given and the slip-line angle is the tested side's own pressure-deflection function at ps."""
    dummy = [ps / 2, K(mk, Fraction(13, 10)), K(mk, 3), K(mk, 0), K(mk, gd)]
    prob = new_prob()
    prob.bottom_state, prob.top_state = (dummy, tested) if side == 'T' else (tested, dummy)
    prob.set_initial_state_values()
    fake_arrays(prob)
    top_f, bot_f = prob.determine_state_functions(ps)
    prob.pressure_solution = ps
    prob.deflection_angle_solution = (top_f if side == 'T' else bot_f)(ps)
    with patched(m, fsolve=capturing_fsolve(cap, Mode.symbolic(mk), contract)):
        prob.set_starstate_values()
    return prob


def side_vals(prob, side):
    """(inflow angle [rad], initial (p, rho, M, u, v), star (p, rho, M, u, v)) of one side"""
    if side == 'T':
        return prob.thetaT_rad, (prob.pT, prob.rT, prob.MT, prob.uT, prob.vT), tuple(prob.top_star_vals)
    return prob.thetaB_rad, (prob.pB, prob.rB, prob.MB, prob.uB, prob.vB), tuple(prob.bottom_star_vals)


# ------------------------------------------------------------------ kernels

class ShockKernel(Obligation):
    """compression_states == oblique-shock relations (conservation form, shock angle eliminated through
    the normal-shock pressure relation)"""

    def __init__(self, g):
        self.g = g
        self.m = H.mod(M2)
        self.id = 'C19.kernel.shock.g=%s' % (g if g is not None else 'sym')
        self.modules = [self.m]
        self.functions = [self.m.SetupRiemannProblem.compression_states]
        self.bounds = ('upstream pressure, density, Mach number > 1, flow angle and downstream pressure symbolic '
                       '(p0 < ps, normal Mach number below the upstream Mach number); gamma fixed per obligation')
        self.timeout_s = 40

    def build(self, mk):
        g = gam(mk, self.g)
        p0, r0, M0, th, ps = mk('p0'), mk('r0'), mk('M0'), mk('th'), mk('ps')
        d, rs, Ms = new_prob().compression_states(ps, [p0, r0, M0, th, g])
        return dict(defl=d, tand=tan_of(d), rs=rs, Ms=Ms, _g=g)

    def domain(self, V):
        g = gterm(self.g)
        a = T.div(V('ps'), V('p0'))
        num = T.add(T.mul(T.add(g, T.ONE), a), T.sub(g, T.ONE))
        return [T.gt(V('p0'), T.ZERO), T.gt(V('r0'), T.ZERO), T.gt(V('M0'), T.ONE), T.gt(V('ps'), V('p0')),
                T.lt(num, T.mul(T.mul(T.TWO, g), T.mul(V('M0'), V('M0')))),
                T.gt(V('th'), T.const(-90)), T.lt(V('th'), T.const(90))] + gdom(self.g)

    def claims(self, cx):
        g = cx['_g']
        p0, r0, M0, ps = cx.p('p0'), cx.p('r0'), cx.p('M0'), cx.p('ps')
        rs, Ms, tand = cx['rs'], cx['Ms'], cx['tand']
        a = ps / p0
        s = ((g + 1) * a + g - 1) / (2 * g * M0 * M0)       # sin^2(shock angle): normal-shock pressure relation
        q2 = M0 * M0 * g * p0 / r0                            # upstream speed^2
        un0 = q2 * s                                          # upstream normal velocity^2
        k = r0 / rs                                           # mass: un1 = un0 * r0/rs
        un1 = un0 * k * k
        cx.gt('shock compresses', rs, r0)
        cx.eq('shock: normal momentum', p0 + r0 * un0, ps + rs * un1)
        cx.eq('shock: total enthalpy', g / (g - 1) * p0 / r0 + un0 / 2, g / (g - 1) * ps / rs + un1 / 2)
        cx.eq('shock: downstream Mach number (tangential velocity conserved)', Ms * Ms * g * ps / rs, un1 + q2 * (1 - s))
        tanb = cx.sqrt(s / (1 - s))
        cx.eq('shock: deflection angle', tand * (1 + k * tanb * tanb), tanb * (1 - k))
        cx.gt('shock: deflection > 0', tand, 0)
        cx.lt('shock: deflection < shock angle', tand, tanb)


class PMKernel(Obligation):
    """PrandtlMeyer_function is THE Prandtl-Meyer function: nu(1) = 0 and d nu/dM = sqrt(M^2-1)/(M (1+(g-1)M^2/2))"""

    def __init__(self, g):
        self.g = g
        self.m = H.mod(M2)
        self.id = 'C19.kernel.prandtl_meyer.g=%s' % (g if g is not None else 'sym')
        self.modules = [self.m]
        self.functions = [self.m.SetupRiemannProblem.PrandtlMeyer_function]
        self.bounds = 'Mach number > 1 symbolic; gamma %s' % ('symbolic > 1' if g is None else 'fixed')
        self.timeout_s = 40

    def build(self, mk):
        g = gam(mk, self.g)
        prob = new_prob()
        return dict(nu=prob.PrandtlMeyer_function(mk('M'), g), nu1=prob.PrandtlMeyer_function(K(mk, 1), g), _g=g)

    def domain(self, V):
        return [T.gt(V('M'), T.ONE)] + gdom(self.g)

    def claims(self, cx):
        g, M = cx['_g'], cx.p('M')
        cx.eq('nu(1) == 0', cx['nu1'], 0, scale=[1.0] if not cx.symbolic else None)
        cx.eq('d nu/dM == sqrt(M^2-1)/(M (1+(g-1)M^2/2))', cx.d(lambda c: c['nu'], 'M'),
              cx.sqrt(M * M - 1) / (M * (1 + (g - 1) * M * M / 2)), tol=1e-5)


class FanKernel(Obligation):
    """expansion_states: isentropic, constant total enthalpy, turning = Prandtl-Meyer angle"""

    def __init__(self, g):
        self.g = g
        self.m = H.mod(M2)
        self.id = 'C19.kernel.fan.g=%s' % g
        self.modules = [self.m]
        self.functions = [self.m.SetupRiemannProblem.expansion_states, self.m.SetupRiemannProblem.PrandtlMeyer_function]
        self.bounds = ('upstream pressure, density, Mach number > 1, flow angle and downstream pressure 0 < ps < p0 '
                       'symbolic; gamma fixed per obligation')
        self.timeout_s = 40

    def build(self, mk):
        g = K(mk, self.g)
        p0, r0, M0, th, ps = mk('p0'), mk('r0'), mk('M0'), mk('th'), mk('ps')
        prob = new_prob()
        st = [p0, r0, M0, th, g]
        d, rs, Ms = prob.expansion_states(ps, st)
        d0, rs0, Ms0 = prob.expansion_states(p0, st)
        nud = prob.PrandtlMeyer_function(M0, g) - prob.PrandtlMeyer_function(Ms, g)
        out = dict(defl=d, rs=rs, Ms=Ms, defl0=d0, rs0=rs0, Ms0=Ms0, nud=nud, _g=g)
        if Mode.symbolic(mk):
            assume_all(congruence(out_terms(out)))
        return out

    def domain(self, V):
        return [T.gt(V('p0'), T.ZERO), T.gt(V('r0'), T.ZERO), T.gt(V('M0'), T.ONE), T.gt(V('ps'), T.ZERO),
                T.lt(V('ps'), V('p0')), T.gt(V('th'), T.const(-90)), T.lt(V('th'), T.const(90))]

    def claims(self, cx):
        g = cx['_g']
        n, d = self.g.numerator, self.g.denominator
        p0, r0, M0, ps = cx.p('p0'), cx.p('r0'), cx.p('M0'), cx.p('ps')
        rs, Ms = cx['rs'], cx['Ms']
        cx.eq('fan: isentropic (p/rho^gamma constant)', (rs / r0) ** n, (ps / p0) ** d)
        cx.eq('fan: total enthalpy constant', g / (g - 1) * p0 / r0 * (1 + (g - 1) / 2 * M0 * M0),
              g / (g - 1) * ps / rs * (1 + (g - 1) / 2 * Ms * Ms))
        cx.gt('fan: expansion accelerates', Ms, M0)
        cx.eq('fan: coded turning is nu(M0)-nu(Ms) of the coded Prandtl-Meyer function', cx['defl'], cx['nud'])
        cx.eq('fan: d(turning)/dp == sqrt(M^2-1)/(gamma M^2 p)', cx.d(lambda c: c['defl'], 'ps'),
              cx.sqrt(Ms * Ms - 1) / (g * Ms * Ms * ps), tol=1e-5)
        one = [1.0] if not cx.symbolic else None
        cx.eq('fan: no turning at ps == p0', cx['defl0'], 0, scale=one)
        cx.eq('fan: density unchanged at ps == p0', cx['rs0'], r0)
        cx.eq('fan: Mach number unchanged at ps == p0', cx['Ms0'], M0)


# ------------------------------------------------------------------ one stream, one wave: star state and wave angles

class ShockSide(Obligation):
    """A stream turned by an oblique shock: the reported star state and the initial state satisfy the 2-D jump
    conditions across the ray at the true shock angle, and the coded shock-angle equation holds at that angle."""

    def __init__(self, side, g, gd, theta_sym):
        self.side, self.g, self.gd, self.theta_sym = side, g, gd, theta_sym
        self.m = H.mod(M2)
        self.id = 'C19.shock.%s.theta=%s.g=%s' % (side, 'sym' if theta_sym else '0', g)
        self.modules = [self.m]
        c = self.m.SetupRiemannProblem
        self.functions = [c.set_initial_state_values, c.determine_state_functions, c.compression_states,
                          c.determine_shock_angle, c.set_starstate_values]
        self.bounds = ('one stream (pressure, density, Mach number, inflow angle %s) and the shock angle beta symbolic, star '
                       'pressure = normal-shock pressure for beta; gamma fixed; other stream: fixed dummy'
                       % ('symbolic' if theta_sym else '= 0'))
        self.timeout_s = 50
        self.skip_validation = True
        self.stage_a = False

    def build(self, mk):
        g = K(mk, self.g)
        p0, r0, M0, beta = mk('p0'), mk('r0'), mk('M0'), mk('beta')
        th = mk('th') if self.theta_sym else K(mk, 0)
        sb = fsin(beta)
        ps = p0 * (1 + 2 * g / (g + 1) * (M0 * M0 * sb * sb - 1))
        cap = []
        prob = one_sided(self.m, mk, self.side, [p0, r0, M0, th, g], ps, self.gd, cap)
        thr, ini, star = side_vals(prob, self.side)
        x = thr + beta if self.side == 'T' else thr - beta      # the true shock ray
        res = cap[1 if self.side == 'T' else 0](x)              # coded residual of the shock-angle equation
        tcd = ftan(prob.deflection_angle_solution)
        out = dict(res=res, tcd=tcd, cx=fcos(x), sx=fsin(x), _g=g, _morph=prob.morphology)
        for k, v in zip('prMuv', ini):
            out[k + '0'] = v
        for k, v in zip('prMuv', star):
            out[k + '1'] = v
        if Mode.symbolic(mk):
            tr = Trig([thr, beta])
            facts = tr.facts(out_terms(out))
            facts += [T.gt(T.func('sin', beta.t), T.ZERO), T.gt(T.func('cos', beta.t), T.ZERO)]
            assume_all(facts)
        return out

    def domain(self, V):
        g = T.const(self.g)
        S = T.func('sin', V('beta'))
        mn2 = T.mul(T.mul(V('M0'), V('M0')), T.mul(S, S))
        a = T.add(T.ONE, T.mul(T.div(T.mul(T.TWO, g), T.add(g, T.ONE)), T.sub(mn2, T.ONE)))
        d = [T.gt(V('p0'), T.const(Fraction(1, 10 ** 9))), T.gt(V('r0'), T.ZERO), T.gt(V('M0'), T.ONE), T.gt(V('beta'), T.ZERO),
             T.lt(T.mul(T.TWO, V('beta')), V('PI')), T.gt(mn2, T.ONE), T.lt(a, T.const(10))]
        if self.theta_sym:
            d += [T.gt(V('th'), T.const(-60)), T.lt(V('th'), T.const(60))]
        return d

    def claims(self, cx):
        g = cx['_g']
        p0, r0, M0, u0, v0 = (cx[k + '0'] for k in 'prMuv')
        p1, r1, M1, u1, v1 = (cx[k + '1'] for k in 'prMuv')
        c_, s_ = cx['cx'], cx['sx']
        un0, ut0 = -u0 * s_ + v0 * c_, u0 * c_ + v0 * s_
        un1, ut1 = -u1 * s_ + v1 * c_, u1 * c_ + v1 * s_
        cx.eq('star state: speed == Mach number * sound speed', u1 * u1 + v1 * v1, M1 * M1 * g * p1 / r1)
        cx.eq('shock: tangential velocity continuous', ut0, ut1)
        cx.eq('shock: mass flux continuous', r0 * un0, r1 * un1)
        cx.eq('shock: normal momentum flux continuous', p0 + r0 * un0 * un0, p1 + r1 * un1 * un1)
        cx.eq('shock: total enthalpy continuous', g / (g - 1) * p0 / r0 + (u0 * u0 + v0 * v0) / 2,
              g / (g - 1) * p1 / r1 + (u1 * u1 + v1 * v1) / 2)
        cx.eq('coded shock-angle equation holds at the true shock angle', cx['res'], 0,
              scale=[cx['tcd'], cx['res'] + cx['tcd'], 1e-3])


def obligations(tier):
    obs = []
    gs = G_QUICK if tier == 'quick' else G_FULL
    obs.append(ShockKernel(None))
    obs.append(PMKernel(None))
    for g in gs:
        obs.append(PMKernel(g))
        obs.append(FanKernel(g))
    for side in 'TB':
        obs.append(ShockSide(side, Fraction(7, 5), Fraction(5, 3), False))
    for o in obs:
        o.tier = tier
    return obs
