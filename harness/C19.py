"""C19 -- 2-D steady supersonic Riemann problem: oblique shocks, Prandtl-Meyer fans, balanced slip line."""
import math
import contextlib
from fractions import Fraction

import numpy as np

from symx import terms as T
from symx import stubs
from symx.framework import Obligation, V
from symx.engine import SymReal, SymBool, term_of, current
from symx.shim import sym_arctan, Recorder
from . import common as H
from .common import K, Mode

EXPLANATION = (
    'The real methods of SetupRiemannProblem are executed on symbolic reals. Kernels: compression_states against the '
    'oblique-shock conservation laws (normal momentum, total enthalpy, tangential velocity, deflection), '
    'PrandtlMeyer_function against d nu/dM and nu(1)=0, expansion_states against isentropy, total enthalpy and the '
    'Prandtl-Meyer differential relation d(turning)/dp. One stream at a time (the other stream a fixed dummy): '
    'set_initial_state_values, determine_state_functions, set_starstate_values and (through the public '
    'IGEOS_Solver._run, which names the returned fields) assign_lineout_vals are run with a '
    'symbolic star pressure; z3 decides inflow/star velocity consistency and direction, the coded shock-angle equation '
    'at the true shock ray, Mach-line conditions at fan head, tail and interior, isentropy/enthalpy inside fans, and '
    'the region assignment for every polar angle (parametrised per region). find_overlap is executed with its '
    'tabulated search replaced by a symbol and fsolve by its contract (slip-line balance, four wave patterns) and, cut '
    'before the search, on one-entry tables (the curves handed to the search are the documented Phi_T, Phi_B).')
BOUNDS = [
    'adiabatic indices from a finite rational set wherever a fan is involved (exponent (g-1)/g); symbolic gamma for the shock and Prandtl-Meyer kernels',
    'one-stream obligations: the other stream is a fixed dummy (shock of pressure ratio 2, Mach 3, different gamma); the code computes the two sides independently given (p*, slip angle)',
    'shock strength below the tabulated range limit p* < 10 p0; star pressure above 1e-9',
    'evaluation points with x > 0 (the code takes arctan(y/x)), polar angle parametrised per region relative to the wave angles: all points except those exactly on a wave ray',
]
OUTSIDE = [
    "find_overlap's tabulated 10^4-point pressure-deflection search (setup_initial_arrays, test_for_nans, remove_subsonic_compression, interp/bisect): only the curves handed to it and the final fsolve contract are checked",
    'which root fsolve returns (weak/strong shock, convergence); existence of a solution without vacuum',
    'uniqueness of the pressure inside a fan for a given ray (fsolve contract: any root of the coded turning equation)',
    'the full self-similar Euler ODE inside a fan: only isentropy, total enthalpy, turning and the Mach-line condition are claimed',
    'points exactly on a wave ray (strict comparisons in the code leave them in the default bottom state)',
]
ASSUMPTIONS = [
    'fsolve stubs: the returned value is an arbitrary zero of the real residual function; in find_overlap the tabulated guess is taken to be that zero (so the wave pattern is the one of the returned pressure)',
    "determine_shock_angle's fsolve is replaced by a free symbol; its residual function is captured and claimed to vanish at the true shock angle instead; the dummy stream's wave angle is assumed to lie on its own side of the slip line",
    'trusted trigonometry handed to the solver per claim: addition formulas for sin/cos/tan of integer combinations of the base angles, sin^2+cos^2=1, tan(arctan t)=t, sin(arctan t)=t cos(arctan t), cos(arctan t)>0, sin(arcsin y)=y, cos(arcsin y)>=0, arcsin(1/M) in (0, pi/2) for M>1, functional congruence of sin/cos/tan/arctan/arcsin atoms, arctan(x tan(phi)/x)=phi for |phi|<pi/2',
    'determine_state_functions only reads the end points of the tabulated pressure ranges; they are supplied as [p0, 10 p0] and [1e-10, p0] (the linspace end points of setup_initial_arrays)',
]
META = {
    'level_text': ('Bounded symbolic check of the real SetupRiemannProblem methods: stream states, star pressure / shock angle, '
                   'evaluation point symbolic; gamma sliced where a fan is involved; wave patterns, sides and regions enumerated; '
                   'z3 decides the oblique-shock conservation laws, the Prandtl-Meyer relations, Mach-line conditions, star/inflow '
                   'velocity consistency, slip-line balance and region assignment on every path. Not a proof: floats as reals, '
                   'root finders replaced by contracts, trigonometric atoms with trusted identities, tabulated search outside.'),
    'level_note': ('Trusted: z3; symx proxies/shims/stubs (kernels validated per path against the unshimmed code); the oracle '
                   'statements and the trigonometric identities in harness/C19.py.'),
}

M2 = 'exactpack.solvers.riemann2D_2section_steadystate.riemann2D_2section_steadystate'
MW = 'exactpack.solvers.riemann2D_2section_steadystate.ep_riemann2D_2section_steadystate'
G_QUICK = [Fraction(7, 5), Fraction(5, 3)]
G_FULL = [Fraction(6, 5), Fraction(7, 5), Fraction(5, 3), Fraction(2), Fraction(3)]
ALLTRIG = ('arctan', 'arcsin', 'sin', 'cos', 'tan')


def new_prob():
    cls = H.mod(M2).SetupRiemannProblem
    return cls.__new__(cls)


def _t(x):
    return x if isinstance(x, T.Term) else term_of(x)


def tan_of(v):
    """tan of an angle returned by the code: tan(arctan(x)) is x (symbolic mode unwraps the atom)"""
    if isinstance(v, SymReal):
        t = v.t
        if t.op == 'fn' and t.args[0] == 'arctan':
            return SymReal(t.args[1])
        return SymReal(T.func('tan', t))
    return math.tan(v)


def fsin(v):
    return v.sin() if isinstance(v, SymReal) else math.sin(v)


def fcos(v):
    return v.cos() if isinstance(v, SymReal) else math.cos(v)


def ftan(v):
    return v.tan() if isinstance(v, SymReal) else math.tan(v)


def fpi(mk):
    return SymReal(T.var('PI')) if Mode.symbolic(mk) else math.pi


def gam(mk, g, name='g'):
    """adiabatic index: a fixed rational (sliced) or a symbolic input"""
    return mk(name) if g is None else K(mk, g)


def gterm(g, name='g'):
    return V(name) if g is None else T.const(g)


def gdom(g, name='g'):
    return [T.gt(V(name), T.ONE)] if g is None else []


def fn_nodes(roots, names):
    return [n for n in T.postorder(list(roots)) if n.op == 'fn' and n.args[0] in names]


def congruence(roots, names=('arctan', 'arcsin')):
    """sin, cos, arctan ... are functions: equal arguments give equal values (the encoder treats every
    syntactically different application as an independent atom)"""
    ns = fn_nodes(roots, names)
    facts = []
    for i in range(len(ns)):
        for j in range(i + 1, len(ns)):
            if ns[i].args[0] == ns[j].args[0]:
                facts.append(T.implies(T.eq(ns[i].args[1], ns[j].args[1]), T.eq(ns[i], ns[j])))
    return facts


def out_terms(out):
    return [v.t for v in out.values() if isinstance(v, SymReal)]


def assume_all(facts):
    ex = current()
    for f in facts:
        ex.assume(f)


class Trig(object):
    """Trusted trigonometry for the solver: every sin/cos/tan atom whose argument is an integer combination of the
    base angles is expressed through cos/sin of the base angles by the addition formulas.  Each fact has the form
    (A == sum k_i b_i) -> f(A) == polynomial, the antecedent being decided by the solver (linear), so a wrong
    decomposition can only make a fact vacuous, never unsound.  arctan / arcsin bases additionally get
    sin(arctan t) = t cos(arctan t), cos(arctan t) > 0, tan(arctan t) = t, sin(arcsin y) = y, cos(arcsin y) >= 0."""

    def __init__(self, bases=()):
        self.bases = []
        for b in bases:
            self.add_base(b)

    def add_base(self, b):
        b = _t(b)
        if b.op == 'const' or any(b is x for x in self.bases):
            return
        self.bases.append(b)

    @staticmethod
    def cs(b):
        return T.func('cos', b), T.func('sin', b)

    def facts(self, roots):
        roots = [_t(r) for r in roots]
        for n in fn_nodes(roots, ('arctan', 'arcsin')):
            self.add_base(n)
        atoms = fn_nodes(roots, ('sin', 'cos', 'tan'))
        fresh = [T.var('__ang%d' % i) for i in range(len(self.bases))]
        mapping = dict(zip(self.bases, fresh))
        names = [f.args[0] for f in fresh]
        out = []
        used = set()
        for n in atoms:
            A = n.args[1]
            ks = self._decompose(A, mapping, names)
            if ks is None:
                continue
            for i, k in enumerate(ks):
                if k:
                    used.add(i)
            if sum(abs(k) for k in ks) == 1 and sum(ks) == 1 and any(A is b for b in self.bases):
                if n.args[0] == 'tan':
                    b = A
                    if b.op == 'fn' and b.args[0] == 'arctan':
                        out.append(T.eq(n, b.args[1]))
                    else:
                        c, s_ = self.cs(b)
                        out.append(T.eq(T.mul(n, c), s_))
                continue
            comb = T.ZERO
            cA, sA = T.ONE, T.ZERO
            for k, b in zip(ks, self.bases):
                if k == 0:
                    continue
                comb = T.add(comb, T.mul(T.const(k), b))
                c, s_ = self.cs(b)
                if k < 0:
                    s_ = T.neg(s_)
                for _ in range(abs(k)):
                    cA, sA = T.sub(T.mul(cA, c), T.mul(sA, s_)), T.add(T.mul(sA, c), T.mul(cA, s_))
            cond = T.eq(A, comb)
            if n.args[0] == 'cos':
                fact = T.eq(n, cA)
            elif n.args[0] == 'sin':
                fact = T.eq(n, sA)
            else:
                fact = T.eq(T.mul(n, cA), sA)
            out.append(fact if cond is T.TRUE else T.implies(cond, fact))
        for i in sorted(used):
            b = self.bases[i]
            c, s_ = self.cs(b)
            out.append(T.eq(T.add(T.mul(c, c), T.mul(s_, s_)), T.ONE))
            if b.op == 'fn' and b.args[0] == 'arctan':
                out += [T.eq(s_, T.mul(b.args[1], c)), T.gt(c, T.ZERO)]
            if b.op == 'fn' and b.args[0] == 'arcsin':
                out += [T.eq(s_, b.args[1]), T.ge(c, T.ZERO)]
        return out

    @staticmethod
    def _decompose(A, mapping, names):
        A2 = T.substitute(A, mapping)
        if any(v not in names and v != 'PI' for v in T.free_vars(A2)):
            return None
        zero = {n: 0.0 for n in names}
        zero['PI'] = math.pi
        try:
            c0 = T.evalf(A2, zero)
            ks = []
            for n in names:
                e = dict(zero)
                e[n] = 1.0
                ks.append(T.evalf(A2, e) - c0)
            e = {n: 0.37 + 0.11 * i for i, n in enumerate(names)}
            e['PI'] = math.pi
            lin = c0 + sum(k * e[n] for k, n in zip(ks, names))
            if abs(c0) > 1e-12 or abs(T.evalf(A2, e) - lin) > 1e-9:
                return None
        except Exception:
            return None
        ki = [int(round(k)) for k in ks]
        if any(abs(k - kk) > 1e-9 or abs(kk) > 4 for k, kk in zip(ks, ki)) or not any(ki):
            return None
        return ki


class TrigClaims(object):
    """claim constructor that hands the solver, per claim, exactly the trigonometric facts about the atoms occurring in
    that claim (as its precondition); numeric mode: plain claims"""

    def __init__(self, cx, bases=(), extra=()):
        self.cx, self.bases, self.extra = cx, [b for b in bases if isinstance(b, (SymReal, T.Term))], list(extra)

    def when(self, *vals, **kw):
        more = kw.get('more')
        if not self.cx.symbolic:
            return more
        roots = [_t(v) for v in vals if isinstance(v, (SymReal, T.Term))]
        facts = Trig(self.bases).facts(roots)
        facts += congruence(roots + facts, ALLTRIG)
        facts = [f for f in facts if f is not T.TRUE] + [_t(e) if not isinstance(e, SymBool) else e.t for e in self.extra]
        w = SymBool(T.land(*facts)) if facts else None
        if more is not None:
            w = more if w is None else (w & more)
        return w

    def __call__(self, label, a, b, kind='eq', more=None, roots=(), **kw):
        getattr(self.cx, kind)(label, a, b, when=self.when(a, b, *roots, more=more), **kw)


@contextlib.contextmanager
def patched(mod, **names):
    """temporarily rebind module globals (restores whatever was there, shim or original)"""
    missing = object()
    saved = {k: mod.__dict__.get(k, missing) for k in names}
    mod.__dict__.update(names)
    try:
        yield
    finally:
        for k, v in saved.items():
            if v is missing:
                mod.__dict__.pop(k, None)
            else:
                mod.__dict__[k] = v


def capturing_fsolve(cap, symbolic):
    """scipy.optimize.fsolve stand-in that records the residual function it is given.  Symbolic mode: returns a fresh
    unconstrained symbol (the defining equation is claimed separately, at the true solution); concrete mode: the real
    fsolve."""
    import scipy.optimize as so

    def f(func, x0, *a, **k):
        if symbolic:
            out = np.empty(1, dtype=object)
            out[0] = current().fresh('root')
        else:
            out = so.fsolve(func, x0, *a, **k)
        cap.append((func, out[0]))
        return out
    return f


def unknown_for(returned, raw, target, mk):
    """The code returns `returned' = raw + offset where raw is what fsolve gave back (offset 0 in the present code,
    the inflow angle if the equation were written in the stream's frame): the value of the unknown for which the
    code would return `target'.  Symbolic mode checks that returned - raw does not depend on raw."""
    if not Mode.symbolic(mk):
        return target - (returned - raw)
    r = _t(raw)
    off = T.sub(_t(returned), r)
    o0, o1 = T.substitute(off, {r: T.ZERO}), T.substitute(off, {r: T.ONE})
    import random
    rng = random.Random(7)
    for _ in range(3):
        env = {n: rng.uniform(0.3, 1.7) for n in T.free_vars([o0, o1])}
        env['PI'] = math.pi
        if abs(T.evalf(o0, env) - T.evalf(o1, env)) > 1e-9:
            raise T.NotEncodable('returned shock angle is not (fsolve result + constant)')
    return target - SymReal(o0)


def polar_arctan(x, *a, **k):
    """arctan(x tan(phi) / x) is phi for |phi| < pi/2 (asserted by the caller): keeps the polar angle of the evaluation
    point a plain term instead of an opaque atom"""
    if isinstance(x, SymReal):
        t = x.t
        if t.op == 'div' and t.args[0].op == 'mul':
            m1, m2 = t.args[0].args
            for xx, tt in ((m1, m2), (m2, m1)):
                if xx is t.args[1] and tt.op == 'fn' and tt.args[0] == 'tan':
                    return SymReal(tt.args[1])
        if t.op == 'fn' and t.args[0] == 'tan':
            return SymReal(t.args[1])
    return sym_arctan(x, *a, **k)


def fake_arrays(prob):
    """determine_state_functions only reads the end points of the tabulated pressure ranges: [p0, 10 p0] for
    compression, [1e-10, p0] for expansion (the linspace end points of setup_initial_arrays)"""
    for name, st in (('bottom', prob.bottom_state), ('top', prob.top_state)):
        p0 = st[0]
        z = 0 * p0
        setattr(prob, name + '_compression_arrays', [H.arr([p0, 10 * p0]), H.arr([z, z])])
        setattr(prob, name + '_expansion_arrays', [H.arr([1e-10 + z, p0]), H.arr([z, z])])


def one_sided(m, mk, side, tested, ps, gd, cap):
    """Run the real set_initial_state_values / determine_state_functions / set_starstate_values with the stream under
    test on `side' and a dummy stream (a shock of pressure ratio 2 at Mach 3, its own gamma) on the other side; the
    star pressure ps is given and the slip-line angle is the tested side's own pressure-deflection function at ps."""
    dummy = [ps / 2, K(mk, Fraction(13, 10)), K(mk, 3), K(mk, 0), K(mk, gd)]
    prob = new_prob()
    prob.bottom_state, prob.top_state = (dummy, tested) if side == 'T' else (tested, dummy)
    prob.set_initial_state_values()
    fake_arrays(prob)
    top_f, bot_f = prob.determine_state_functions(ps)
    prob.pressure_solution = ps
    prob.deflection_angle_solution = (top_f if side == 'T' else bot_f)(ps)
    with patched(m, fsolve=capturing_fsolve(cap, Mode.symbolic(mk))):
        prob.set_starstate_values()
    if Mode.symbolic(mk):
        # the dummy stream's shock lies on the dummy's side of the slip line
        if side == 'T':
            current().assume(T.lt(_t(prob.angles['BS']), _t(prob.angles['CD'])))
        else:
            current().assume(T.gt(_t(prob.angles['TS']), _t(prob.angles['CD'])))
    return prob


def side_vals(prob, side):
    """(inflow angle [rad], initial (p, rho, M, u, v), star (p, rho, M, u, v)) of one side"""
    if side == 'T':
        return prob.thetaT_rad, (prob.pT, prob.rT, prob.MT, prob.uT, prob.vT), tuple(prob.top_star_vals)
    return prob.thetaB_rad, (prob.pB, prob.rB, prob.MB, prob.uB, prob.vB), tuple(prob.bottom_star_vals)


def inflow_angle_deg(mk, theta_sym):
    """inflow angle in degrees, parametrised by its tangent `tth' (so that the solver's model of the trigonometric
    atoms is exact and witnesses replay faithfully)"""
    if not theta_sym:
        return K(mk, 0)
    t = K(mk, theta_sym) if isinstance(theta_sym, Fraction) else mk('tth')
    if Mode.symbolic(mk):
        return t.arctan() * (180 / SymReal(T.var('PI')))
    return math.degrees(math.atan(t))


def shock_angle(mk):
    """shock angle beta in (0, pi/2), parametrised by S = sin(beta)"""
    S = mk('S')
    return (S.arcsin() if Mode.symbolic(mk) else math.asin(S)), S


def theta_tag(theta_sym):
    return 'sym' if theta_sym is True else ('0' if not theta_sym else 'atan(%s)' % theta_sym)


def theta_text(theta_sym):
    return ('symbolic in (-59.5, 59.5) deg (parametrised by its tangent)' if theta_sym is True else
            '= 0' if not theta_sym else '= atan(%s)' % theta_sym)


def sgn(side):
    """+1: top stream (waves above the slip line, compression turns the flow counter-clockwise); -1: bottom"""
    return 1 if side == 'T' else -1


def base_domain(V, theta_sym, extra=()):
    d = [T.gt(V('p0'), T.const(Fraction(1, 10 ** 9))), T.gt(V('r0'), T.ZERO), T.gt(V('M0'), T.ONE)]
    if theta_sym is True:
        d += [T.gt(V('tth'), T.const(Fraction(-17, 10))), T.lt(V('tth'), T.const(Fraction(17, 10)))]
    return d + list(extra)


def shock_pressure(g, p0, M0, sb):
    """pressure behind an oblique shock of angle beta (normal-shock relation on the normal Mach number)"""
    return p0 * (1 + 2 * g / (g + 1) * (M0 * M0 * sb * sb - 1))


def shock_domain(V, g):
    g = T.const(g)
    S = V('S')
    mn2 = T.mul(T.mul(V('M0'), V('M0')), T.mul(S, S))
    a = T.add(T.ONE, T.mul(T.div(T.mul(T.TWO, g), T.add(g, T.ONE)), T.sub(mn2, T.ONE)))
    return [T.gt(mn2, T.ONE), T.lt(a, T.const(10)), T.gt(S, T.ZERO), T.lt(S, T.ONE)]


def fan_domain(V):
    return [T.gt(V('ps'), T.const(Fraction(1, 10 ** 9))), T.lt(V('ps'), V('p0'))]


# ------------------------------------------------------------------ kernels

class ShockKernel(Obligation):
    """compression_states == oblique-shock relations (conservation form, shock angle eliminated through
    the normal-shock pressure relation)"""

    def __init__(self, g):
        self.g = g
        self.m = H.mod(M2)
        self.id = 'C19.kernel.shock.g=%s' % (g if g is not None else 'sym')
        self.modules = [self.m]
        self.functions = [self.m.SetupRiemannProblem.compression_states]
        self.bounds = ('upstream pressure, density, Mach number > 1, flow angle and downstream pressure symbolic '
                       '(p0 < ps, normal Mach number below the upstream Mach number); gamma %s'
                       % ('symbolic > 1' if g is None else 'fixed'))
        self.timeout_s = 40

    def build(self, mk):
        g = gam(mk, self.g)
        p0, r0, M0, th, ps = mk('p0'), mk('r0'), mk('M0'), mk('th'), mk('ps')
        d, rs, Ms = new_prob().compression_states(ps, [p0, r0, M0, th, g])
        return dict(defl=d, tand=tan_of(d), rs=rs, Ms=Ms, _g=g)

    def domain(self, V):
        g = gterm(self.g)
        a = T.div(V('ps'), V('p0'))
        num = T.add(T.mul(T.add(g, T.ONE), a), T.sub(g, T.ONE))
        return [T.gt(V('p0'), T.ZERO), T.gt(V('r0'), T.ZERO), T.gt(V('M0'), T.ONE), T.gt(V('ps'), V('p0')),
                T.lt(num, T.mul(T.mul(T.TWO, g), T.mul(V('M0'), V('M0')))),
                T.gt(V('th'), T.const(-90)), T.lt(V('th'), T.const(90))] + gdom(self.g)

    def claims(self, cx):
        g = cx['_g']
        p0, r0, M0, ps = cx.p('p0'), cx.p('r0'), cx.p('M0'), cx.p('ps')
        rs, Ms, tand = cx['rs'], cx['Ms'], cx['tand']
        a = ps / p0
        s = ((g + 1) * a + g - 1) / (2 * g * M0 * M0)       # sin^2(shock angle): normal-shock pressure relation
        q2 = M0 * M0 * g * p0 / r0                            # upstream speed^2
        un0 = q2 * s                                          # upstream normal velocity^2
        k = r0 / rs                                           # mass: un1 = un0 * r0/rs
        un1 = un0 * k * k
        cx.gt('shock compresses', rs, r0)
        cx.eq('shock: normal momentum', p0 + r0 * un0, ps + rs * un1)
        cx.eq('shock: total enthalpy', g / (g - 1) * p0 / r0 + un0 / 2, g / (g - 1) * ps / rs + un1 / 2)
        cx.eq('shock: downstream Mach number (tangential velocity conserved)', Ms * Ms * g * ps / rs, un1 + q2 * (1 - s))
        tanb = cx.sqrt(s / (1 - s))
        cx.eq('shock: deflection angle', tand * (1 + k * tanb * tanb), tanb * (1 - k))
        cx.gt('shock: deflection > 0', tand, 0)
        cx.lt('shock: deflection < shock angle', tand, tanb)


class PMKernel(Obligation):
    """PrandtlMeyer_function is THE Prandtl-Meyer function: nu(1) = 0 and d nu/dM = sqrt(M^2-1)/(M (1+(g-1)M^2/2))"""

    def __init__(self, g):
        self.g = g
        self.m = H.mod(M2)
        self.id = 'C19.kernel.prandtl_meyer.g=%s' % (g if g is not None else 'sym')
        self.modules = [self.m]
        self.functions = [self.m.SetupRiemannProblem.PrandtlMeyer_function]
        self.bounds = 'Mach number > 1 symbolic; gamma %s' % ('symbolic > 1' if g is None else 'fixed')
        self.timeout_s = 40

    def build(self, mk):
        g = gam(mk, self.g)
        prob = new_prob()
        return dict(nu=prob.PrandtlMeyer_function(mk('M'), g), nu1=prob.PrandtlMeyer_function(K(mk, 1), g), _g=g)

    def domain(self, V):
        return [T.gt(V('M'), T.ONE)] + gdom(self.g)

    def claims(self, cx):
        g, M = cx['_g'], cx.p('M')
        cx.eq('nu(1) == 0', cx['nu1'], 0, scale=[1.0] if not cx.symbolic else None)
        cx.eq('d nu/dM == sqrt(M^2-1)/(M (1+(g-1)M^2/2))', cx.d(lambda c: c['nu'], 'M'),
              cx.sqrt(M * M - 1) / (M * (1 + (g - 1) * M * M / 2)), tol=1e-5)


class FanKernel(Obligation):
    """expansion_states: isentropic, constant total enthalpy, turning = Prandtl-Meyer angle"""

    def __init__(self, g):
        self.g = g
        self.m = H.mod(M2)
        self.id = 'C19.kernel.fan.g=%s' % g
        self.modules = [self.m]
        self.functions = [self.m.SetupRiemannProblem.expansion_states, self.m.SetupRiemannProblem.PrandtlMeyer_function]
        self.bounds = ('upstream pressure, density, Mach number > 1, flow angle and downstream pressure 0 < ps < p0 '
                       'symbolic; gamma fixed per obligation')
        self.timeout_s = 40

    def build(self, mk):
        g = K(mk, self.g)
        p0, r0, M0, th, ps = mk('p0'), mk('r0'), mk('M0'), mk('th'), mk('ps')
        prob = new_prob()
        st = [p0, r0, M0, th, g]
        d, rs, Ms = prob.expansion_states(ps, st)
        d0, rs0, Ms0 = prob.expansion_states(p0, st)
        nud = prob.PrandtlMeyer_function(M0, g) - prob.PrandtlMeyer_function(Ms, g)
        out = dict(defl=d, rs=rs, Ms=Ms, defl0=d0, rs0=rs0, Ms0=Ms0, nud=nud, _g=g)
        if Mode.symbolic(mk):
            assume_all(congruence(out_terms(out)))
        return out

    def domain(self, V):
        return [T.gt(V('p0'), T.ZERO), T.gt(V('r0'), T.ZERO), T.gt(V('M0'), T.ONE), T.gt(V('ps'), T.ZERO),
                T.lt(V('ps'), V('p0')), T.gt(V('th'), T.const(-90)), T.lt(V('th'), T.const(90))]

    def claims(self, cx):
        g = cx['_g']
        n, d = self.g.numerator, self.g.denominator
        p0, r0, M0, ps = cx.p('p0'), cx.p('r0'), cx.p('M0'), cx.p('ps')
        rs, Ms = cx['rs'], cx['Ms']
        cx.eq('fan: isentropic (p/rho^gamma constant)', (rs / r0) ** n, (ps / p0) ** d)
        cx.eq('fan: total enthalpy constant', g / (g - 1) * p0 / r0 * (1 + (g - 1) / 2 * M0 * M0),
              g / (g - 1) * ps / rs * (1 + (g - 1) / 2 * Ms * Ms))
        cx.gt('fan: expansion accelerates', Ms, M0)
        cx.eq('fan: coded turning is nu(M0)-nu(Ms) of the coded Prandtl-Meyer function', cx['defl'], cx['nud'])
        cx.eq('fan: d(turning)/dp == sqrt(M^2-1)/(gamma M^2 p)', cx.d(lambda c: c['defl'], 'ps'),
              cx.sqrt(Ms * Ms - 1) / (g * Ms * Ms * ps), tol=1e-5)
        one = [1.0] if not cx.symbolic else None
        cx.eq('fan: no turning at ps == p0', cx['defl0'], 0, scale=one)
        cx.eq('fan: density unchanged at ps == p0', cx['rs0'], r0)
        cx.eq('fan: Mach number unchanged at ps == p0', cx['Ms0'], M0)


class ShockGlue(Obligation):
    """Oracle consistency (no ExactPack code): the scalar oblique-shock relations claimed by kernel.shock together with
    the velocity lemmas claimed by shock.<side> imply the 2-D jump conditions (tangential velocity, mass, normal
    momentum, total enthalpy) across the ray at angle beta from the inflow direction."""

    def __init__(self, side):
        self.side = side
        self.id = 'C19.oracle.shock-glue.%s' % side
        self.modules = []
        self.functions = []
        self.bounds = 'pure real arithmetic over abstract states (gamma symbolic); written in the frame aligned with the inflow'
        self.timeout_s = 50
        self.skip_validation = True

    NAMES = 'p0 r0 M0 S C Q0 r1 M1sq td a1 b1 g'.split()

    def build(self, mk):
        return {n: mk(n) for n in self.NAMES}

    def domain(self, V):
        p0, r0, M0, S, C, Q0, r1, M1sq, td, a1, b1, g = (SymReal(V(n)) for n in self.NAMES)
        sg = sgn(self.side)
        p1 = shock_pressure(g, p0, M0, S)
        un0 = Q0 * Q0 * S * S
        k = r0 / r1
        un1 = un0 * k * k
        hyp = [p0 > 0, r0 > 0, M0 > 1, g > 1, S > 0, C > 0, S * S + C * C == 1, M0 * M0 * S * S > 1, Q0 > 0,
               Q0 * Q0 == M0 * M0 * g * p0 / r0, r1 > r0, M1sq > 0,
               p0 + r0 * un0 == p1 + r1 * un1,
               g / (g - 1) * p0 / r0 + un0 / 2 == g / (g - 1) * p1 / r1 + un1 / 2,
               M1sq * g * p1 / r1 == un1 + Q0 * Q0 * (1 - S * S),
               td * (1 + k * (S / C) * (S / C)) == (S / C) * (1 - k), td > 0,
               a1 > 0, b1 == sg * td * a1, a1 * a1 + b1 * b1 == M1sq * g * p1 / r1]
        return [h.t for h in hyp]

    def claims(self, cx):
        p0, r0, M0, S, C, Q0, r1, M1sq, td, a1, b1, g = (cx[n] for n in self.NAMES)
        sg = sgn(self.side)
        p1 = shock_pressure(g, p0, M0, S)
        un0, ut0 = -sg * S * Q0, C * Q0
        un1, ut1 = -sg * S * a1 + C * b1, C * a1 + sg * S * b1
        cx.eq('glue: tangential velocity continuous', ut0, ut1)
        cx.eq('glue: mass flux continuous', r0 * un0, r1 * un1)
        cx.eq('glue: normal momentum flux continuous', p0 + r0 * un0 * un0, p1 + r1 * un1 * un1)
        cx.eq('glue: total enthalpy continuous', g / (g - 1) * p0 / r0 + Q0 * Q0 / 2,
              g / (g - 1) * p1 / r1 + (a1 * a1 + b1 * b1) / 2)


# ------------------------------------------------------------------ one stream, one wave: star state and wave angles

def inflow_and_star_claims(cx, eq, g, sg, label_turn):
    """claims shared by the shock and fan one-stream obligations (velocities in the frame aligned with the inflow)"""
    p0, r0, M0, u0, v0 = (cx[k + '0'] for k in 'prMuv')
    p1, r1, M1, u1, v1 = (cx[k + '1'] for k in 'prMuv')
    cth, sth = cx['cth'], cx['sth']
    a0, b0 = u0 * cth + v0 * sth, -u0 * sth + v0 * cth
    eq('inflow velocity: directed along the inflow angle', b0, 0, scale=[a0, 1e-300])
    eq('inflow velocity: positive along the inflow angle', a0, 0, kind='gt')
    eq('inflow velocity: speed == Mach number * sound speed', u0 * u0 + v0 * v0, M0 * M0 * g * p0 / r0)
    eq('star state: pressure is the star pressure', p1, cx['ps'])
    eq('star state: density is the wave relation at the star pressure', r1, cx['krs'])
    eq('star state: Mach number is the wave relation at the star pressure', M1, cx['kMs'])
    eq('star state: speed == Mach number * sound speed', u1 * u1 + v1 * v1, M1 * M1 * g * p1 / r1)
    cE, sE = cx['cE'], cx['sE']
    eq('star state: ' + label_turn, v1 * cE, u1 * sE, scale=[u1, v1])
    eq('star state: velocity points along the turned direction (not against it)', u1 * cE + v1 * sE, 0, kind='gt')
    eq('slip-line angle (CD) is the star flow direction', cx['vcd'] * cE, cx['ucd'] * sE, scale=[1.0])


def common_outputs(mk, prob, side, g, ps, kern):
    thr, ini, star = side_vals(prob, side)
    kd, krs, kMs = kern
    E = thr + sgn(side) * kd                                  # oracle: inflow angle +/- turning of the wave at ps
    cd = prob.angles['CD']
    out = dict(_g=g, ps=ps, krs=krs, kMs=kMs, cth=fcos(thr), sth=fsin(thr), cE=fcos(E), sE=fsin(E),
               ucd=fcos(cd), vcd=fsin(cd), _bases=(), _morph=prob.morphology)
    for k, v in zip('prMuv', ini):
        out[k + '0'] = v
    for k, v in zip('prMuv', star):
        out[k + '1'] = v
    return out, thr, E


class ShockSide(Obligation):
    """A stream turned by an oblique shock: inflow and star velocities, star state composition, and the coded
    shock-angle equation evaluated at the true shock ray."""

    def __init__(self, side, g, gd, theta_sym):
        self.side, self.g, self.gd, self.theta_sym = side, g, gd, theta_sym
        self.m = H.mod(M2)
        self.id = 'C19.shock.%s.theta=%s.g=%s' % (side, theta_tag(theta_sym), g)
        self.modules = [self.m]
        c = self.m.SetupRiemannProblem
        self.functions = [c.set_initial_state_values, c.determine_state_functions, c.compression_states,
                          c.determine_shock_angle, c.set_starstate_values]
        self.bounds = ('one stream (pressure, density, Mach number, inflow angle %s) and the shock angle beta symbolic, star '
                       'pressure = normal-shock pressure for beta (< 10 p0); gamma fixed; other stream: fixed dummy'
                       % theta_text(theta_sym))
        self.timeout_s = 50
        self.skip_validation = True
        self.stage_a = False

    def build(self, mk):
        g = K(mk, self.g)
        p0, r0, M0 = mk('p0'), mk('r0'), mk('M0')
        th = inflow_angle_deg(mk, self.theta_sym)
        beta, S = shock_angle(mk)
        ps = shock_pressure(g, p0, M0, S)
        cap = []
        tested = [p0, r0, M0, th, g]
        prob = one_sided(self.m, mk, self.side, tested, ps, self.gd, cap)
        out, thr, E = common_outputs(mk, prob, self.side, g, ps, prob.compression_states(ps, tested))
        x = thr + sgn(self.side) * beta                        # the true shock ray
        func, raw = cap[1 if self.side == 'T' else 0]
        # coded residual of the shock-angle equation at the value of its unknown that makes the code return x
        out['res'] = func(unknown_for(prob.angles['TS' if self.side == 'T' else 'BS'], raw, x, mk))
        out['tcd'] = ftan(prob.deflection_angle_solution)
        if not Mode.symbolic(mk):
            out['coded_angle'] = prob.angles['TS' if self.side == 'T' else 'BS']
            out['true_angle'] = x
        return out

    def domain(self, V):
        return base_domain(V, self.theta_sym, shock_domain(V, self.g))

    def claims(self, cx):
        g = cx['_g']
        eq = TrigClaims(cx, cx['_bases'])
        inflow_and_star_claims(cx, eq, g, sgn(self.side), 'flow direction == inflow angle turned towards the shock by the deflection')
        if self.theta_sym is not True or self.tier == 'thorough':
            # (symbolic inflow angle: the exact trigonometric system is beyond the quick-tier time limit)
            eq('coded shock-angle equation holds at the true shock angle', cx['res'], 0,
               scale=[cx['tcd'], cx['res'] + cx['tcd'], 1e-3])


class FanSide(Obligation):
    """A stream turned by a Prandtl-Meyer fan: inflow and star velocities, star state composition, fan head and tail
    rays are Mach lines of the states they bound."""

    def __init__(self, side, g, gd, theta_sym):
        self.side, self.g, self.gd, self.theta_sym = side, g, gd, theta_sym
        self.m = H.mod(M2)
        self.id = 'C19.fan.%s.theta=%s.g=%s' % (side, theta_tag(theta_sym), g)
        self.modules = [self.m]
        c = self.m.SetupRiemannProblem
        self.functions = [c.set_initial_state_values, c.determine_state_functions, c.expansion_states,
                          c.PrandtlMeyer_function, c.set_starstate_values]
        self.bounds = ('one stream (pressure, density, Mach number, inflow angle %s) and the star pressure 1e-9 < ps < p0 '
                       'symbolic; gamma fixed; other stream: fixed dummy'
                       % theta_text(theta_sym))
        self.timeout_s = 50
        self.skip_validation = True
        self.stage_a = False

    def build(self, mk):
        g = K(mk, self.g)
        p0, r0, M0, ps = mk('p0'), mk('r0'), mk('M0'), mk('ps')
        th = inflow_angle_deg(mk, self.theta_sym)
        tested = [p0, r0, M0, th, g]
        prob = one_sided(self.m, mk, self.side, tested, ps, self.gd, [])
        out, thr, E = common_outputs(mk, prob, self.side, g, ps, prob.expansion_states(ps, tested))
        out['_bases'] = (prob.angles['CD'],)
        fan = prob.angles['TR' if self.side == 'T' else 'BR']
        head, tail = (fan[1], fan[0]) if self.side == 'T' else (fan[0], fan[1])
        out.update(ch=fcos(head), sh=fsin(head), ct=fcos(tail), st=fsin(tail))
        return out

    def domain(self, V):
        return base_domain(V, self.theta_sym, fan_domain(V))

    def claims(self, cx):
        g, sg = cx['_g'], sgn(self.side)
        eq = TrigClaims(cx, cx['_bases'])
        inflow_and_star_claims(cx, eq, g, sg, 'flow direction == inflow angle turned away from the fan by the Prandtl-Meyer turning')
        p0, r0, u0, v0 = cx['p0'], cx['r0'], cx['u0'], cx['v0']
        p1, r1, u1, v1 = cx['p1'], cx['r1'], cx['u1'], cx['v1']
        # a ray of a centred simple wave is a Mach line: the velocity component normal to it is the sound speed
        eq('fan head is the Mach line of the inflow', -u0 * cx['sh'] + v0 * cx['ch'], -sg * cx.sqrt(g * p0 / r0))
        eq('fan tail is the Mach line of the star state', -u1 * cx['st'] + v1 * cx['ct'], -sg * cx.sqrt(g * p1 / r1))


# ------------------------------------------------------------------ assign_lineout_vals: every polar angle, by region

FIELDS = ('p', 'r', 'sie', 'M', 'u', 'v', 'speed')
FIELD_NAMES = ('pressure', 'density', 'specific_internal_energy', 'Mach', 'x_velocity', 'y_velocity', 'speed')


class Lineout(Obligation):
    """IGEOS_Solver._run / assign_lineout_vals at a point of polar angle phi = A + tau (B - A), 0 < tau < 1, where
    (A, B) are the coded wave angles bounding one region of the tested stream (or +-pi/2)."""

    def __init__(self, side, wave, region, g, gd, theta_sym=True, box=False):
        self.side, self.wave, self.region, self.g, self.gd, self.theta_sym = side, wave, region, g, gd, theta_sym
        self.box = box
        self.m = H.mod(M2)
        self.id = 'C19.lineout.%s.%s.%s.g=%s%s' % (side, wave, region, g, '.box' if box else '')
        self.mw = H.mod(MW)
        self.modules = [self.m, self.mw]
        self.extra_shim = {'ExactSolution': Recorder}
        c = self.m.SetupRiemannProblem
        self.functions = [self.mw.IGEOS_Solver._run, c.set_initial_state_values, c.determine_state_functions,
                          c.set_starstate_values, c.assign_lineout_vals,
                          c.expansion_states if wave == 'R' else c.compression_states]
        self.bounds = ('one stream and the star pressure / shock angle symbolic, inflow angle %s, '
                       'evaluation point (x > 0, polar angle at fraction tau in (0,1) of region "%s") symbolic; gamma fixed; '
                       'other stream: fixed dummy' % (theta_text(theta_sym), region))
        if box:
            # same claims on a moderate box of inputs: there the coded wave angles are ordered and inside (-pi/2, pi/2)
            # for the real functions too, so that solver witnesses replay on the path they were found on
            self.bounds += '; box: Mach number in (2, 5), |inflow angle| < atan(1/2), star pressure in (p0/4, p0) resp. (p0, 4 p0)'
        self.timeout_s = 50
        self.skip_validation = True
        self.stage_a = False
        self.max_paths = 40

    def build(self, mk):
        g = K(mk, self.g)
        p0, r0, M0 = mk('p0'), mk('r0'), mk('M0')
        th = inflow_angle_deg(mk, self.theta_sym)
        tested = [p0, r0, M0, th, g]
        sg = sgn(self.side)
        if self.wave == 'S':
            ps = shock_pressure(g, p0, M0, shock_angle(mk)[1])
        else:
            ps = mk('ps')
        prob = one_sided(self.m, mk, self.side, tested, ps, self.gd, [])
        thr, ini, star = side_vals(prob, self.side)
        cd = prob.angles['CD']
        half_pi = fpi(mk) / 2
        if self.wave == 'S':
            inner = outer = prob.angles['TS' if self.side == 'T' else 'BS']
        else:
            fan = prob.angles['TR' if self.side == 'T' else 'BR']
            outer, inner = (fan[1], fan[0]) if self.side == 'T' else (fan[0], fan[1])
        A, B = {'star': (cd, inner), 'fan': (inner, outer), 'outer': (outer, sg * half_pi)}[self.region]
        tau, x = mk('tau'), mk('x')
        psi = tau * (B - A)
        phi = A + psi
        # the coded wave angles of the tested stream are ordered as they should be: slip line, inner edge, outer edge
        order = [sg * (inner - cd) > 0, half_pi - sg * outer > 0, cd > -half_pi, cd < half_pi]
        if self.wave == 'R':
            order.append(sg * (outer - inner) > 0)
        # the public entry point: IGEOS_Solver._run builds the problem object (here: the one prepared above, its
        # constructor's tabulated search being outside the claim), calls assign_lineout_vals and names the fields
        solver = H.new_solver(self.mw.IGEOS_Solver, dict(bottom_state=prob.bottom_state, top_state=prob.top_state))

        class factory(object):
            SetupRiemannProblem = staticmethod(lambda bottom_state, top_state: prob)
        point = H.mat([[x, x * ftan(phi)]])
        if Mode.symbolic(mk):
            assume_all([o.t for o in order])
            sane = True
            with patched(self.m, arctan=polar_arctan), patched(self.mw, riemann2D_2section_steadystate=factory):
                sol = solver(point, 1.0)
        else:
            import scipy.optimize as so
            calls = []

            def rec_fsolve(func, x0, *a, **k):
                r = so.fsolve(func, x0, *a, **k)
                calls.append(abs(float(np.ravel(func(r[0]))[0])))
                return r
            with patched(self.m, fsolve=rec_fsolve), patched(self.mw, riemann2D_2section_steadystate=factory):
                sol = solver(point, 1.0)
            # outside the claim: disordered coded angles, and a real fsolve that did not converge inside the fan
            sane = all(bool(o) for o in order) and all(c < 1e-9 for c in calls)
        f = H.first(H.fields(sol))
        out = {k: f[n] for k, n in zip(FIELDS, FIELD_NAMES)}
        out.update(_g=g, _sane=sane, phi=phi, x_out=f['x_position'], y_out=f['y_position'],
                   x_in=x, y_in=x * ftan(phi), cphi=fcos(phi), sphi=fsin(phi), thr=thr, _bases=(cd, psi))
        for k, v in zip('prMuv', ini):
            out[k + '0'] = v
        for k, v in zip('prMuv', star):
            out[k + '1'] = v
        if self.region == 'fan':
            kd = prob.expansion_states(out['p'], tested)[0]
            E = thr + sg * kd
            out.update(cE=fcos(E), sE=fsin(E))
            if Mode.symbolic(mk):
                # hint for the solver only: the flow direction that would make the ray a Mach line, phi -/+ asin(1/M)
                ml = phi - sg * (1. / out['M']).arcsin()
                out['_hint'] = (ml.cos(), ml.sin())
        return out

    def domain(self, V):
        d = base_domain(V, self.theta_sym, shock_domain(V, self.g) if self.wave == 'S' else fan_domain(V))
        if self.box:
            d += [T.gt(V('M0'), T.TWO), T.lt(V('M0'), T.const(5)), T.gt(V('tth'), T.const(Fraction(-1, 2))),
                  T.lt(V('tth'), T.HALF), T.gt(V('tau'), T.const(Fraction(1, 10))), T.lt(V('tau'), T.const(Fraction(9, 10)))]
            if self.wave == 'R':
                d.append(T.gt(T.mul(T.const(4), V('ps')), V('p0')))
            else:
                g = T.const(self.g)
                mn2 = T.mul(T.mul(V('M0'), V('M0')), T.mul(V('S'), V('S')))
                d.append(T.lt(T.add(T.ONE, T.mul(T.div(T.mul(T.TWO, g), T.add(g, T.ONE)), T.sub(mn2, T.ONE))), T.const(4)))
        return d + [T.gt(V('tau'), T.ZERO), T.lt(V('tau'), T.ONE), T.gt(V('x'), T.ZERO)]

    def claims(self, cx):
        g, sg = cx['_g'], sgn(self.side)
        sane = None if cx.symbolic else cx['_sane']
        eq = TrigClaims(cx, cx['_bases'])
        p, r, sie, M, u, v, speed = (cx[k] for k in FIELDS)
        cx.eq('returned position is the evaluation point (x)', cx['x_out'], cx['x_in'])
        cx.eq('returned position is the evaluation point (y)', cx['y_out'], cx['y_in'])
        if self.region in ('star', 'outer'):
            exp = [cx[k + ('1' if self.region == 'star' else '0')] for k in 'prMuv']
            what = 'star state' if self.region == 'star' else 'undisturbed inflow state'
            for name, got, want in zip(('pressure', 'density', 'Mach', 'x_velocity', 'y_velocity'), (p, r, M, u, v), exp):
                cx.eq('region %s: %s is the %s' % (self.region, name, what), got, want, when=sane)
        else:
            p0, r0, M0 = cx['p0'], cx['r0'], cx['M0']
            n, d = self.g.numerator, self.g.denominator
            cx.eq('fan interior: isentropic (p/rho^gamma of the inflow)', (r / r0) ** n, (p / p0) ** d, when=sane)
            cx.eq('fan interior: total enthalpy of the inflow', g / (g - 1) * p0 / r0 * (1 + (g - 1) / 2 * M0 * M0),
                  g / (g - 1) * p / r * (1 + (g - 1) / 2 * M * M), when=sane)
            eq('fan interior: flow direction == inflow angle turned by the Prandtl-Meyer turning of the local pressure',
               v * cx['cE'], u * cx['sE'], more=sane, scale=[u, v])
            eq('fan interior: velocity points along the turned direction (not against it)', u * cx['cE'] + v * cx['sE'], 0,
               kind='gt', more=sane)
            eq('fan interior: the ray through the point is a Mach line (normal velocity == sound speed)',
               -u * cx['sphi'] + v * cx['cphi'], -sg * cx.sqrt(g * p / r), more=sane,
               roots=[cx['phi']] + (list(cx['_hint']) if cx.symbolic else []))
        cx.eq('all regions: specific internal energy == p/(rho (gamma-1))', sie * r * (g - 1), p, when=sane)
        cx.eq('all regions: speed^2 == u^2 + v^2', speed * speed, u * u + v * v, when=sane)
        cx.ge('all regions: speed >= 0', speed, 0, when=sane)
        cx.eq('all regions: speed == Mach number * sound speed', u * u + v * v, M * M * g * p / r, when=sane)


# ------------------------------------------------------------------ find_overlap: curves and slip-line balance

class OverlapCurves(Obligation):
    """find_overlap, cut before its tabulated search, on one-entry tables: the curves handed to the search are the
    documented Phi_B(p) = theta_B - deflection_B(p) and Phi_T(p) = theta_T + deflection_T(p)."""

    def __init__(self, gB, gT):
        self.gB, self.gT = gB, gT
        self.m = H.mod(M2)
        self.id = 'C19.overlap.curves.gB=%s.gT=%s' % (gB, gT)
        self.modules = [self.m]
        c = self.m.SetupRiemannProblem
        self.functions = [c.set_initial_state_values, c.find_overlap, c.compression_states, c.expansion_states]
        self.bounds = ('both streams symbolic (inflow angles in (-60, 60) deg); one tabulated compression pressure and one '
                       'expansion pressure per stream, symbolic; gamma pair fixed')
        self.timeout_s = 40

    def build(self, mk):
        prob = new_prob()
        sts = {}
        for s_, g in (('B', self.gB), ('T', self.gT)):
            sts[s_] = [mk('p' + s_), mk('r' + s_), mk('M' + s_), mk('th' + s_), K(mk, g)]
        prob.bottom_state, prob.top_state = sts['B'], sts['T']
        prob.set_initial_state_values()
        defl = {}
        for s_, name in (('B', 'bottom'), ('T', 'top')):
            pc, pe = mk('pc' + s_), mk('pe' + s_)
            dc = prob.compression_states(pc, sts[s_])[0]
            de = prob.expansion_states(pe, sts[s_])[0]
            setattr(prob, name + '_compression_arrays', [H.arr([pc]), H.arr([dc])])
            setattr(prob, name + '_expansion_arrays', [H.arr([pe]), H.arr([de])])
            defl[s_] = (dc, de)
        try:
            with patched(self.m, linspace=stubs.cut_here, min=stubs.sym_min, max=stubs.sym_max):
                prob.find_overlap()
            raise RuntimeError('find_overlap was not cut')
        except stubs.Cut as c:
            L = c.locals
        dB, dT = L['dB'], L['dT']
        return dict(dB_c=dB[0], dB_e=dB[1], dT_e=dT[0], dT_c=dT[1], thB=prob.thetaB_rad, thT=prob.thetaT_rad,
                    dcB=defl['B'][0], deB=defl['B'][1], dcT=defl['T'][0], deT=defl['T'][1])

    def domain(self, V):
        d = []
        for s_, g in (('B', self.gB), ('T', self.gT)):
            g = T.const(g)
            a = T.div(V('pc' + s_), V('p' + s_))
            num = T.add(T.mul(T.add(g, T.ONE), a), T.sub(g, T.ONE))     # 2 g M^2 sin^2(shock angle), kept below 0.95 * 2 g M^2
            d += [T.gt(V('p' + s_), T.ZERO), T.gt(V('r' + s_), T.ZERO), T.gt(V('M' + s_), T.ONE),
                  T.gt(V('th' + s_), T.const(-60)), T.lt(V('th' + s_), T.const(60)),
                  T.gt(V('pc' + s_), V('p' + s_)), T.gt(V('pe' + s_), T.ZERO), T.lt(V('pe' + s_), V('p' + s_)),
                  T.lt(num, T.mul(T.const(Fraction(19, 10)), T.mul(g, T.mul(V('M' + s_), V('M' + s_)))))]
        return d

    def claims(self, cx):
        one = [1.0] if not cx.symbolic else None
        cx.eq('bottom pressure-deflection curve (compression) is theta_B - deflection', cx['dB_c'], cx['thB'] - cx['dcB'], scale=one)
        cx.eq('bottom pressure-deflection curve (expansion) is theta_B - deflection', cx['dB_e'], cx['thB'] - cx['deB'], scale=one)
        cx.eq('top pressure-deflection curve (compression) is theta_T + deflection', cx['dT_c'], cx['thT'] + cx['dcT'], scale=one)
        cx.eq('top pressure-deflection curve (expansion) is theta_T + deflection', cx['dT_e'], cx['thT'] + cx['deT'], scale=one)


class Slip(Obligation):
    """find_overlap (tabulated search replaced by a symbol, fsolve by its contract) + set_starstate_values on two
    symbolic streams: the slip line is balanced and both star states are the wave relations at the common pressure."""

    def __init__(self, gB, gT):
        self.gB, self.gT = gB, gT
        self.m = H.mod(M2)
        self.id = 'C19.slip.gB=%s.gT=%s' % (gB, gT)
        self.modules = [self.m]
        c = self.m.SetupRiemannProblem
        self.functions = [c.set_initial_state_values, c.find_overlap, c.determine_state_functions, c.set_starstate_values,
                          c.compression_states, c.expansion_states]
        self.bounds = ('both streams symbolic (inflow angles in (-60, 60) deg), star pressure = any zero of the coded '
                       'balance equation inside the tabulated range of the wave pattern; all four wave patterns = paths; '
                       'gamma pair fixed')
        self.timeout_s = 40
        self.skip_validation = True
        self.max_paths = 40

    def build(self, mk):
        sts = {}
        for s_, g in (('B', self.gB), ('T', self.gT)):
            sts[s_] = [mk('p' + s_), mk('r' + s_), mk('M' + s_), mk('th' + s_), K(mk, g)]
        if Mode.symbolic(mk):
            prob = new_prob()
            prob.bottom_state, prob.top_state = sts['B'], sts['T']
            prob.set_initial_state_values()
            fake_arrays(prob)
            pstar = mk('pstar')
            nothing = lambda *a, **k: None

            def guess_is_root(func, x0, *a, **k):
                current().assume(T.eq(_t(func(x0)), T.ZERO))
                out = np.empty(1, dtype=object)
                out[0] = x0
                return out
            with patched(self.m, append=nothing, min=nothing, max=nothing, linspace=nothing, bisect=nothing,
                         interp=lambda *a, **k: pstar, fsolve=guess_is_root):
                prob.find_overlap()
            with patched(self.m, fsolve=capturing_fsolve([], True)):
                prob.set_starstate_values()
        else:
            prob = self.m.SetupRiemannProblem(bottom_state=sts['B'], top_state=sts['T'])
        ps = prob.pressure_solution
        morph = prob.morphology
        out = dict(_morph=morph, ps=ps, cd=prob.deflection_angle_solution, thB=prob.thetaB_rad, thT=prob.thetaT_rad,
                   _gB=sts['B'][4], _gT=sts['T'][4])
        for s_, w in (('B', morph[0]), ('T', morph[4])):
            kern = (prob.expansion_states if w == 'R' else prob.compression_states)(ps, sts[s_])
            out.update({'kd' + s_: kern[0], 'kr' + s_: kern[1], 'kM' + s_: kern[2]})
            out['p0' + s_] = sts[s_][0]
        for k, v in zip('prMuv', prob.bottom_star_vals):
            out[k + 'B'] = v
        for k, v in zip('prMuv', prob.top_star_vals):
            out[k + 'T'] = v
        return out

    def domain(self, V):
        d = [T.gt(V('pstar'), T.const(Fraction(1, 10 ** 9)))]
        for s_ in 'BT':
            d += [T.gt(V('p' + s_), T.const(Fraction(1, 10 ** 9))), T.gt(V('r' + s_), T.ZERO), T.gt(V('M' + s_), T.ONE),
                  T.gt(V('th' + s_), T.const(-60)), T.lt(V('th' + s_), T.const(60))]
        return d

    def claims(self, cx):
        m = cx['_morph']
        one = [1.0] if not cx.symbolic else None
        tag = m + ': '
        ps = cx['ps']
        cx.eq(tag + 'slip angle == theta_B - turning of the bottom wave at p*', cx['cd'], cx['thB'] - cx['kdB'], scale=one)
        cx.eq(tag + 'slip angle == theta_T + turning of the top wave at p*', cx['cd'], cx['thT'] + cx['kdT'], scale=one)
        if m[0] == 'S':
            cx.gt(tag + 'bottom shock compresses (p* > p_B)', ps, cx['p0B'])
        else:
            cx.lt(tag + 'bottom fan expands (p* < p_B)', ps, cx['p0B'])
        if m[4] == 'S':
            cx.gt(tag + 'top shock compresses (p* > p_T)', ps, cx['p0T'])
        else:
            cx.lt(tag + 'top fan expands (p* < p_T)', ps, cx['p0T'])
        cx.eq(tag + 'pressure equal across the slip line', cx['pB'], cx['pT'])
        cx.eq(tag + 'flow direction equal across the slip line', cx['uB'] * cx['vT'], cx['vB'] * cx['uT'])
        cx.gt(tag + 'flows on both sides of the slip line point the same way', cx['uB'] * cx['uT'] + cx['vB'] * cx['vT'], 0)
        for s_, g in (('B', cx['_gB']), ('T', cx['_gT'])):
            cx.eq(tag + '%s star pressure is p*' % s_, cx['p' + s_], ps)
            cx.eq(tag + '%s star density is the wave relation at p*' % s_, cx['r' + s_], cx['kr' + s_])
            cx.eq(tag + '%s star Mach number is the wave relation at p*' % s_, cx['M' + s_], cx['kM' + s_])
            cx.eq(tag + '%s star speed == Mach number * sound speed' % s_, cx['u' + s_] * cx['u' + s_] + cx['v' + s_] * cx['v' + s_],
                  cx['M' + s_] * cx['M' + s_] * g * cx['p' + s_] / cx['r' + s_])


def obligations(tier):
    obs = []
    gs = G_QUICK if tier == 'quick' else G_FULL
    obs.append(ShockKernel(None))
    obs.append(PMKernel(None))
    for g in gs:
        obs.append(FanKernel(g))
    for side in 'TB':
        obs.append(ShockGlue(side))
    other = {Fraction(7, 5): Fraction(5, 3)}
    for g in gs:
        gd = other.get(g, Fraction(7, 5))
        for side, tq in (('T', Fraction(3, 4)), ('B', Fraction(-5, 12))):
            for theta_sym in (False, True, tq):
                obs.append(ShockSide(side, g, gd, theta_sym))
            obs.append(FanSide(side, g, gd, True))
    g0 = Fraction(7, 5)
    for g in ([g0] if tier == 'quick' else gs):
        gd = other.get(g, Fraction(7, 5))
        for side in 'TB':
            for wave, regions in (('S', ('star', 'outer')), ('R', ('star', 'fan', 'outer'))):
                for region in regions:
                    obs.append(Lineout(side, wave, region, g, gd))
                    if region == 'fan' or tier == 'thorough':
                        obs.append(Lineout(side, wave, region, g, gd, box=True))
    pairs = [(Fraction(7, 5), Fraction(7, 5)), (Fraction(7, 5), Fraction(5, 3))]
    if tier == 'thorough':
        pairs += [(Fraction(5, 3), Fraction(7, 5)), (Fraction(5, 3), Fraction(5, 3)), (Fraction(3), Fraction(6, 5))]
    for gB, gT in pairs:
        obs.append(OverlapCurves(gB, gT))
        obs.append(Slip(gB, gT))
    for o in obs:
        o.tier = tier
    return obs
