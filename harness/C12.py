"""C12 -- radiative shocks are steady travelling waves conserving total fluxes."""
import math
import types
import contextlib
from fractions import Fraction
import numpy as np

from symx import terms as T
from symx import stubs
from symx.framework import Obligation, V
from symx.engine import SymReal, SymBool, term_of
from symx.shim import Recorder, NumpyProxy
from . import common as H
from .common import K, Mode

EXPLANATION = ('The real solver constructors (ExactSolver.__init__, setup_solver with its dimensionalisation block, '
               'radshock.RadShock/IEShock.__init__, nED_driver/Sn_driver, the *_ShockProfiles constructors), the real _run, the '
               'real downstream_equilibrium and the real profile assembly (splice_precursor_and_relaxation / make_ED_solution '
               'with every fnctn_* state function they call) are executed on symbolic reals.  Only the numerical table generators '
               'are replaced: the ODE integrations and transport sweeps by small tables of arbitrary (symbolic) node values, '
               'fsolve by its contract f(x*)=0.  z3 then decides: solver(x,t) == solver(x - M0*a0*t, 0) field by field with a0 from '
               'the instance gamma, Cv, Tref; the dimensional scales (incl. that dimensional total fluxes are a common scale times '
               'the nondimensional ones); mass, total momentum and total energy flux equal to their far-upstream values at every '
               'profile node; end states in radiative equilibrium and related by the radiation-modified jump conditions.')
BOUNDS = ['profile tables of 2-3 (travelling-wave / scaling obligations) or 6 (flux obligations: 2 precursor + 2 relaxation nodes + '
          '2 equilibrium end states; ED: 1 interior node + 2 end states) nodes with arbitrary symbolic node values; one evaluation '
          'point and one time per run',
          'solver classes, closure names (nED, LM_nED, FLD_1, FLD_2, FLD_poly, FLD_LP, Sn variable Eddington factor) enumerated; all '
          'real parameters (M0, rho0, gamma, Cv, Tref, sigA, sigS, the four cross-section exponents, epsilon, t, x) symbolic unless '
          'the obligation id or its bounds text says otherwise',
          'FLD_2/FLD_poly/FLD_LP: the flux-limiter values (Lambda, R) of every interior node are arbitrary symbols (the closure '
          'formulas of fnctn_FLD.dEdx are not part of the flux balance); FLD_1: real dEdx (constants)',
          'Sn: the transported Eddington factor is an arbitrary linear function of the local Mach number']
OUTSIDE = ['that the ODE integrators produce node values on the true integral curve (x positions of the nodes, monotonicity, '
           'existence of the precursor/relaxation overlap): flux constancy is decided for ARBITRARY node values (P or E, Mach), '
           'which is stronger at the nodes and says nothing between nodes (the solvers interpolate linearly there)',
           'Sn transport sweeps and the variable-Eddington-factor iteration; for Sn the total energy flux is shown constant on each '
           'side of M = 1 only (equality of the two constants with the analytic value needs f = 1/3 in both end states, i.e. a '
           'converged transport solution)',
           'existence/uniqueness/selection of the downstream root by fsolve; parameter sets for which no solution is produced',
           'radiation flux at the two end nodes of the equilibrium-diffusion profile (computed through 1/(1/0) in IEEE arithmetic)',
           'ion-electron solver (ie_Solver, not a radiative shock): only its travelling-wave form, scales and the jump conditions '
           'between its own end states are claimed; its nondimensional upstream state is (rho0, 1/rho0^2) instead of (1, 1), so '
           'ie_Solver(rho0 != 1) returns ambient density rho0^2 and temperature Tref/rho0^2 (reported, not claimed here)']
ASSUMPTIONS = ['fsolve contract: (rho1, T1) is an arbitrary zero of the real momentum_and_energy residual with rho1 > 0, T1 > 0 and '
               'local Mach number M0/(rho1 sqrt(T1)) < 1; stated as an explicit hypothesis of exactly the claims that need it',
               'symbolic powers rho**a, T**b of the cross sections are positive atoms (exponent relations proved by z3)',
               'int() of a symbolic table size and deepcopy of symbolic values inside utils.py are replaced (table sizes are '
               'stubbed anyway); numpy.where / comparisons on the assembled Mach table build if-then-else terms whose conditions '
               'are then proved node by node instead of splitting the path',
               'claims are generalised before they reach z3 (sub-terms replaced by free variables, rewriting with equalities that '
               'are proved as claims of their own): sound for unsat verdicts; sat verdicts are replayed on the unshimmed code']
META = {
    'level_text': ('Bounded symbolic check of the real radiative-shock code paths around the ODE integrations: constructors, '
                   'dimensionalisation, _run translation, downstream equilibrium, profile assembly and all fnctn_* state '
                   'functions run on symbolic reals (Mach number, gamma, Cv, Tref, rho0, cross-section coefficients and exponents, '
                   'time, node values); z3 proves the travelling-wave form, scale consistency, node-wise constancy of mass, total '
                   'momentum and total energy flux and the jump conditions; solvers/closures enumerated. Not a proof: floats as '
                   'reals; ODE/transport output replaced by arbitrary small tables; root finder by its contract.'),
    'level_note': ('Trusted: z3; symx proxies/shims/stubs (replayed against the unshimmed code with the same table stubs); the '
                   'statement of the conservation laws and of the ideal-gas sound speed in harness/C12.py.'),
}

# ------------------------------------------------------------------ solver dispatch of the C12 worker processes
# Installed by the first build() of an obligation, i.e. only inside the worker process the runner forks for a C12 obligation
# (importing this module changes nothing).
#  * The framework hashes str(<z3 claim>) to count distinct claims.  z3's Python pretty-printer needs seconds per claim on the
#    terms of this property (most of an obligation's wall time); the C printer gives the same information in milliseconds.
#  * z3's nlsat decides most claims of this property in milliseconds with one of its two variable-ordering settings and needs
#    14 s to minutes (or gives up) with the other -- which one is the good one changes from claim to claim.  Every query is
#    therefore run as a small portfolio: alternately with nlsat.reorder on and off, in growing time slices, within the
#    timeout the framework asked for.  z3 remains the only deciding step; only the dispatch changes.
import z3 as _z3
from symx import smt as _smt

_plain_solve = _smt.solve


def _portfolio_solve(enc, assertions, timeout_s=30, label='', want_model=True, tactic=None):
    if tactic is not None:
        return _plain_solve(enc, assertions, timeout_s, label=label, want_model=want_model, tactic=tactic)
    assertions = list(assertions)
    budget = float(timeout_s)
    spent, k, slice_ = 0.0, 0, min(2.0, max(0.5, budget / 6.0))
    v = None
    try:
        while spent < budget - 0.05:
            _z3.set_param('nlsat.reorder', k % 2 == 0)
            to = min(slice_, budget - spent)
            v = _plain_solve(enc, assertions, to, label=label, want_model=want_model)
            spent += max(v.seconds, 0.01)
            if v.status != 'unknown':
                break
            k += 1
            if k % 2 == 0:
                slice_ *= 3
    finally:
        _z3.set_param('nlsat.reorder', True)
    v.seconds = spent
    return v


def _tweaks():
    if _smt.solve is not _portfolio_solve:
        _smt.solve = _portfolio_solve
        _z3.ExprRef.__str__ = lambda self: self.sexpr()
        _z3.ExprRef.__repr__ = lambda self: self.sexpr()


RS = 'exactpack.solvers.radshocks.nED_radshocks'
RK = 'exactpack.solvers.radshocks.radshock'
UT = 'exactpack.solvers.radshocks.utils'
FN = {'ED': 'exactpack.solvers.radshocks.fnctn_ED', 'nED': 'exactpack.solvers.radshocks.fnctn_nED',
      'FLD': 'exactpack.solvers.radshocks.fnctn_FLD', 'ie': 'exactpack.solvers.radshocks.fnctn_2Tie'}

DEFAULTS = dict(gamma=5. / 3., Cv=1.4472799784454e12, Tref=100.)

# solver name -> (solver class, problem class in radshock.py, driver method, profile attribute, nd profile fields)
SOLVERS = {
    'ED': ('ED_Solver', 'greyED_RadShock', 'ED_driver', 'ED_profile',
           ('Fr', 'Tm', 'Density', 'Speed', 'Mach', 'Pressure')),
    'nED': ('nED_Solver', 'greyNED_RadShock', 'nED_driver', 'nED_profile',
            ('Tm', 'Tr', 'Fr', 'Density', 'Speed', 'Mach', 'Pressure')),
    'Sn': ('Sn_Solver', 'greySn_RadShock', 'Sn_driver', 'Sn_profile',
           ('Tm', 'Tr', 'Fr', 'Density', 'Speed', 'Mach', 'Pressure', 'f')),
    'ie': ('ie_Solver', 'Shock_2Tie', 'IE_driver', 'IE_profile',
           ('Ti', 'Tm', 'Te', 'Density', 'Speed', 'Mach', 'Pressure', 'Fe')),
}


def sound_oracle(cx_or_none, gamma, Cv, Tref, symbolic):
    """ideal-gas sound speed of the reference state, a0^2 = gamma (gamma-1) Cv Tref (harness oracle; written in the
    operation order of the code so that the encoder shares one root variable)"""
    arg = gamma * (gamma - 1.) * Cv * Tref
    if symbolic:
        return SymReal(T.pw(term_of(arg), T.HALF))
    return float(np.sqrt(arg))


def tolerant(mk, default=1.0):
    """concrete replay: inputs that do not occur in any encoded term are absent from the solver's witness; they
    cannot influence the claim, any value will do"""
    _tweaks()
    if Mode.symbolic(mk):
        return mk

    def g(name):
        try:
            return mk(name)
        except KeyError:
            return default
    return g


@contextlib.contextmanager
def patched(obj, **attrs):
    """temporarily replace attributes of a module/class (harness-level table stubs, active in both modes)"""
    missing = object()
    saved = {k: obj.__dict__.get(k, missing) for k in attrs}
    try:
        for k, v in attrs.items():
            setattr(obj, k, v)
        yield
    finally:
        for k, v in saved.items():
            if v is missing:
                delattr(obj, k)
            else:
                setattr(obj, k, v)


# ================================================================== travelling wave + scales (driver = small table)

class InPlace(np.ndarray):
    """object array with numpy's aliasing semantics for augmented assignment.  With a symbolic operand plain numpy defers
    `a += s' to the operand's reflected method and REBINDS a to a new array, whereas on float arrays the update is in place
    and visible through every alias (e.g. an attribute caching the array): keep that behaviour in the symbolic run."""

    def _inplace(self, other, op):
        o = np.broadcast_to(np.asarray(other, dtype=object), self.shape)
        for idx in np.ndindex(self.shape):
            self[idx] = op(self[idx], o[idx])
        return self

    def __iadd__(self, o):
        return self._inplace(o, lambda a, b: a + b)

    def __isub__(self, o):
        return self._inplace(o, lambda a, b: a - b)

    def __imul__(self, o):
        return self._inplace(o, lambda a, b: a * b)

    def __itruediv__(self, o):
        return self._inplace(o, lambda a, b: a / b)


def table(values):
    a = H.arr(values)
    return a.view(InPlace) if a.dtype == object else a


def table_solver(name, mk, params, n=3):
    """Real solver constructor (ExactSolver.__init__ + setup_solver) with the profile driver of the problem class
    replaced by one that installs an n-node table of symbolic nondimensional values.
    Returns (solver, problem instance, nd table dict)."""
    sname, pname, dname, pattr, fields = SOLVERS[name]
    m = H.mod(RS)
    rk = H.mod(RK)
    nd = {'x': table([mk('x%d' % i) for i in range(n)])}
    for f in fields:
        nd[f] = table([mk('%s%d' % (f, i)) for i in range(n)])
    probs = []

    def driver(self, *a, **k):
        prof = types.SimpleNamespace(**{k_: v.copy() for k_, v in nd.items()})
        if name == 'Sn':
            prof.x_RT = nd['x'].copy()
        setattr(self, pattr, prof)
        probs.append(self)
    fake_cls = type('Table_' + pname, (getattr(rk, pname),), {dname: driver})
    fake_mod = types.SimpleNamespace(**{pname: fake_cls})
    with patched(m, radshock=fake_mod):
        s = getattr(m, sname)(**params)
    return s, probs[0], nd


class Shift(Obligation):
    """solver(x, t) == solver(x - M0 a0 t, 0) field by field, a0 from the instance's gamma, Cv, Tref"""

    def __init__(self, name, defaults=False, n=2):
        self.name, self.defaults, self.n = name, defaults, n
        self.id = 'C12.shift.%s%s' % (name, '.defaults' if defaults else '')
        m = H.mod(RS)
        self.modules = [m, H.mod(RK)]
        self.extra_shim = {'ExactSolution': Recorder, 'print': H.quiet_print}
        cls = getattr(m, SOLVERS[name][0])
        self.functions = [cls.__init__, cls.setup_solver, cls._run]
        self.bounds = ('%d-node profile table with symbolic nodes; M0, rho0, x, t symbolic; gamma, Cv, Tref %s'
                       % (n, 'at the class defaults' if defaults else 'symbolic'))
        self.max_paths = 64
        self.timeout_s = 20

    def _params(self, mk):
        p = dict(M0=mk('M0'), rho0=mk('rho0'))
        if self.defaults:
            p.update(DEFAULTS)
        else:
            p.update(gamma=mk('gamma'), Cv=mk('Cv'), Tref=mk('Tref'))
        return p

    def build(self, mk):
        mk = tolerant(mk)
        p = self._params(mk)
        s, prob, nd = table_solver(self.name, mk, p, self.n)
        sym_ = Mode.symbolic(mk)
        if self.defaults:
            a0 = float(np.sqrt(DEFAULTS['gamma'] * (DEFAULTS['gamma'] - 1.) * DEFAULTS['Cv'] * DEFAULTS['Tref']))
            a0 = K(mk, T.float_to_fraction(a0)) if sym_ else a0
        else:
            a0 = sound_oracle(None, p['gamma'], p['Cv'], p['Tref'], sym_)
        x, t = mk('xq'), mk('t')
        D = p['M0'] * a0
        at_t = H.first(H.fields(s(H.arr([x]), t)))
        at_0 = H.first(H.fields(s(H.arr([x - D * t]), 0.0)))
        out = {'xq': x}
        for k, v in at_t.items():
            out['t:' + k] = v
            out['0:' + k] = at_0[k]
        return out

    def domain(self, V):
        d = [T.gt(V('M0'), T.ZERO), T.gt(V('rho0'), T.ZERO)]
        if not self.defaults:
            d += [T.gt(V('gamma'), T.ONE), T.gt(V('Cv'), T.ZERO), T.gt(V('Tref'), T.ZERO)]
        for i in range(self.n - 1):
            d.append(T.lt(V('x%d' % i), V('x%d' % (i + 1))))
        for i in range(self.n):
            d += [T.ne(V('Mach%d' % i), T.ZERO), T.ne(V('Density%d' % i), T.ZERO)]
        return d

    def claims(self, cx):
        names = sorted(k[2:] for k in cx.out.keys() if k.startswith('t:')) if cx.symbolic else \
            sorted(k[2:] for k in cx._run().keys() if k.startswith('t:'))
        for k in names:
            if k == 'position':
                cx.eq('position returned unchanged', cx['t:position'], cx['xq'])
            else:
                cx.eq('travelling wave: %s(x,t) == %s(x - M0*a0*t, 0)' % (k, k),
                      cx['t:' + k], cx['0:' + k])


class Scales(Obligation):
    """setup_solver dimensionalisation consistent with the reference scales of radshock.RadShock.__init__"""

    def __init__(self, name, n=3):
        self.name, self.n = name, n
        self.id = 'C12.dim.%s' % name
        m = H.mod(RS)
        self.modules = [m, H.mod(RK)]
        self.extra_shim = {'ExactSolution': Recorder, 'print': H.quiet_print}
        cls = getattr(m, SOLVERS[name][0])
        pc = getattr(H.mod(RK), SOLVERS[name][1])
        self.functions = [cls.__init__, cls.setup_solver, cls._run, pc.__init__]
        self.bounds = '%d-node profile table with symbolic nondimensional nodes; M0, rho0, gamma, Cv, Tref symbolic' % n

    def build(self, mk):
        mk = tolerant(mk)
        p = dict(M0=mk('M0'), rho0=mk('rho0'), gamma=mk('gamma'), Cv=mk('Cv'), Tref=mk('Tref'))
        s, prob, nd = table_solver(self.name, mk, p, self.n)
        sym_ = Mode.symbolic(mk)
        out = {'a0': sound_oracle(None, p['gamma'], p['Cv'], p['Tref'], sym_)}
        out.update({'p_' + k: v for k, v in p.items()})
        for k, v in nd.items():
            out['nd_' + k] = v
        for k in ('Tm', 'Tr', 'Ti', 'Te', 'Fr', 'Density', 'Speed', 'Mach', 'Pressure', 'SIE', 'RADE', 'Sound_Speed', 'VEF'):
            if hasattr(s, k):
                out['s_' + k] = getattr(s, k)
        out['prob_sound'] = prob.sound
        if self.name != 'ie':
            out.update(c=prob.c, ar=prob.ar, C0=s.C0, P0=s.P0)
        # the steady profile as returned by the public call at the position of node 0 (an end node: a table that is not
        # flipped together with the abscissae would show)
        j = 0
        mid = H.first(H.fields(s(H.arr([-nd['x'][j]]), 0.0)))
        for k, v in mid.items():
            out['mid_' + k] = v
        return out

    def domain(self, V):
        d = [T.gt(V('M0'), T.ZERO), T.gt(V('rho0'), T.ZERO), T.gt(V('gamma'), T.ONE), T.gt(V('Cv'), T.ZERO),
             T.gt(V('Tref'), T.ZERO)]
        for i in range(self.n - 1):
            d.append(T.lt(V('x%d' % i), V('x%d' % (i + 1))))
        for i in range(self.n):
            d += [T.ne(V('Mach%d' % i), T.ZERO), T.ne(V('Density%d' % i), T.ZERO)]
        return d

    def claims(self, cx):
        a0, rho0, g, Cv, Tref = cx['a0'], cx['p_rho0'], cx['p_gamma'], cx['p_Cv'], cx['p_Tref']
        cx.eq('reference sound speed: prob.sound^2 == gamma (gamma-1) Cv Tref', cx['prob_sound'], a0)
        if self.name != 'ie':
            cx.eq('C0 == c / a0', cx['C0'] * a0, cx['c'])
            cx.eq('P0 == ar Tref^4 / (rho0 a0^2)', cx['P0'] * rho0 * a0 * a0, cx['ar'] * Tref ** 4)
        trad = {'ED': 'Tm', 'nED': 'Tr', 'Sn': 'Tr'}.get(self.name)
        mid_names = {'temperature': 'Tm', 'temperature_mat': 'Tm', 'temperature_rad': 'Tr', 'temperature_ion': 'Ti',
                     'temperature_elec': 'Te', 'density': 'Density', 'velocity': 'Speed', 'pressure': 'Pressure',
                     'specific_internal_energy': 'SIE', 'rade': 'RADE', 'sound_speed': 'Sound_Speed', 'VEF': 'VEF'}
        for i in range(self.n):
            nd = lambda k: cx['nd_' + k][i]
            s = lambda k: cx['s_' + k][i]
            cx.eq('Density == rho0 * nd', s('Density'), rho0 * nd('Density'))
            cx.eq('Speed == a0 * nd', s('Speed'), a0 * nd('Speed'))
            cx.eq('Pressure == rho0 a0^2 * nd', s('Pressure'), rho0 * a0 * a0 * nd('Pressure'))
            for tk in ('Tm', 'Tr', 'Ti', 'Te'):
                if 's_' + tk in cx:
                    cx.eq('%s == Tref * nd' % tk, s(tk), Tref * nd(tk))
            cx.eq('SIE == Pressure / ((gamma-1) Density)', s('SIE') * (g - 1) * s('Density'), s('Pressure'))
            cx.eq('Sound_Speed == Speed / Mach', s('Sound_Speed') * nd('Mach'), s('Speed'))
            if trad:
                tr_ = Tref * nd(trad)
                cx.eq('RADE == ar * T_rad^4', s('RADE'), cx['ar'] * tr_ * tr_ * tr_ * tr_)
                cx.eq('Fr attribute == c ar Tref^4 * nd (a flux: energy density times speed)', s('Fr'),
                      cx['c'] * (cx['ar'] * (Tref ** 4 * nd('Fr'))))
        if self.name != 'ie':
            # dimensional total fluxes of the returned fields == common scale * nondimensional total fluxes (the quantities
            # the C12.flux.* obligations prove constant along the profile), for arbitrary node values
            P0, C0, c, ar = cx['P0'], cx['C0'], cx['c'], cx['ar']
            for i in range(self.n):
                nd = lambda k: cx['nd_' + k][i]
                s = lambda k: cx['s_' + k][i]
                rho, u, p, e, rade = s('Density'), s('Speed'), s('Pressure'), s('SIE'), s('RADE')
                r, uu, pp, fr, tr_ = nd('Density'), nd('Speed'), nd('Pressure'), nd('Fr'), nd(trad)
                edd = s('VEF') if self.name == 'Sn' else Fraction(1, 3) if cx.symbolic else 1. / 3.
                edd_nd = nd('f') if self.name == 'Sn' else edd
                frad = c * (ar * (Tref ** 4 * fr))
                cx.eq('mass flux == rho0 a0 * nd mass flux', rho * u, rho0 * a0 * (r * uu))
                cx.eq('total momentum flux == rho0 a0^2 * nd total momentum flux', rho * u * u + p + edd * rade,
                      rho0 * a0 * a0 * (r * uu * uu + pp + P0 * edd_nd * tr_ * tr_ * tr_ * tr_),
                      scale=sc(cx, rho * u * u, p, edd * rade))
                cx.eq('total energy flux == rho0 a0^3 * nd total energy flux',
                      u * (rho * u * u / 2 + rho * e + p) + frad,
                      rho0 * a0 * a0 * a0 * (uu * (r * uu * uu / 2 + pp / (g - 1) + pp) + P0 * C0 * fr),
                      scale=sc(cx, u * rho * u * u / 2, u * rho * e, u * p, frad))
        for k, a in mid_names.items():
            if 'mid_' + k in cx:
                cx.eq('steady profile: %s(-x_node, 0) == node value' % k, cx['mid_' + k], cx['s_' + a][0])


# ================================================================== flux constancy along the assembled profile

class SciProxy(object):
    """stands in for the name `scipy' inside utils.py / fnctn_FLD.py (symbolic mode only): optimize.fsolve is the
    contract stub, everything else is the real scipy"""

    def __init__(self, mk):
        import scipy
        import scipy.optimize
        import scipy.integrate
        self._mk = mk
        self.integrate = scipy.integrate
        self.interpolate = getattr(scipy, 'interpolate', None)
        outer = self

        class _Opt(object):
            def __getattr__(self_, name):
                return getattr(scipy.optimize, name)

            @staticmethod
            def fsolve(func, x0, args=(), **kw):
                return outer.fsolve(func, x0, args, **kw)
        self.optimize = _Opt()

    def fsolve(self, func, x0, args=(), **kw):
        name = getattr(func, '__name__', '')
        if name.startswith('discriminant'):
            return np.array([1.0])           # only used as the initial guess of the next fsolve
        if name == 'momentum_and_energy':
            mk = self._mk
            r, t_ = mk('rho1'), mk('T1')
            # the contract f(rho1, T1) == 0 is NOT put on the path: the two residual terms are handed to claims(), which
            # states them as explicit hypotheses of exactly the claims that need them (and as the right-hand sides of
            # identities).  Claims that do not need the contract are thereby proved for arbitrary (rho1, T1), and the
            # solver is spared two quintic equations in every witness search.
            res = func([r, t_])
            _RES[:] = list(res)
            return H.arr([r, t_])
        return stubs.fsolve_stub(func, x0, args, **kw)


class CopyProxy(object):
    """stands in for the name `copy' inside utils.py: symbolic reals are immutable values"""
    import copy as _copy

    @staticmethod
    def deepcopy(x, memo=None):
        if isinstance(x, (SymReal, SymBool)):
            return x
        if isinstance(x, np.ndarray) and x.dtype == object:
            return x.copy()
        if isinstance(x, list):
            return [CopyProxy.deepcopy(e) for e in x]
        return CopyProxy._copy.deepcopy(x)

    @staticmethod
    def copy(x):
        return CopyProxy._copy.copy(x)


def where_ite(c, *ab):
    """numpy.where that keeps a symbolic condition as an if-then-else TERM instead of splitting the path"""
    if not ab:
        return np.where(c)
    a, b = ab

    def pick(cc, aa, bb):
        if isinstance(cc, SymBool):
            if cc.t is T.TRUE:
                return aa
            if cc.t is T.FALSE:
                return bb
            return SymReal(T.ite(cc.t, term_of(aa), term_of(bb)))
        return aa if cc else bb
    if isinstance(c, (SymBool, bool, np.bool_)):
        return pick(c, a, b)
    c = np.asarray(c, dtype=object)
    ca, aa, bb = np.broadcast_arrays(c, np.asarray(a, dtype=object), np.asarray(b, dtype=object))
    out = np.empty(ca.shape, dtype=object)
    for idx in np.ndindex(ca.shape):
        out[idx] = pick(ca[idx], aa[idx], bb[idx])
    return out if out.ndim else out.item()


def flux_numpy():
    """the name `numpy' inside radshock.py / utils.py / fnctn_*.py during a symbolic flux run: the engine's proxy, except
    that tables assembled with numpy.append compare element-wise without deciding (LazyCmp) and numpy.where builds
    if-then-else terms; the side of M = 1 each node lies on is then PROVED per node in claims() and the terms resolved"""
    base = NumpyProxy()

    def append(arr, values, axis=None):
        r = np.append(arr, values, axis=axis)
        return r.view(LazyCmp) if r.dtype == object else r
    return Wrap(base, append=append, where=where_ite)


def sym_int(x=0, *a):
    if isinstance(x, SymReal):
        if x.t.op == 'const':
            return int(x.t.args[0])
        return 3          # table sizes: the tables themselves are stubbed (see ASSUMPTIONS)
    return int(x, *a)


_MK = [None]
_RES = []


def _A(mk, names):
    return H.arr([mk(n) for n in names])


def fake_make_2T_solution(self):
    """replaces ShockMethods_2T.make_2T_solution (linearisation + Mach-space ODE integration + overlap search): installs
    2-node precursor and relaxation tables with arbitrary node values and calls the REAL splice_precursor_and_relaxation"""
    mk = _MK[0]
    prob = self.problem
    self.Mach_precursor = _A(mk, ['Mp0', 'Mp1'])
    self.Mach_relaxation = _A(mk, ['Mr0', 'Mr1'])
    self.x_precursor = _A(mk, ['xp0', 'xp1'])
    self.x_relaxation = _A(mk, ['xr0', 'xr1'])
    ypre, yrel = _A(mk, ['yp0', 'yp1']), _A(mk, ['yr0', 'yr1'])
    self.left1 = 2
    self.right1 = 2
    self.continuous_shock = 0
    self.Pcont = mk('yc')
    if 'ED' in prob:
        self.Pr_precursor, self.Pr_relaxation = ypre, yrel
    elif 'FLD' in prob:
        self.Er_precursor, self.Er_relaxation = ypre, yrel
        fn = H.mod(UT).fnctn
        if self.FLD_type == '1':
            # the integration loop records (self.Lambda, self.R) as left behind by the rhs evaluation (fnctn.dEdx) of each
            # step: evaluate the real dEdx at each table node and record them the same way (Wilson sum limiter: constants)
            for side, ys, ms in (('precursor', ypre, self.Mach_precursor), ('relaxation', yrel, self.Mach_relaxation)):
                lam, rr = [], []
                for y_, m_ in zip(ys, ms):
                    fn.dEdx(y_, m_, self)
                    lam.append(self.Lambda)
                    rr.append(self.R)
                setattr(self, 'Lambda_' + side, lam)
                setattr(self, 'R_' + side, rr)
        else:
            # other limiters: arbitrary flux-limiter values (Lambda, R) at every interior node, including the two nodes at
            # the embedded shock where the real splice re-evaluates dEdx only for its side effect on (Lambda, R)
            self.Lambda_precursor = [mk('Lp0'), mk('Lp1')]
            self.R_precursor = [mk('Rp0'), mk('Rp1')]
            self.Lambda_relaxation = [mk('Lr0'), mk('Lr1')]
            self.R_relaxation = [mk('Rr0'), mk('Rr1')]
            cnt = [0]

            def dEdx_table(E, M, prof):
                prof.Lambda, prof.R = mk('Lc%d' % cnt[0]), mk('Rc%d' % cnt[0])
                cnt[0] += 1
                return 0.0
            with patched(fn, dEdx=dEdx_table):
                self.splice_precursor_and_relaxation()
            return
    self.splice_precursor_and_relaxation()


NODE_NAMES = ('upstream', 'precursor', 'shock-', 'shock+', 'relaxation', 'downstream')


class Rew(object):
    """Rewriting of claim terms before they go to z3 (symbolic mode; identity on floats).
    `let(value, 'name')` generalises: every occurrence of the term of `value` becomes a fresh variable, so a claim proved
    afterwards holds for ALL values of that sub-expression (sound for unsat; a sat witness is replayed on the real code).
    `let(value, other)` rewrites with an equality that is itself proved as a separate claim of the same obligation.
    Rewrites are applied in stages; the keys of a later stage are terms as they look after the earlier stages."""

    def __init__(self, cx, base=None):
        self.sym = cx.symbolic
        self.stages = [dict(m) for m in base.stages] if base is not None else [{}]

    def _apply(self, t, upto=None):
        for m in self.stages[:upto]:
            if m:
                t = T.substitute(t, m)
        return t

    def stage(self):
        self.stages.append({})
        return self

    def let(self, value, to):
        if self.sym:
            t = self._apply(term_of(value), len(self.stages) - 1)
            if t.op not in ('const', 'var'):
                self.stages[-1][t] = T.var(to) if isinstance(to, str) else term_of(to)
        return self

    def __call__(self, v):
        if not self.sym:
            return v
        return SymReal(self._apply(term_of(v)))


def near(cx, a, b, tol=1e-9):
    """a == b as a precondition: SymBool in symbolic mode, tolerance test on floats"""
    if cx.symbolic:
        return SymBool(T.eq(term_of(a), term_of(b)))
    return abs(a - b) <= tol * max(abs(a), abs(b), 1e-300)


def sc(cx, *vals):
    """scale of the numeric replay of a claim whose sides are sums with possible cancellation: the largest addend"""
    if cx.symbolic:
        return None
    return [abs(float(v)) for v in vals] + [1e-300]


def rt(cx, v):
    """square root for claims; on floats a non-positive argument (a replay in which the real fsolve ended up on an
    unphysical root) gives nan instead of an exception that would void the replay of every other claim"""
    if cx.symbolic:
        return cx.sqrt(v)
    return math.sqrt(v) if v > 0 else float('nan')


def pos(cx, *vals):
    if cx.symbolic:
        return SymBool(T.land(*[T.gt(term_of(v), T.ZERO) for v in vals]))
    return all(v > 0 for v in vals)


class Flux(Obligation):
    """nED_Solver(...) end to end with the Mach-space integration replaced by arbitrary node tables: at every node of the
    assembled nondimensional profile the three total fluxes equal their far-upstream values (C12.dim.* shows that the
    dimensional fluxes are a common scale times these).

    Claims are generalised before they reach z3 (class Rew): P0, C0, the node density and (FLD) the flux-limiter values
    become free variables, so each balance is proved as the structural identity it is.  Where the code evaluates the
    downstream equilibrium state, density(Pr1, M1) and temperature(Pr1, M1) are rewritten to the fsolve root (rho1, T1);
    both rewrites are claims of their own, proved from the contract residual res_mom == 0.  The energy balance of the
    downstream end state is the identity (flux - upstream) rho1^2 == M0 res_en in the energy residual of the real
    momentum_and_energy (res_en == 0 is the contract); relaxation-side nodes are compared with that end state."""

    def __init__(self, variant, exps=False, eps=False, nodes=(0, 1, 2, 3, 4, 5)):
        self.variant, self.exps, self.eps, self.nodes = variant, exps, eps, tuple(nodes)
        self.fld = 'FLD' in variant
        self.id = 'C12.flux.%s%s%s' % (variant, '.exps' if exps else '', '.eps' if eps else '')
        ut = H.mod(UT)
        fn = H.mod(FN['FLD' if self.fld else 'nED'])
        self.modules = [H.mod(RS), H.mod(RK), ut, fn]
        cls = H.mod(RS).nED_Solver
        self.functions = [cls.__init__, cls.setup_solver, H.mod(RK).RadShock.__init__, H.mod(RK).greyNED_RadShock.nED_driver,
                          ut.ED_ShockProfiles.__init__, ut.nED_ShockProfiles.__init__, ut.RadShockProfile.downstream_equilibrium,
                          ut.ShockMethods_2T.splice_precursor_and_relaxation, fn.mat_density, fn.mat_temp, fn.mat_speed,
                          fn.mat_pres, fn.rad_flux, fn.dPdx, fn.rad_flux2, fn.mat_total_energy, fn.mat_beta, fn.rad_temp]
        if self.fld:
            self.functions.append(fn.dEdx)
        self.bounds = ('closure %s; 6-node profile (end states + 2 precursor + 2 relaxation nodes, arbitrary symbolic (P|E, Mach, '
                       'x) per node%s); M0, rho0, gamma, Cv, Tref, sigA, sigS%s%s symbolic; claims at nodes %s'
                       % (variant, '; flux limiter (Lambda, R) of each node from the real dEdx at that node' if self.fld else '',
                          ', the four cross-section exponents' if exps else ' (cross-section exponents 0)',
                          ', epsilon' if eps else ' (epsilon 1)', ','.join(NODE_NAMES[i] for i in self.nodes)))
        self.max_paths = 24
        self.timeout_s = 40
        self.timeout_thorough_s = 600
        self.twin_timeout_s = 2
        self.budget_s = 240
        self.skip_validation = True      # (rho1, T1) are free roots in the symbolic run, fsolve output in the replay

    def shim_extra(self):
        return {'ExactSolution': Recorder, 'print': H.quiet_print, 'scipy': SciProxy(_MK[0]), 'int': sym_int,
                'max': stubs.sym_max, 'min': stubs.sym_min, 'copy': CopyProxy, 'numpy': flux_numpy()}

    sn = False

    def _solver(self, p):
        ut = H.mod(UT)
        with patched(ut.ShockMethods_2T, make_2T_solution=fake_make_2T_solution):
            s = H.mod(RS).nED_Solver(**p)
        prob = s._nED_Solver__prob
        return s, prob, prob.nED_profile

    def _params(self, mk):
        p = dict(M0=mk('M0'), rho0=mk('rho0'), gamma=mk('gamma'), Cv=mk('Cv'), Tref=mk('Tref'),
                 sigA=mk('sigA'), sigS=mk('sigS'), problem=self.variant)
        if self.exps:
            p.update(expDensity_abs=mk('eDa'), expTemp_abs=mk('eTa'), expDensity_scat=mk('eDs'), expTemp_scat=mk('eTs'))
        if self.eps:
            p['epsilon'] = mk('epsilon')
        return p

    def build(self, mk):
        mk = tolerant(mk)
        _MK[0] = mk
        _RES[:] = []
        sym_ = Mode.symbolic(mk)
        if sym_:
            # the SciProxy of this run must see this run's mk
            for m_ in self.modules:
                if isinstance(m_.__dict__.get('scipy'), SciProxy):
                    m_.__dict__['scipy']._mk = mk
        p = self._params(mk)
        ut = H.mod(UT)
        s, prob, prof = self._solver(p)
        out = {'M0': p['M0'], 'gamma': p['gamma']}
        for k in ('Fr', 'Pr', 'Er', 'Mach', 'Density', 'Speed', 'Pressure', 'Tm', 'Tr'):
            if k == 'Tr' and self.sn:
                continue       # (Pr / f(Mach))**(1/4): fourth roots of interpolated quotients burden every query; not claimed
            out[k] = getattr(prof, k)
        out['SIE'] = prof.SIE
        out.update(P0=prob.P0, C0=prob.C0, rho1=prof.rho1, T1=prof.T1, M1=prof.M1, speed1=prof.speed1)
        out['res_mom'], out['res_en'] = (_RES[0], _RES[1]) if sym_ else (0.0, 0.0)
        if self.fld:
            out['Lambda'], out['R'] = prof.Lambda, prof.R
        return out

    def domain(self, V):
        one = T.ONE
        d = [T.gt(V('M0'), one), T.gt(V('rho0'), T.ZERO), T.gt(V('gamma'), one), T.gt(V('Cv'), T.ZERO), T.gt(V('Tref'), T.ZERO),
             T.gt(V('sigA'), T.ZERO), T.ge(V('sigS'), T.ZERO),
             T.gt(V('Mp0'), one), T.gt(V('Mp1'), one), T.gt(V('Mr0'), T.ZERO), T.lt(V('Mr0'), one), T.gt(V('Mr1'), T.ZERO),
             T.lt(V('Mr1'), one),
             T.gt(V('yp0'), T.ZERO), T.lt(V('yp0'), V('yc')), T.lt(V('yc'), V('yp1')),
             T.gt(V('yr1'), T.ZERO), T.lt(V('yr1'), V('yc')), T.lt(V('yc'), V('yr0')),
             T.lt(V('xp0'), V('xp1')), T.lt(V('xp1'), T.ZERO), T.gt(V('xr0'), V('xr1')), T.gt(V('xr1'), T.ZERO),
             # the root returned by fsolve: positive, locally subsonic downstream state (M1 = M0/(rho1 sqrt(T1)) < 1)
             T.gt(V('rho1'), T.ZERO), T.gt(V('T1'), T.ZERO),
             T.lt(T.mul(V('M0'), V('M0')), T.mul(T.mul(V('rho1'), V('rho1')), V('T1')))]
        if self.eps:
            d.append(T.gt(V('epsilon'), T.ZERO))
        if self.fld and not self.variant.endswith('_1'):
            for n in ('Lp0', 'Lp1', 'Lr0', 'Lr1', 'Lc0', 'Lc1'):
                d += [T.gt(V(n), T.ZERO), T.le(V(n), T.const(Fraction(1, 3)))]
            for n in ('Rp0', 'Rp1', 'Rr0', 'Rr1', 'Rc0', 'Rc1'):
                d.append(T.ge(V(n), T.ZERO))
        return d

    def claims(self, cx):
        M0, g, P0, C0 = cx['M0'], cx['gamma'], cx['P0'], cx['C0']
        rho1, T1 = cx['rho1'], cx['T1']
        # base generalisation, applied to every claim: P0, C0 and (FLD) the flux-limiter values of each node are free
        R0 = Rew(cx).let(P0, 'P0v').let(C0, 'C0v')
        if self.fld:
            for i in range(6):
                R0.let(cx['Lambda'][i], 'Lam%d' % i).let(cx['R'][i], 'Rlim%d' % i)
        # which side of M = 1 each node is on: proved per node, then the if-then-else terms numpy.where left are resolved
        for i in range(6):
            Mi = cx['Mach'][i]
            if i < 3:
                cx.gt('the %s node is on the supersonic side: Mach > 1' % NODE_NAMES[i], Mi, 1)
            else:
                cx.le('the %s node is on the subsonic side: Mach <= 1' % NODE_NAMES[i], Mi, 1)
            if cx.symbolic:
                c_ = (Mi > 1)
                if isinstance(c_, SymBool) and c_.t.op not in ('true', 'false'):
                    R0.stages[0][c_.t] = T.TRUE if i < 3 else T.FALSE
        R0.stage()
        P0v, C0v = R0(P0), R0(C0)
        mom_up = M0 * M0 + 1 / g + P0v / 3
        en_up = M0 * (M0 * M0 / 2 + 1 / (g * (g - 1)) + 1 / g) + P0v * M0 * 4 / 3
        okP = pos(cx, P0v, C0v)
        # the fsolve contract with P0 generalised like everything else (the path condition states it for the real P0 term)
        root = okP & near(cx, R0(cx['res_mom']), 0) & near(cx, R0(cx['res_en']), 0)
        # ---- downstream equilibrium state of the assembled profile == the fsolve root
        d5, p5 = cx['Density'][5], cx['Pressure'][5]
        cx.eq('downstream node: density(Pr1, M1) == rho1 (momentum balance of the root)', R0(d5), rho1, when=root)
        That = None
        if cx.symbolic:
            tp = term_of(p5)
            if tp.op == 'div' and tp.args[0].op == 'mul' and tp.args[0].args[0] is term_of(d5):
                That = SymReal(tp.args[0].args[1])         # the material temperature as dPdx / mat_pres spell it
        R5 = Rew(cx, R0).let(d5, rho1)
        if That is not None:
            cx.eq('downstream node: temperature(Pr1, M1) == T1 (rewriting density := rho1)', R5(That), T1, when=root)
            R5.let(That, T1)
        def total_energy_flux(i):
            rho, u, p, e, Fr = (cx[k][i] for k in ('Density', 'Speed', 'Pressure', 'SIE', 'Fr'))
            return u * (rho * u * u / 2 + rho * e + p) + P0 * C0 * Fr, sc(cx, u * rho * u * u / 2, u * rho * e, u * p, P0 * C0 * Fr)
        for i in self.nodes:
            nm = NODE_NAMES[i]
            rho, u, p, e, Tm = (cx[k][i] for k in ('Density', 'Speed', 'Pressure', 'SIE', 'Tm'))
            Tr = None if self.sn else cx['Tr'][i]
            Pr, Er, Fr, Mi = (cx[k][i] for k in ('Pr', 'Er', 'Fr', 'Mach'))
            # interior nodes: the node density generalised to a free variable r (the balances below are structural in it);
            # downstream side: density(Pr1, M1) := rho1 and temperature(Pr1, M1) := T1 (both proved above) wherever the
            # code evaluates the downstream equilibrium state
            side = R0 if i < 3 else R5
            Rn = side if i in (0, 5) else Rew(cx, side).let(rho, 'r')
            okr = okP & pos(cx, Rn(rho))
            cx.eq('mass flux at the %s node == M0' % nm, Rn(rho * u), M0, when=okr)
            cx.eq('total momentum flux (with radiation pressure) at the %s node == upstream value' % nm,
                  R0(rho * u * u + p + P0 * Pr), mom_up, when=okP, scale=sc(cx, rho * u * u, p, P0 * Pr))
            cx.eq('ideal gas: p == rho T / gamma at the %s node' % nm, Rn(p * g), Rn(rho * Tm), when=okr)
            cx.eq('ideal gas: e == T / (gamma (gamma-1)) at the %s node' % nm, Rn(e * g * (g - 1)), Rn(Tm), when=okr)
            cx.eq('local Mach number: Mach^2 T == u^2 at the %s node' % nm, Rn(Mi * Mi * Tm), Rn(u * u), when=okr)
            if not self.sn:
                cx.eq('radiation temperature: Tr^4 == Er at the %s node' % nm, Rn(Tr * Tr * Tr * Tr), Rn(Er), when=okr)
            if not self.fld and not self.sn:
                cx.eq('Eddington closure: Pr == Er/3 at the %s node' % nm, Rn(Pr * 3), Rn(Er), when=okr)
            # ---- total energy flux.  Upstream side: directly against the upstream value.  Downstream side: interior nodes
            # against the downstream end node (structural), the end node against the upstream value as an identity in the
            # energy residual of the real momentum_and_energy (res_en == 0 is the fsolve contract).
            flux, fsc = total_energy_flux(i)
            j = None if i in (0, 5) else (0 if i < 3 else 5)
            fluxj = side(total_energy_flux(j)[0]) if j is not None else None
            Re, oke = Rn, okr
            if self.sn:
                # transported Eddington factor: the flux is constant on each side of M = 1 by construction; equality of the
                # two constants with the analytic upstream value needs f == 1/3 in both end states (a converged transport
                # solution): outside the claim
                if j is not None:
                    cx.eq('total energy flux (with radiation flux) at the %s node == at the %s end node' % (nm, NODE_NAMES[j]),
                          Re(flux), Re(fluxj), when=oke, scale=fsc)
            elif i < 3:
                kk = None
                if cx.symbolic and i:
                    # the part of the flux term in which no quantity of THIS node occurs (found generically; in the present
                    # code: the energy flux of the upstream equilibrium state that dPdx subtracts) is first proved equal to
                    # the upstream value and then generalised to a free variable: a much smaller polynomial identity
                    own = set(T.free_vars([term_of(Rn(v)) for v in (Pr, Er, Mi)])) | {'r', 'Lam%d' % i, 'Rlim%d' % i}
                    cand = independent_subterms(term_of(Rn(flux)), own)
                    if cand:
                        kk = max(cand, key=lambda n_: T.size([n_]))
                if kk is not None:
                    cx.eq('node-independent part of the total energy flux term at the %s node == upstream value / C0' % nm,
                          C0v * SymReal(kk), en_up, when=okP)
                    Re = Rew(cx, Rn).stage()
                    Re.stages[-1][kk] = T.var('k%d' % i)
                    oke = okr & near(cx, C0v * SymReal(T.var('k%d' % i)), en_up)
                cx.eq('total energy flux (with radiation flux) at the %s node == upstream value' % nm, Re(flux), en_up,
                      when=oke, scale=fsc)
            elif i < 5:
                cx.eq('total energy flux (with radiation flux) at the %s node == at the downstream end node' % nm,
                      Re(flux), Re(fluxj), when=oke, scale=fsc)
            else:
                cx.eq('(total energy flux downstream - upstream) * rho1^2 == M0 * energy residual (fsolve contract: == 0)',
                      (Re(flux) - en_up) * rho1 * rho1, M0 * R0(cx['res_en']) if cx.symbolic else 0.0, when=oke,
                      scale=sc(cx, en_up * rho1 * rho1))
            if i in (0, 5) and not self.sn:
                cx.eq('%s state in radiative equilibrium: T_rad == T_mat' % nm, Rn(Tr), Rn(Tm), when=okr)
                cx.eq('%s state in radiative equilibrium: radiation flux == (4/3) beta Er' % nm, Re(Fr * C0 * 3),
                      Re(4 * u * Er), when=oke)
            if i == 0:
                cx.eq('upstream density == 1 (rho0 after scaling)', R0(rho), 1, when=okP)
                cx.eq('upstream speed == M0 (M0 a0 after scaling)', R0(u), M0, when=okP)
                cx.eq('upstream temperature == 1 (Tref after scaling)', R0(Tm), 1, when=okP)
            if i == 5:
                cx.eq('downstream temperature == T1', R5(Tm), T1, when=okP)
                cx.eq('coded M1 == speed1 / sqrt(T1), speed1 == M0 / rho1', cx['M1'] * rt(cx, T1) * rho1, M0)


# ================================================================== equilibrium-diffusion profile

class Wrap(object):
    """a module stand-in that overrides a few names and delegates the rest (table stubs inside utils.py, both modes)"""

    def __init__(self, base, **over):
        self.__dict__['_base'] = base
        self.__dict__['_over'] = over

    def __getattr__(self, name):
        o = self.__dict__['_over']
        if name in o:
            return o[name]
        return getattr(self.__dict__['_base'], name)


class LazyCmp(np.ndarray):
    """object array whose comparisons stay element-wise symbolic booleans (plain numpy would call bool() on each element
    and so split the path).  Used for the local-Mach table of make_ED_solution, which is only compared to build the masked
    Mach_precursor / Mach_relaxation tables that no solver output depends on."""
    __hash__ = None

    def _cmp(self, other, op):
        a = np.asarray(self)
        out = np.empty(a.shape, dtype=object)
        for idx in np.ndindex(a.shape):
            out[idx] = op(a[idx], other)
        return out

    def __ge__(self, o):
        return self._cmp(o, lambda x, y: x >= y)

    def __gt__(self, o):
        return self._cmp(o, lambda x, y: x > y)

    def __le__(self, o):
        return self._cmp(o, lambda x, y: x <= y)

    def __lt__(self, o):
        return self._cmp(o, lambda x, y: x < y)

    def __eq__(self, o):
        return self._cmp(o, lambda x, y: x == y)

    def __ne__(self, o):
        return self._cmp(o, lambda x, y: x != y)


def respellings(root, target, tries=3):
    """sub-terms of `root' that take the value of `target' at a few random points: CANDIDATES for being another spelling
    of the same quantity (each candidate is then proved equal by z3 as a claim of its own before it is rewritten)"""
    import random
    rng = random.Random(7)
    names = sorted(T.free_vars([root, target]))
    envs, tv = [], []
    while len(envs) < tries:
        e = {n: rng.uniform(1.1, 2.9) for n in names}
        try:
            v = T.evalf(target, e)
        except Exception:
            continue
        envs.append(e)
        tv.append(v)
    out = []
    for n in T.postorder(root):
        if n is target or n.op in ('const', 'var'):
            continue
        try:
            vals = [T.evalf(n, e) for e in envs]
        except Exception:
            continue
        if all(abs(a - b) <= 1e-9 * max(1.0, abs(a)) for a, b in zip(vals, tv)):
            out.append(n)
    return out


def independent_subterms(root, node_vars, min_size=10):
    """maximal sub-terms of `root' in which none of the variables `node_vars' occurs (at least min_size nodes)"""
    out, seen = [], set()

    def walk(n):
        if id(n) in seen or n.op in ('const', 'var'):
            return
        seen.add(id(n))
        if not (set(T.free_vars([n])) & node_vars):
            if T.size([n]) >= min_size:
                out.append(n)
            return
        for c in T.children(n):
            walk(c)
    walk(root)
    return out


def sqrt_nodes(t):
    """distinct square-root sub-terms of a term"""
    return [n for n in T.postorder(t) if n.op == 'pow' and n.args[1] is T.HALF]


def sym_sum(seq, start=0):
    """builtin sum inside make_ED_solution: only used to count the zero entries of the masked Mach tables
    (Mach_precursor / Mach_relaxation of the ED profile, which no solver output depends on): any count will do"""
    seq = list(seq)
    if any(isinstance(v, SymBool) for v in seq):
        return 1
    return sum(seq, start)


class FluxED(Obligation):
    """ED_Solver(...) end to end with the temperature grid and the x(T) integration of make_ED_solution replaced by a table
    of arbitrary interior temperatures / positions: the assembled nondimensional profile conserves the three total fluxes"""

    def __init__(self, exps=True, ninner=1):
        self.exps, self.ninner = exps, ninner
        self.id = 'C12.flux.ED%s' % ('.exps' if exps else '')
        ut, fn = H.mod(UT), H.mod(FN['ED'])
        self.modules = [H.mod(RS), H.mod(RK), ut, fn]
        cls = H.mod(RS).ED_Solver
        self.functions = [cls.__init__, cls.setup_solver, H.mod(RK).RadShock.__init__, H.mod(RK).greyED_RadShock.ED_driver,
                          ut.ED_ShockProfiles.__init__, ut.RadShockProfile.downstream_equilibrium,
                          ut.ED_ShockProfiles.make_ED_solution, fn.rho, fn.dxdT, fn.sigma_t]
        self.bounds = ('%d interior profile node(s) with arbitrary symbolic temperature in (1, T1) and position, plus the two end '
                       'states; M0, rho0, gamma, Cv, Tref, sigA, sigS%s symbolic; x_shift (numpy.interp of the Mach table) arbitrary'
                       % (ninner, ', the four cross-section exponents' if exps else ''))
        self.max_paths = 16
        self.timeout_s = 40
        self.timeout_thorough_s = 600
        self.twin_timeout_s = 2
        self.budget_s = 240
        self.skip_validation = True

    def shim_extra(self):
        return {'ExactSolution': Recorder, 'print': H.quiet_print, 'scipy': SciProxy(_MK[0]), 'int': sym_int,
                'max': stubs.sym_max, 'min': stubs.sym_min, 'copy': CopyProxy, 'sum': sym_sum}

    def build(self, mk):
        mk = tolerant(mk)
        _MK[0] = mk
        _RES[:] = []
        sym_ = Mode.symbolic(mk)
        ut = H.mod(UT)
        if sym_:
            for m_ in self.modules:
                if isinstance(m_.__dict__.get('scipy'), SciProxy):
                    m_.__dict__['scipy']._mk = mk
        p = dict(M0=mk('M0'), rho0=mk('rho0'), gamma=mk('gamma'), Cv=mk('Cv'), Tref=mk('Tref'), sigA=mk('sigA'), sigS=mk('sigS'))
        if self.exps:
            p.update(expDensity_abs=mk('eDa'), expTemp_abs=mk('eTa'), expDensity_scat=mk('eDs'), expTemp_scat=mk('eTs'))
        n = self.ninner

        def linspace(a, b, num, **k):
            return H.arr([mk('Ta%d' % i) for i in range(n)])

        def odeint(f, y0, ts, **k):
            col = H.arr([mk('xa%d' % i) for i in range(n)])
            return col.reshape((n, 1))

        def interp(x, xp, fp, **k):
            return mk('xshift')
        base_np, base_sp = ut.numpy, ut.scipy
        sp_int = Wrap(base_sp.integrate, odeint=odeint)
        over = dict(linspace=linspace, interp=interp)
        if sym_:
            # masks of the (unused) Mach_precursor / Mach_relaxation tables: no path split on them
            over['where'] = lambda c, a, b: np.asarray(a)
            real_sqrt = base_np.sqrt

            def sqrt(x):
                r = real_sqrt(x)
                return r.view(LazyCmp) if isinstance(r, np.ndarray) and r.dtype == object else r
            over['sqrt'] = sqrt
        with patched(ut, numpy=Wrap(base_np, **over), scipy=Wrap(base_sp, integrate=sp_int)):
            s = H.mod(RS).ED_Solver(**p)
        prob = s._ED_Solver__prob
        prof = prob.ED_profile
        out = {'M0': p['M0'], 'gamma': p['gamma'], 'P0': prob.P0, 'C0': prob.C0, 'rho1': prof.rho1, 'T1': prof.T1,
               'M1': prof.M1, 'speed1': prof.speed1}
        for k in ('Fr', 'Mach', 'Density', 'Speed', 'Pressure', 'Tm', 'SIE'):
            out[k] = getattr(prof, k)
        out['res_mom'], out['res_en'] = (_RES[0], _RES[1]) if sym_ else (0.0, 0.0)
        return out

    def domain(self, V):
        one = T.ONE
        d = [T.gt(V('M0'), one), T.gt(V('rho0'), T.ZERO), T.gt(V('gamma'), one), T.gt(V('Cv'), T.ZERO), T.gt(V('Tref'), T.ZERO),
             T.gt(V('sigA'), T.ZERO), T.ge(V('sigS'), T.ZERO), T.gt(V('rho1'), T.ZERO), T.gt(V('T1'), one),
             T.lt(T.mul(V('M0'), V('M0')), T.mul(T.mul(V('rho1'), V('rho1')), V('T1')))]
        for i in range(self.ninner):
            d += [T.gt(V('Ta%d' % i), one), T.lt(V('Ta%d' % i), V('T1')), T.gt(V('xa%d' % i), T.ZERO)]
        return d

    def claims(self, cx):
        M0, g, P0, C0 = cx['M0'], cx['gamma'], cx['P0'], cx['C0']
        rho1, T1 = cx['rho1'], cx['T1']
        R0 = Rew(cx).let(P0, 'P0v').let(C0, 'C0v')
        P0v, C0v = R0(P0), R0(C0)
        mom_up = M0 * M0 + 1 / g + P0v / 3
        en_up = M0 * (M0 * M0 / 2 + 1 / (g * (g - 1)) + 1 / g) + P0v * M0 * 4 / 3
        okP = pos(cx, P0v, C0v)
        last = self.ninner + 1
        for i in range(last + 1):
            nm = 'upstream' if i == 0 else 'downstream' if i == last else 'interior'
            rho, u, p, e, Tm, Mi, Fr = (cx[k][i] for k in ('Density', 'Speed', 'Pressure', 'SIE', 'Tm', 'Mach', 'Fr'))
            T4 = Tm * Tm * Tm * Tm
            cx.eq('mass flux at the %s node == M0' % nm, R0(rho * u), M0, when=okP)
            cx.eq('ideal gas: p == rho T / gamma at the %s node' % nm, R0(p * g), R0(rho * Tm), when=okP)
            cx.eq('ideal gas: e == T / (gamma (gamma-1)) at the %s node' % nm, R0(e * g * (g - 1)), R0(Tm), when=okP)
            cx.eq('local Mach number: Mach^2 T == u^2 at the %s node' % nm, R0(Mi * Mi * Tm), R0(u * u), when=okP)
            if i == last:
                # the downstream end state is the fsolve root; jump conditions as identities in the contract residuals
                cx.eq('downstream density == rho1, temperature == T1', R0(rho - rho1) + R0(Tm - T1), 0, when=okP)
                cx.eq('jump: total momentum flux downstream - upstream == res_mom / rho1 (fsolve contract: res_mom == 0)',
                      (R0(rho * u * u + p + P0 * T4 / 3) - mom_up) * rho1, R0(cx['res_mom']) if cx.symbolic else 0.0, when=okP,
                      scale=sc(cx, rho1 * mom_up))
                eq_flux = u * (rho * u * u / 2 + rho * e + p) + P0 * u * T4 * 4 / 3
                cx.eq('jump: total energy flux (equilibrium radiation flux 4/3 u T^4) downstream - upstream == M0 res_en / rho1^2',
                      (R0(eq_flux) - en_up) * rho1 * rho1, M0 * R0(cx['res_en']) if cx.symbolic else 0.0, when=okP,
                      scale=sc(cx, rho1 * rho1 * en_up))
                cx.eq('coded M1 == speed1 / sqrt(T1), speed1 == M0 / rho1', cx['M1'] * rt(cx, T1) * rho1, M0)
                continue
            cx.eq('total momentum flux (radiation pressure T^4/3) at the %s node == upstream value' % nm,
                  R0(rho * u * u + p + P0 * T4 / 3), mom_up, when=okP, scale=sc(cx, rho * u * u, p, P0 * T4 / 3))
            if i == 0:
                cx.eq('upstream density == 1 (rho0 after scaling)', R0(rho), 1, when=okP)
                cx.eq('upstream temperature == 1 (Tref after scaling)', R0(Tm), 1, when=okP)
                continue
            # interior node: energy with the coded radiation flux.  fnctn_ED spells rho(T) twice (rho() and inline in
            # dxdT) with differently associated discriminants: prove the discriminants equal, then name their common root
            flux = u * (rho * u * u / 2 + rho * e + p) + P0 * C0 * Fr
            Rw = Rew(cx, R0)
            okr = okP
            if cx.symbolic:
                Rw.stage()
                roots = sqrt_nodes(term_of(Rw(flux)))
                for j, n_ in enumerate(roots):
                    if j:
                        cx.eq('discriminant of rho(T) in dxdT == discriminant in rho() at the %s node' % nm,
                              SymReal(n_.args[0]), SymReal(roots[0].args[0]), when=okP)
                    Rw.stages[-1][n_] = T.var('wdisc%d' % i)
                # ... and every other spelling of rho(T) inside the flux term, proved equal to the profile density, then
                # the density generalised to a free variable (the energy balance is structural: it holds for any density)
                Rw.stage()
                tr_ = term_of(Rw(rho))
                for n_ in respellings(term_of(Rw(flux)), tr_):
                    cx.eq('rho(T) as respelled inside dxdT/sigma_t == profile density at the %s node' % nm, SymReal(n_),
                          SymReal(tr_), when=okP)
                    Rw.stages[-1][n_] = T.var('r%d' % i)
                Rw.stages[-1][tr_] = T.var('r%d' % i)
                okr = okP & pos(cx, SymReal(T.var('r%d' % i)))
            fl = Rw(flux)
            cx.eq('total energy flux (with radiation flux) at the %s node == upstream value' % nm, fl, en_up,
                  when=okr, scale=sc(cx, u * rho * u * u / 2, u * rho * e, u * p, P0 * C0 * Fr))


# ================================================================== Sn: variable Eddington factor

def fake_make_RT_solution(self):
    """replaces Sn_ShockProfiles.make_RT_solution (transport sweeps over a refined grid, angular moments, error norms):
    installs an arbitrary two-knot variable-Eddington-factor table f(Mach) spanning every Mach number of the profile and
    runs the REAL bookkeeping (make_dictionaries / update_dictionaries); one Eddington-factor iteration is requested"""
    mk = _MK[0]
    if 'f_iters' not in self.__dict__:
        self.make_dictionaries()
    self.x_RT = np.array([-1.0e9, 1.0e9])
    self.d_x.append(self.x_RT)
    self.Mach_RT = np.array([1000.0, 0.0])
    self.f = _A(mk, ['f_hi', 'f_lo'])
    zero = np.zeros(2)
    self.P_RT, self.E_RT, self.F_RT, self.Im = zero, zero, zero, zero
    self.update_dictionaries()
    self.f_err.append(0.0)
    self.make_RT_solution_bool = 1 if self.f_iters == 0 else 0


class FluxSn(Flux):
    """Sn_Solver(...) end to end: as C12.flux.nED, with the transport sweep replaced by an arbitrary variable Eddington
    factor table; the second (real) assembly of the profile then uses Er = Pr / f(Mach)"""

    def __init__(self, exps=True, eps=False):
        Flux.__init__(self, 'nED', exps=exps, eps=False)
        self.id = 'C12.flux.Sn%s' % ('.exps' if exps else '')
        ut = H.mod(UT)
        cls = H.mod(RS).Sn_Solver
        self.functions = [cls.__init__, cls.setup_solver, H.mod(RK).greySn_RadShock.Sn_driver, ut.Sn_ShockProfiles.__init__,
                          ut.Sn_ShockProfiles.continue_running, ut.Sn_ShockProfiles.make_dictionaries,
                          ut.Sn_ShockProfiles.update_dictionaries, H.mod(FN['nED']).f_interp] + list(self.functions[2:])
        self.bounds = self.bounds.replace('closure nED', 'Sn solver, problem nED, variable Eddington factor f(Mach) an arbitrary '
                                          'linear table (f_lo, f_hi free)')
        self.sn = True

    def _solver(self, p):
        ut = H.mod(UT)
        with patched(ut.ShockMethods_2T, make_2T_solution=fake_make_2T_solution), \
                patched(ut.Sn_ShockProfiles, make_RT_solution=fake_make_RT_solution):
            s = H.mod(RS).Sn_Solver(**p)
        prob = s._Sn_Solver__prob
        return s, prob, prob.Sn_profile

    def domain(self, V):
        d = Flux.domain(self, V)
        big = T.const(1000)
        d += [T.lt(V('M0'), big), T.lt(V('Mp0'), big), T.lt(V('Mp1'), big), T.gt(V('f_lo'), T.ZERO), T.gt(V('f_hi'), T.ZERO),
              T.gt(V('xp0'), T.const(-1000)), T.lt(V('xr0'), big)]
        return d


# ================================================================== downstream equilibrium on its own

class JumpRad(Obligation):
    """RadShockProfile.downstream_equilibrium with fsolve replaced by its contract: the residuals of the real
    momentum_and_energy are, up to the nonzero factors rho1 and rho1^2/M0, the differences of the total momentum and total
    energy fluxes (radiation pressure P0 T^4/3, equilibrium radiation flux (4/3) P0 u T^4) across the shock at mass flux M0"""

    def __init__(self):
        self.id = 'C12.jump.rad'
        ut = H.mod(UT)
        self.modules = [ut]
        self.functions = [ut.RadShockProfile.downstream_equilibrium]
        self.bounds = 'M0 > 1, gamma > 1, P0 > 0 symbolic; (rho1, T1) any zero of the coded residual with rho1, T1 > 0'
        self.skip_validation = True

    def shim_extra(self):
        return {'print': H.quiet_print, 'scipy': SciProxy(_MK[0])}

    def build(self, mk):
        mk = tolerant(mk)
        _MK[0] = mk
        _RES[:] = []
        sym_ = Mode.symbolic(mk)
        ut = H.mod(UT)
        if sym_ and isinstance(ut.__dict__.get('scipy'), SciProxy):
            ut.__dict__['scipy']._mk = mk
        prof = object.__new__(ut.RadShockProfile)
        prof.M0, prof.gamma, prof.P0 = mk('M0'), mk('gamma'), mk('P0')
        prof.downstream_equilibrium()
        out = {k: getattr(prof, k) for k in ('Pr1', 'Er1', 'M1', 'speed1', 'rho1', 'T1')}
        out = {k: (v if sym_ else float(v)) for k, v in out.items()}
        out.update(M0=prof.M0, gamma=prof.gamma, P0=prof.P0)
        out['res_mom'], out['res_en'] = (_RES[0], _RES[1]) if sym_ else (0.0, 0.0)
        return out

    def domain(self, V):
        return [T.gt(V('M0'), T.ONE), T.gt(V('gamma'), T.ONE), T.gt(V('P0'), T.ZERO), T.gt(V('rho1'), T.ZERO),
                T.gt(V('T1'), T.ZERO)]

    def claims(self, cx):
        M0, g, P0, rho1, T1, u1 = (cx[k] for k in ('M0', 'gamma', 'P0', 'rho1', 'T1', 'speed1'))
        p1 = rho1 * T1 / g
        e1 = T1 / (g * (g - 1))
        mom_up = M0 * M0 + 1 / g + P0 / 3
        en_up = M0 * (M0 * M0 / 2 + 1 / (g * (g - 1)) + 1 / g) + P0 * M0 * 4 / 3
        cx.eq('mass flux: rho1 * speed1 == M0', rho1 * u1, M0)
        cx.eq('Pr1 == T1^4 / 3', cx['Pr1'] * 3, T1 * T1 * T1 * T1)
        cx.eq('Er1 == T1^4', cx['Er1'], T1 * T1 * T1 * T1)
        cx.eq('M1 == speed1 / sqrt(T1)', cx['M1'] * rt(cx, T1), u1)
        cx.eq('(total momentum flux downstream - upstream) * rho1 == momentum residual (contract: == 0)',
              (rho1 * u1 * u1 + p1 + P0 * cx['Pr1'] - mom_up) * rho1, cx['res_mom'], scale=sc(cx, rho1 * mom_up))
        cx.eq('(total energy flux downstream - upstream) * rho1^2 / M0 == energy residual (contract: == 0)',
              (u1 * (rho1 * u1 * u1 / 2 + rho1 * e1 + p1) + 4 * P0 * u1 * cx['Pr1'] - en_up) * rho1 * rho1,
              M0 * cx['res_en'], scale=sc(cx, rho1 * rho1 * en_up))


class JumpIE(Obligation):
    """IEShockProfile.downstream_equilibrium (closed form): hydrodynamic jump conditions between the end states of the
    ion-electron profile as the code's own state functions define them"""

    def __init__(self):
        self.id = 'C12.jump.ie'
        ut, fn = H.mod(UT), H.mod(FN['ie'])
        self.modules = [ut, fn]
        self.functions = [ut.IEShockProfile.downstream_equilibrium, fn.mat_density, fn.mat_temp]
        self.extra_shim = {'print': H.quiet_print}
        self.bounds = 'M0 > 1, gamma > 1, rho0 > 0 symbolic'
        self.timeout_s = 40

    def build(self, mk):
        mk = tolerant(mk)
        ut, fn = H.mod(UT), H.mod(FN['ie'])
        prof = object.__new__(ut.IEShockProfile)
        prof.M0, prof.gamma, prof.rho0 = mk('M0'), mk('gamma'), mk('rho0')
        prof.downstream_equilibrium()
        out = {k: getattr(prof, k) for k in ('M1', 'speed1', 'rho1', 'T1')}
        out.update(M0=prof.M0, gamma=prof.gamma, rho0=prof.rho0)
        out['rho_up'] = fn.mat_density(1.0, prof.M0, prof)
        out['T_up'] = fn.mat_temp(1.0, prof.M0, prof)
        out['rho_down'] = fn.mat_density(1.0, prof.M1, prof)
        out['T_down'] = fn.mat_temp(1.0, prof.M1, prof)
        return out

    def domain(self, V):
        return [T.gt(V('M0'), T.ONE), T.gt(V('gamma'), T.ONE), T.gt(V('rho0'), T.ZERO)]

    def claims(self, cx):
        M0, g, rho1, T1, u1 = (cx[k] for k in ('M0', 'gamma', 'rho1', 'T1', 'speed1'))
        ru, Tu = cx['rho_up'], cx['T_up']
        uu = M0 / ru
        cx.eq('mass flux: rho1 * speed1 == M0', rho1 * u1, M0)
        cx.eq('M1^2 T1 == speed1^2', cx['M1'] * cx['M1'] * T1, u1 * u1)
        cx.eq('state functions at M1 reproduce rho1', cx['rho_down'], rho1)
        cx.eq('state functions at M1 reproduce T1', cx['T_down'], T1)
        cx.eq('momentum flux downstream == upstream', (rho1 * u1 * u1 + rho1 * T1 / g), (ru * uu * uu + ru * Tu / g))
        cx.eq('energy flux per unit mass downstream == upstream', u1 * u1 / 2 + T1 / (g - 1), uu * uu / 2 + Tu / (g - 1))
        cx.lt('downstream is subsonic: M1 < 1', cx['M1'], 1)


def obligations(tier):
    obs = []
    for name in SOLVERS:
        obs.append(Scales(name))
        obs.append(Shift(name, defaults=False, n=2 if tier == 'quick' else 3))
        obs.append(Shift(name, defaults=True, n=2 if tier == 'quick' else 3))
    obs.append(JumpRad())
    obs.append(JumpIE())
    # each flux obligation twice: with the four cross-section exponents (and epsilon) symbolic -- the general statement, the
    # powers being atoms -- and with the default exponents 0, where the encoding is exact and z3 readily finds witnesses
    for e in (True, False):
        obs.append(FluxED(exps=e))
        obs.append(FluxSn(exps=e))
        for v in ('nED', 'LM_nED', 'FLD_1'):
            obs.append(Flux(v, exps=e, eps=e))
    for v in ('FLD_2', 'FLD_poly', 'FLD_LP'):
        obs.append(Flux(v, nodes=(0, 1, 4, 5) if tier == 'quick' else (0, 1, 2, 3, 4, 5)))
    if tier == 'thorough':
        for v in ('FLD_2', 'FLD_poly', 'FLD_LP'):
            obs.append(Flux(v, exps=True, eps=True))
    for o in obs:
        o.tier = tier
    return obs
