"""Obligations on the general-EOS Riemann driver (RiemannGenEOS.driver), included by C01, C04 and C09."""
from fractions import Fraction
import numpy as np

from symx import terms as T
from symx.framework import Obligation, V
from symx.engine import SymReal, SymBool, term_of
from symx.shim import sym_interp
from . import common as H
from . import geos_common as G
from .common import K, Mode

NWAVES = {'RCR': 5, 'RCS': 4, 'SCR': 4, 'SCS': 3}


def K_of(cx, fr):
    from symx.engine import SymReal
    return SymReal(T.const(Fraction(fr))) if cx.symbolic else float(Fraction(fr))


def _interp(x, xp, fp):
    if isinstance(x, SymReal) or any(isinstance(v, SymReal) for v in list(xp) + list(fp)):
        return sym_interp(x, xp, fp)
    return float(np.interp(x, np.asarray(xp, dtype=float), np.asarray(fp, dtype=float)))


class OdeContract(Obligation):
    """the closed form the ODE stub returns for the ideal-gas flag is the integral curve of the REAL right-hand side"""
    uses_derivatives = True

    def __init__(self, g, sign, prefix):
        self.g, self.sign = g, sign
        self.id = '%s.geos.ode_contract.g=%s.%s' % (prefix, g, 'right' if sign > 0 else 'left')
        self.modules = G.modules()
        self.extra_shim = {}
        self.functions = [H.mod(G.UM).drdp_dudp, H.mod(G.UM).sound_speed]
        self.bounds = 'p, p0, r0, u0 symbolic; gamma fixed'

    def build(self, mk):
        prob, st, xd0, t = G.make(mk, self.g, self.g)
        g = K(mk, self.g)
        p, p0, r0, u0 = mk('p'), mk('p0'), mk('r0'), mk('u0')
        r, u = G.closed_form(p0, r0, u0, g, self.sign, p, prob)
        rhs = H.mod(G.UM).drdp_dudp(p, [r, u], g, self.sign, prob)
        ri, ui = G.closed_form(p0, r0, u0, g, self.sign, p0, prob)
        return {'r': r, 'u': u, 'rhs_r': rhs[0], 'rhs_u': rhs[1], 'r_init': ri, 'u_init': ui, '_r0': r0, '_u0': u0}

    def domain(self, V):
        return [T.gt(V('p'), T.ZERO), T.gt(V('p0'), T.ZERO), T.gt(V('r0'), T.ZERO),
                T.gt(V('rl'), T.ZERO), T.gt(V('pl'), T.ZERO), T.gt(V('rr'), T.ZERO), T.gt(V('pr'), T.ZERO)]

    def claims(self, cx):
        cx.eq('d r/dp of the closed form == real drdp_dudp[0]', cx.d(lambda c: c['r'], 'p'), cx['rhs_r'])
        cx.eq('d u/dp of the closed form == real drdp_dudp[1]', cx.d(lambda c: c['u'], 'p'), cx['rhs_u'])
        cx.eq('closed form starts at r0', cx['r_init'], cx['_r0'])
        cx.eq('closed form starts at u0', cx['u_init'], cx['_u0'])


class Assembly(Obligation):
    """values the driver assembles at the wave positions and at the nodes of each rarefaction fan"""

    def __init__(self, gl, gr, pattern, case, prefix, n=G.NPTS, generic=True, problem='igeos'):
        self.gl, self.gr, self.pattern, self.n, self.case, self.generic = gl, gr, pattern, n, case, generic
        self.problem = problem
        self.id = '%s.geos.%s%s.%d%d.gl=%s.gr=%s' % (prefix, '' if problem == 'igeos' else problem + '.', pattern, case[0], case[1], gl, gr)
        self.modules = G.modules()
        self.extra_shim = G.shim_extra(pattern, case)
        m, u = H.mod(G.RM), H.mod(G.UM)
        self.functions = [m.RiemannGenEOS.driver, u.r_int_call, u.match_shocks, u.shock_jump, u.star_velocity, u.shock_speed,
                          u.sound_speed, u.sie] + ([u.JWL_f, u.JWL_dfdr, u.dsdr_cP, u.dsdp_cR] if problem != 'igeos' else [])
        self.bounds = ('left/right state, membrane position, time symbolic; gamma pair fixed; wave pattern %s; %d nodes per '
                       'rarefaction table, %d per shock table; empty internal grid (num_x_pts = 0): the grid is the wave '
                       'positions plus the user points' % (pattern, n, n + 2))
        self.skip_validation = True
        self.allow_vacuous = True      # some (interval, interval) cases cannot occur (e.g. p* in the top third of one shock
                                       # table and the bottom third of the other): the solver establishes that
        self.max_paths = 400
        self.timeout_s = 30
        self.budget_s = 240

    def build(self, mk):
        kw = {}
        if self.problem != 'igeos':
            # JWL flag: the five JWL constants symbolic; the rarefaction tables are ARBITRARY monotone node values (no closed
            # form of the integral curve), the shock tables satisfy the real JWL shock_jump by the bisect contract
            kw = dict(A=mk('A'), B=mk('B'), R1=mk('R1'), R2=mk('R2'), r0=mk('r0'))
        prob, st, xd0, t = G.make(mk, self.gl, self.gr, n=self.n, problem=self.problem, **kw)
        u = H.mod(G.UM)
        out = {}
        q = []
        for side, sgn in (('L', -1), ('R', 1)):
            if self.pattern[0 if side == 'L' else 2] != 'R':
                continue
            ps, rs, us = G.tables(prob, side)
            g = prob.gl if side == 'L' else prob.gr
            for k in range(len(ps)):
                if not (k == self.n - 1 and self.case[0 if side == 'L' else 1] == self.n - 2):
                    continue            # the user points: the table node just above the root's interval (the others are
                                        # either outside the fan or covered by the obligation of the next interval)
                c = u.sound_speed(ps[k], rs[k], g, prob)
                xq = xd0 + t * ((us[k] - c) if sgn < 0 else (us[k] + c))
                q.append((side, k, xq))
                out['node%s%d_p' % (side, k)], out['node%s%d_r' % (side, k)], out['node%s%d_u' % (side, k)] = ps[k], rs[k], us[k]
            out['tab%s' % side] = (list(ps), list(rs), list(us))
        xs = H.arr([x for _, _, x in q]) if q else np.array([], dtype=float)     # no user point: the grid is the wave positions
        prob.driver(xs)
        if prob.soln_type != self.pattern:
            from symx.engine import PathAbort
            if Mode.symbolic(mk):
                raise PathAbort()
            out['_other_pattern'] = True
        for side, k, xq in q:
            xv = xs[[i for i, (s_, k_, _) in enumerate(q) if (s_, k_) == (side, k)][0]]
            out['q%s%d_p' % (side, k)], out['q%s%d_r' % (side, k)], out['q%s%d_u' % (side, k)], out['q%s%d_e' % (side, k)] = \
                G.value_at(prob, xv)
        for i in range(len(prob.Xregs)):
            out['X%d_p' % i], out['X%d_r' % i], out['X%d_u' % i], out['X%d_e' % i] = G.value_at(prob, prob.Xregs[i])
        out['nX'] = len(prob.Xregs)
        for k_ in ('px', 'rx1', 'rx2', 'ux1', 'ux2', 'ex1', 'ex2'):
            out[k_] = getattr(prob, k_)
        out.update(st)
        out['el'], out['er'] = prob.el, prob.er
        out['_prob'] = prob
        if Mode.symbolic(mk):
            from symx.engine import current
            out['_ratio_checks'] = list(current().notes.get('ratio_checks', []))
        return out

    def domain(self, V):
        d = G.domain(V, self.generic)
        if self.problem != 'igeos':
            d += [T.gt(V(n), T.ZERO) for n in ('A', 'B', 'R1', 'R2', 'r0')]
        return d

    def claims(self, cx):
        if '_other_pattern' in cx:
            return
        pat = self.pattern
        px = cx['px']
        if '_ratio_checks' in cx:
            for i, (a, b) in enumerate(cx['_ratio_checks']):
                cx.eq('ODE stub: node pressure %d is the constant multiple of the initial pressure used for the closed form' % i, a, b)
        prob = cx['_prob']
        u = H.mod(G.UM)
        # star states lie on the wave curves of their side (tables interpolated at px), independently of the region assembly
        exp = {}
        for side, idx in (('L', 0), ('R', 2)):
            if pat[idx] == 'R':
                ps, rs, us = cx['tab%s' % side]
                p0, r0, u0 = (cx['pl'], cx['rl'], cx['ul']) if side == 'L' else (cx['pr'], cx['rr'], cx['ur'])
                i = self.case[idx // 2]
                kn, rv, uv = list(ps) + [p0], list(rs) + [r0], list(us) + [u0]
                if cx.symbolic:
                    # the root lies in interval i of this table (the obligation's case): linear interpolation there
                    th = (px - kn[i]) / (kn[i + 1] - kn[i])
                    exp[side] = (rv[i] + (rv[i + 1] - rv[i]) * th, uv[i] + (uv[i + 1] - uv[i]) * th)
                else:
                    exp[side] = (_interp(px, kn, rv), _interp(px, kn, uv))
        star = {'L': (px, cx['rx1'], cx['ux1'], cx['ex1']), 'R': (px, cx['rx2'], cx['ux2'], cx['ex2'])}
        for side in exp:
            cx.eq('%s star density lies on the %s rarefaction table at p*' % (side, side), star[side][1], exp[side][0])
            cx.eq('%s star velocity lies on the %s rarefaction table at p*' % (side, side), star[side][2], exp[side][1])
        cx.eq('contact: velocity continuous', cx['ux1'], cx['ux2'])
        left = (cx['pl'], cx['rl'], cx['ul'], cx['el'])
        right = (cx['pr'], cx['rr'], cx['ur'], cx['er'])
        # expected state AT each wave position (the assembly uses strict `xl < x': a wave position carries the state on its left,
        # except fan heads/tails, where both sides agree)
        if pat == 'RCR':
            expect = [left, star['L'], star['L'], star['R'], right]
        elif pat == 'RCS':
            expect = [left, star['L'], star['L'], None]
        elif pat == 'SCR':
            expect = [None, star['L'], star['R'], right]
        else:
            expect = [None, star['L'], None]
        names = ('pressure', 'density', 'velocity', 'energy')
        for i, e in enumerate(expect):
            if e is None:
                continue
            got = (cx['X%d_p' % i], cx['X%d_r' % i], cx['X%d_u' % i], cx['X%d_e' % i])
            contact = (i == (2 if pat[0] == 'R' else 1))
            for nm, a, b in zip(names, got, e):
                if contact and nm in ('density', 'energy'):
                    continue            # AT the contact the density is either side's by convention
                cx.eq('%s at wave position %d of %s' % (nm, i, pat), a, b)
        # EOS closure of what is returned AT each wave position, with the adiabatic index of the side the state belongs to
        # (C03); JWL flag: the JWL form stated here independently of utils.JWL_f
        gl_, gr_ = K_of(cx, self.gl), K_of(cx, self.gr)
        ic = 2 if pat[0] == 'R' else 1
        for i in range(cx['nX']):
            if i == ic:
                continue                # AT the contact the density is either side's
            g_ = gl_ if i < ic else gr_
            p_, r_, e_ = cx['X%d_p' % i], cx['X%d_r' % i], cx['X%d_e' % i]
            if self.problem == 'igeos':
                cx.eq('EOS at wave position %d: p = (gamma-1) rho e' % i, p_, (g_ - 1) * r_ * e_)
            else:
                A, B, R1, R2, r0 = (cx.p(n) for n in ('A', 'B', 'R1', 'R2', 'r0'))
                v = r0 / r_
                jwl = A * (1 - (g_ - 1) / (R1 * v)) * cx.fn('exp', -R1 * v) + B * (1 - (g_ - 1) / (R2 * v)) * cx.fn('exp', -R2 * v)
                cx.eq('EOS at wave position %d: JWL form p = A(1-w/(R1 V))e^(-R1 V) + B(1-w/(R2 V))e^(-R2 V) + w rho e' % i,
                      p_, jwl + (g_ - 1) * r_ * e_)
        # fan nodes: the node of the rarefaction table sits on its own characteristic x = xd0 + t (u -/+ c)
        for side, idx in (('L', 0), ('R', 2)):
            if pat[idx] != 'R':
                continue
            for k in range(self.n):
                if ('node%s%d_p' % (side, k)) not in cx:
                    continue
                pk = cx['node%s%d_p' % (side, k)]
                inside = pk > px
                for f, nm in (('p', 'pressure'), ('r', 'density'), ('u', 'velocity')):
                    cx.eq('%s fan: %s at the characteristic of table node %d == node value' % (side, nm, k),
                          cx['q%s%d_%s' % (side, k, f)], cx['node%s%d_%s' % (side, k, f)], when=inside)


class Mirror(Obligation):
    """mirror symmetry of the general-EOS driver: exchange the states, negate the velocities, reflect about the membrane"""

    def __init__(self, gl, gr, pattern, case, prefix, n=G.NPTS, generic=True):
        self.gl, self.gr, self.pattern, self.n, self.case, self.generic = gl, gr, pattern, n, case, generic
        self.id = '%s.geos.mirror.%s.%d%d.gl=%s.gr=%s' % (prefix, pattern, case[0], case[1], gl, gr)
        self.modules = G.modules()
        self.extra_shim = G.shim_extra(pattern, case)
        m, u = H.mod(G.RM), H.mod(G.UM)
        self.functions = [m.RiemannGenEOS.driver, u.r_int_call, u.match_shocks, u.shock_jump, u.star_velocity, u.shock_speed,
                          u.sound_speed, u.sie]
        self.bounds = ('two runs of the driver (problem and mirrored problem) on one path; left/right state, membrane position, '
                       'time symbolic; gamma pair fixed; wave pattern %s; %d nodes per rarefaction table, %d per shock table; '
                       'grid = wave positions + the fan nodes' % (pattern, n, n + 2))
        self.skip_validation = True
        self.allow_vacuous = True
        self.max_paths = 8          # one or two paths on correct code; a change that breaks the symmetry also breaks the
                                    # order chains and multiplies the paths: decide the claims on the first few
        self.timeout_s = 30
        self.budget_s = 900
        self.hard_timeout_s = 1500

    def build(self, mk):
        prob, st, xd0, t = G.make(mk, self.gl, self.gr, n=self.n)
        u = H.mod(G.UM)
        q = []
        for side, sgn in (('L', -1), ('R', 1)):
            idx = 0 if side == 'L' else 2
            if self.pattern[idx] != 'R' or self.case[idx // 2] != self.n - 2:
                continue
            ps, rs, us = G.tables(prob, side)
            g = prob.gl if side == 'L' else prob.gr
            k = self.n - 1
            c = u.sound_speed(ps[k], rs[k], g, prob)
            q.append(xd0 + t * ((us[k] - c) if sgn < 0 else (us[k] + c)))
        xs = H.arr(q) if q else np.array([], dtype=float)
        prob.driver(xs)
        if prob.soln_type != self.pattern:
            from symx.engine import PathAbort
            if Mode.symbolic(mk):
                raise PathAbort()
            return {'_other_pattern': True}
        st2 = dict(rl=st['rr'], ul=-st['ur'], pl=st['pr'], rr=st['rl'], ur=-st['ul'], pr=st['pl'])
        prob2, _, _, _ = G.make(mk, self.gr, self.gl, n=self.n, state=st2)
        xs2 = H.arr([2 * xd0 - x for x in q]) if q else np.array([], dtype=float)
        prob2.driver(xs2)
        out = {'pattern2': prob2.soln_type, 'n1': len(prob.Xregs), 'n2': len(prob2.Xregs), 'nq': len(q)}
        for j in range(len(q)):
            out['a_q%d' % j] = G.value_at(prob, xs[j])
            out['b_q%d' % j] = G.value_at(prob2, xs2[j])
        nX = len(prob.Xregs)
        for i in range(min(nX, len(prob2.Xregs))):
            out['a_X%d' % i] = G.value_at(prob, prob.Xregs[i])
            out['b_X%d' % i] = G.value_at(prob2, prob2.Xregs[nX - 1 - i])
            out['Xa%d' % i] = prob.Xregs[i]
            out['Xb%d' % i] = prob2.Xregs[nX - 1 - i]
        out['xd0'] = xd0
        if Mode.symbolic(mk):
            from symx.engine import current
            res = current().notes.get('second_residual', [])
            out['_residual'] = res[0] if res else None
        return out

    def domain(self, V):
        return G.domain(V, self.generic)

    def claims(self, cx):
        if '_other_pattern' in cx:
            return
        pat = self.pattern
        if '_residual' in cx and cx['_residual'] is not None:
            cx.eq("the mirrored problem's star-pressure function vanishes at the star pressure of the problem", cx['_residual'], 0)
        cx.true('the mirrored problem has the mirrored wave pattern', cx['pattern2'] == pat[::-1])
        cx.true('same number of waves', cx['n1'] == cx['n2'])
        names = ('pressure', 'density', 'velocity', 'energy')
        sg = (1, 1, -1, 1)
        for j in range(cx['nq']):
            for nm, s_, a, b in zip(names, sg, cx['a_q%d' % j], cx['b_q%d' % j]):
                cx.eq('fan node %d: mirrored %s at the mirrored point' % (j, nm), b, s_ * a)
        ic = 2 if pat[0] == 'R' else 1
        for i in range(cx['n1']):
            if ('Xa%d' % i) not in cx:
                continue
            cx.eq('wave %d: mirrored position' % i, cx['Xb%d' % i], 2 * cx['xd0'] - cx['Xa%d' % i])
            for nm, s_, a, b in zip(names, sg, cx['a_X%d' % i], cx['b_X%d' % i]):
                if nm in ('density', 'energy') and i == ic:
                    continue                # AT the contact: either side's density by convention
                shock_here = (i == 0 and pat[0] == 'S') or (i == cx['n1'] - 1 and pat[2] == 'S')
                if shock_here and nm != 'velocity' and False:
                    continue
                cx.eq('wave %d: mirrored %s at the mirrored wave position' % (i, nm), b, s_ * a)


class Boost(Mirror):
    """Galilean invariance of the general-EOS driver: both velocities shifted by w, the points by w t"""

    def __init__(self, gl, gr, pattern, case, prefix, n=G.NPTS, generic=True):
        Mirror.__init__(self, gl, gr, pattern, case, prefix, n=n, generic=generic)
        self.id = self.id.replace('.geos.mirror.', '.geos.boost.')
        self.extra_shim = G.shim_extra(pattern, case, second='same')
        self.budget_s = 240
        self.hard_timeout_s = 420
        self.bounds = self.bounds.replace('problem and mirrored problem', 'problem and the problem with both velocities shifted by a symbolic w')

    def build(self, mk):
        prob, st, xd0, t = G.make(mk, self.gl, self.gr, n=self.n)
        u = H.mod(G.UM)
        w = mk('w')
        q = []
        for side, sgn in (('L', -1), ('R', 1)):
            idx = 0 if side == 'L' else 2
            if self.pattern[idx] != 'R' or self.case[idx // 2] != self.n - 2:
                continue
            ps, rs, us = G.tables(prob, side)
            g = prob.gl if side == 'L' else prob.gr
            k = self.n - 1
            c = u.sound_speed(ps[k], rs[k], g, prob)
            q.append(xd0 + t * ((us[k] - c) if sgn < 0 else (us[k] + c)))
        xs = H.arr(q) if q else np.array([], dtype=float)
        prob.driver(xs)
        if prob.soln_type != self.pattern:
            from symx.engine import PathAbort
            if Mode.symbolic(mk):
                raise PathAbort()
            return {'_other_pattern': True}
        st2 = dict(st, ul=st['ul'] + w, ur=st['ur'] + w)
        prob2, _, _, _ = G.make(mk, self.gl, self.gr, n=self.n, state=st2)
        xs2 = H.arr([x + w * t for x in q]) if q else np.array([], dtype=float)
        prob2.driver(xs2)
        out = {'pattern2': prob2.soln_type, 'n1': len(prob.Xregs), 'n2': len(prob2.Xregs), 'nq': len(q), 'w': w, 't': t}
        for j in range(len(q)):
            out['a_q%d' % j] = G.value_at(prob, xs[j])
            out['b_q%d' % j] = G.value_at(prob2, xs2[j])
        for i in range(min(len(prob.Xregs), len(prob2.Xregs))):
            out['a_X%d' % i] = G.value_at(prob, prob.Xregs[i])
            out['b_X%d' % i] = G.value_at(prob2, prob2.Xregs[i])
            out['Xa%d' % i] = prob.Xregs[i]
            out['Xb%d' % i] = prob2.Xregs[i]
        if Mode.symbolic(mk):
            from symx.engine import current
            res = current().notes.get('second_residual', [])
            out['_residual'] = res[0] if res else None
        return out

    def claims(self, cx):
        if '_other_pattern' in cx:
            return
        pat = self.pattern
        w, t = cx['w'], cx['t']
        if '_residual' in cx and cx['_residual'] is not None:
            cx.eq("the boosted problem's star-pressure function vanishes at the star pressure of the problem", cx['_residual'], 0)
        cx.true('the boosted problem has the same wave pattern', cx['pattern2'] == pat)
        cx.true('same number of waves', cx['n1'] == cx['n2'])
        names = ('pressure', 'density', 'velocity', 'energy')
        for j in range(cx['nq']):
            for nm, a, b in zip(names, cx['a_q%d' % j], cx['b_q%d' % j]):
                cx.eq('fan node %d: %s at the translated point' % (j, nm), b, a + w if nm == 'velocity' else a)
        ic = 2 if pat[0] == 'R' else 1
        for i in range(cx['n1']):
            if ('Xa%d' % i) not in cx:
                continue
            cx.eq('wave %d: position translated by w t' % i, cx['Xb%d' % i], cx['Xa%d' % i] + w * t)
            for nm, a, b in zip(names, cx['a_X%d' % i], cx['b_X%d' % i]):
                cx.eq('wave %d: %s at the translated wave position' % (i, nm), b, a + w if nm == 'velocity' else a)


def obligations(prefix, tier, patterns=('RCR', 'RCS', 'SCR', 'SCS'), mirror=False, boost=False):
    obs = []
    pairs = [(Fraction(7, 5), Fraction(5, 3))] if tier != 'thorough' else \
        [(Fraction(7, 5), Fraction(5, 3)), (Fraction(5, 3), Fraction(7, 5)), (Fraction(7, 5), Fraction(7, 5)), (Fraction(2), Fraction(3))]
    gs = sorted(set(g for p in pairs for g in p))
    for g in gs:
        obs.append(OdeContract(g, 1, prefix))
        obs.append(OdeContract(g, -1, prefix))
    n = G.NPTS
    for gl, gr in pairs:
        for pat in patterns:
            # intervals of the table that can contain the root.  Rarefaction side: without the last one (between the last
            # tabulated node and the initial pressure), where the star-state lookup clamps to the last node -- an effect of
            # the size of one table step, "within the accuracy of the solver's own numerics"
            nl = n - 1 if pat[0] == 'R' else n + 1
            nr = n - 1 if pat[2] == 'R' else n + 1
            for il in range(nl):
                for ir in range(nr):
                    if tier == 'thorough' and not mirror and (gl, gr) == pairs[0] and 'R' in pat:
                        obs.append(Assembly(gl, gr, pat, (il, ir), prefix, generic=True, problem='JWL'))
                    if boost:
                        obs.append(Boost(gl, gr, pat, (il, ir), prefix, generic=(tier != 'thorough')))
                    elif mirror:
                        obs.append(Mirror(gl, gr, pat, (il, ir), prefix, generic=(tier != 'thorough')))
                    else:
                        obs.append(Assembly(gl, gr, pat, (il, ir), prefix, generic=(tier != 'thorough')))
    return obs
