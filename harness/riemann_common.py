"""Shared symbolic driver run for the ideal-gas 1-D Riemann solver (C02, C04, C09, C10, C17)."""
from fractions import Fraction
import numpy as np

from symx import terms as T
from symx import stubs
from symx.engine import SymReal, SymBool, term_of
from symx.framework import V
from . import common as H
from .common import K, Mode

RM = 'exactpack.solvers.riemann.riemann'
UM = 'exactpack.solvers.riemann.utils'

STATE = ('rl', 'ul', 'pl', 'rr', 'ur', 'pr')
PATTERNS = {'shock-contact-shock-SCS': 'SCS', 'shock-contact-rarefaction-SCR': 'SCR',
            'rarefaction-contact-shock-RCS': 'RCS', 'rarefaction-contact-rarefaction-RCR': 'RCR'}

GAMMA_PAIRS_QUICK = [(Fraction(7, 5), Fraction(7, 5)), (Fraction(5, 3), Fraction(7, 5))]
GAMMA_PAIRS_FULL = [(a, b) for a in H.G_FULL for b in H.G_FULL]


def modules():
    return [H.mod(RM), H.mod(UM), H.mod('exactpack.solvers.riemann.ep_riemann')]


def shim_extra(cut=True):
    d = {'min': stubs.sym_min, 'max': stubs.sym_max, 'print': H.quiet_print}
    if cut:
        d['linspace'] = stubs.cut_here
    return d


def domain(V, extra=True):
    d = [T.gt(V('rl'), T.ZERO), T.gt(V('pl'), T.ZERO), T.gt(V('rr'), T.ZERO), T.gt(V('pr'), T.ZERO),
         T.gt(V('t'), T.ZERO)]
    # degenerate aliasing (identical left and right state: no waves) is outside the claim
    d.append(T.lnot(T.land(T.eq(V('pl'), V('pr')), T.eq(V('rl'), V('rr')), T.eq(V('ul'), V('ur')))))
    return d


EP = 'exactpack.solvers.riemann.ep_riemann'
KEYS = ('px', 'ux', 'rx1', 'rx2', 'ex1', 'ex2', 'ax1', 'ax2', 'al', 'ar', 'el', 'er')


def run_driver(mk, gl, gr, state=None, xd0=None, t=None, prefix='', xuser=None):
    """Run the PUBLIC solver class IGEOS_Solver: its _run builds a RiemannIGEOS and calls driver().
    Symbolic mode: driver is cut at the first linspace (grid construction) and its locals are harvested;
    concrete mode: the full solver runs and the same locals are captured when driver() returns."""
    m = H.mod(RM)
    ep = H.mod(EP)
    st = state or {k: mk(prefix + k) for k in STATE}
    xd0 = mk(prefix + 'xd0') if xd0 is None else xd0
    t = mk(prefix + 't') if t is None else t
    kw = dict(st)
    kw.update(gl=K(mk, gl), gr=K(mk, gr), xd0=xd0, xmin=xd0 - 1, xmax=xd0 + 1, num_x_pts=2)
    sol = ep.IGEOS_Solver(**kw)
    xs = H.arr([xd0 if xuser is None else xuser])
    if Mode.symbolic(mk):
        try:
            sol._run(xs, t)
            raise RuntimeError('driver was not cut')
        except stubs.Cut as c:
            L = c.locals
    else:
        _, L = H.capture_locals(m.RiemannIGEOS.driver, lambda: sol(xs, t))
    out = {k: L[k] for k in KEYS}
    out['Vregs'] = list(L['Vregs'])
    out['Xregs'] = list(L['Xregs'])
    out['pattern'] = PATTERNS[L['soln_type']]
    out['inst'] = L['self']
    out.update({k: st[k] for k in STATE})
    out.update(gl=K(mk, gl), gr=K(mk, gr), xd0=xd0, t=t)
    return out


def flat(out, prefix=''):
    """make a driver result usable as an obligation output dict (numbers only + tags)"""
    d = {}
    for k, v in out.items():
        if k == 'inst':
            continue
        if k in ('Vregs', 'Xregs'):
            for i, x in enumerate(v):
                d['%s%s%d' % (prefix, k, i)] = x
            d[prefix + 'n' + k] = len(v)
        elif k == 'pattern':
            d[prefix + '_pattern'] = v
        else:
            d[prefix + k] = v
    return d


# ---------------------------------------------------------------------------------------------------------------------
# assembled fields at a symbolic user point through the public solver (no internal grid: linspace gives an empty grid and
# the wave positions are not appended, so the solver's sort is trivial; region assembly and interpolation run as coded)

def _empty_linspace(*a, **k):
    return np.empty(0, dtype=object)


def _append_user_only(x, v):
    v = np.atleast_1d(np.asarray(v, dtype=object))
    x = np.asarray(x, dtype=object)
    if v.size >= 3:          # Xregs (3-5 wave positions): only refine the internal grid; not needed here
        return x
    return np.concatenate([x, v])


def shim_extra_point():
    d = {'min': stubs.sym_min, 'max': stubs.sym_max, 'print': H.quiet_print, 'linspace': _empty_linspace, 'append': _append_user_only}
    from symx.shim import Recorder
    d['ExactSolution'] = Recorder
    return d


def run_point(mk, gl, gr, xname='x'):
    """{field: value at the user point} + wave table, through IGEOS_Solver.__call__"""
    ep = H.mod(EP)
    st = {k: mk(k) for k in STATE}
    kw = dict(st)
    kw.update(gl=K(mk, gl), gr=K(mk, gr), xd0=mk('xd0'), xmin=mk('xd0') - 1, xmax=mk('xd0') + 1, num_x_pts=2)
    sol = ep.IGEOS_Solver(**kw)
    res = sol(H.arr([mk(xname)]), mk('t'))
    f = H.first(H.fields(res))
    out = dict(f)
    out['Vregs'] = list(sol.Vregs)
    out['pattern'] = PATTERNS[sol.soln_type]
    out.update(st)
    out.update(gl=K(mk, gl), gr=K(mk, gr), xd0=mk('xd0'), t=mk('t'))
    return out


def bisect_only(pattern):
    """bisect stub that abandons the path at once when the driver is solving another wave pattern than `pattern'
    (each pattern gets its own obligation, run in parallel)"""
    from symx.engine import PathAbort

    def f(fun, a, b, *args, **kw):
        names = getattr(getattr(fun, '__code__', None), 'co_names', ())
        if (pattern + '_call') not in names:
            raise PathAbort()
        return stubs.bisect_stub(fun, a, b, *args, **kw)
    return f
