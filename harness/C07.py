"""C07 -- independent implementations of the same problem agree."""
from fractions import Fraction
import numpy as np

from symx import terms as T
from symx.framework import Obligation, V
from symx.engine import SymReal, SymBool, term_of
from symx.shim import Recorder
from . import common as H
from . import riemann_common as R
from .common import K, Mode

EXPLANATION = ('Relational symbolic execution: the two routes to the same physical solution are both run on the same symbolic '
               'inputs (parameters mapped as documented) in one solver context and z3 decides equality of the returned field '
               'terms (or, where a route is numerical, that its kernels are satisfied by the closed forms of the other route, and that '
               'the wave table the ideal-gas DRIVER builds equals what the general-EOS kernels give at the driver\'s own star state).')
BOUNDS = ['geometry enumerated; one evaluation point; heat series compared mode by mode for n < 3 (quick) / 6 (thorough)',
          'gamma sliced for the Riemann kernels']
OUTSIDE = ['numerical agreement of the full general-EOS Riemann output with the ideal-gas solver (tables, ODE, interpolation): '
           'only the kernels are compared', 'agreement "to the accuracy of the less accurate route" is not a solver statement: '
           'exact equality of formulas is what is decided']
ASSUMPTIONS = ['sin((2n+1) pi/2) = (-1)^n, cos((2n+1) pi/2) = 0 (used for the BC3 / mirrored-BC4 mode comparison)']
META = {
    'level_text': ('Bounded relational symbolic check on the real code: Noh vs Coggeshall 19 vs black-box Noh (ideal gas), Noh2 vs '
                   'its Coggeshall form vs Cog1(b=0), every geometry wrapper class vs the general class, planar sandwiches vs the '
                   'rod, rod BC3 vs mirrored BC4 (mode by mode), 2-D vs 3-D burn times on a common plane, ideal-gas Riemann closed '
                   'forms vs general-EOS kernels; equality for all real inputs on every path pair. Not a proof: floats as reals.'),
    'level_note': 'Trusted: z3; symx proxies/shims; the parameter maps between routes written in harness/C07.py.',
}

FLD = ('density', 'velocity', 'pressure', 'specific_internal_energy')


class Pair(Obligation):
    """generic: two builders returning {field: value}; all common fields equal"""

    def __init__(self, oid, modules, a, b, dom, fields=FLD, functions=(), extra_shim=None, bounds='all real parameters, position and time symbolic'):
        self.id = oid
        self.modules = [H.mod(m) if isinstance(m, str) else m for m in modules]
        self.a, self.b, self.dom, self.fields = a, b, dom, fields
        self.extra_shim = dict({'ExactSolution': Recorder, 'print': H.quiet_print}, **(extra_shim or {}))
        self.functions = list(functions)
        self.bounds = bounds
        self.skip_validation = True
        self.max_paths = 100

    def build(self, mk):
        fa, fb = self.a(mk), self.b(mk)
        out = {}
        for k in self.fields:
            out['a_' + k] = fa[k]
            out['b_' + k] = fb[k]
        return out

    def domain(self, V):
        return self.dom(V)

    def claims(self, cx):
        for k in self.fields:
            cx.eq('%s agrees' % k, cx['a_' + k], cx['b_' + k])


def run1(cls, attrs, mk, real_init=False, tmap=None, rname='r'):
    s = cls(**attrs) if real_init else H.new_solver(cls, attrs)
    m2 = mk if tmap is None else H.Sub(mk, lambda n: tmap(mk('t')) if n == 't' else mk(n))
    return H.first(H.run_1d(s, m2, rnames=(rname,)))


def obligations(tier):
    obs = []
    noh = H.mod('exactpack.solvers.noh.noh1')
    nohpk = H.mod('exactpack.solvers.noh')
    c19m, C19 = H.cog_class('Cog19')
    c1m, C1 = H.cog_class('Cog1')
    n2 = H.mod('exactpack.solvers.noh2.noh2')
    n2c = H.mod('exactpack.solvers.noh2.noh2_cog')
    n2pk = H.mod('exactpack.solvers.noh2')
    pos = lambda *ns: (lambda V: [T.gt(V(n), T.ZERO) for n in ns])

    def nohdom(V):
        return [T.gt(V('gamma'), T.ONE), T.lt(V('u0'), T.ZERO), T.gt(V('rho0'), T.ZERO), T.gt(V('r'), T.ZERO), T.gt(V('t'), T.ZERO),
                T.gt(V('Gamma'), T.ZERO)]
    for g in (1, 2, 3):
        # Noh vs Coggeshall 19
        obs.append(Pair('C07.noh-cog19.g%d' % g, [noh, c19m],
                        lambda mk, g=g: run1(noh.Noh, dict(geometry=g, gamma=mk('gamma'), u0=mk('u0'), rho0=mk('rho0')), mk),
                        lambda mk, g=g: run1(C19, dict(geometry=g, gamma=mk('gamma'), u0=mk('u0'), rho0=mk('rho0'), Gamma=mk('Gamma')), mk),
                        nohdom, functions=[noh.Noh._run, C19._run]))
        # Noh2 vs Noh2Cog vs Cog1(b=0) at 1-t with u -> -u
        def n2dom(V):
            return [T.gt(V('gamma'), T.ONE), T.gt(V('rho0'), T.ZERO), T.gt(V('e0'), T.ZERO), T.gt(V('r'), T.ZERO), T.gt(V('t'), T.ZERO),
                    T.lt(V('t'), T.ONE), T.gt(V('Gamma'), T.ZERO)]
        a2 = lambda mk, g=g: run1(n2.Noh2, dict(geometry=g, gamma=mk('gamma'), rho0=mk('rho0'), e0=mk('e0')), mk, real_init=True)
        obs.append(Pair('C07.noh2-noh2cog.g%d' % g, [n2, n2c, c1m], a2,
                        lambda mk, g=g: run1(n2c.Noh2Cog, dict(geometry=g, gamma=mk('gamma'), rho0=mk('rho0'), e0=mk('e0')), mk, real_init=True),
                        n2dom, functions=[n2.Noh2._run, n2c.Noh2Cog._run, n2c.Noh2Cog.__init__]))

        def cog1_route(mk, g=g):
            f = run1(C1, dict(geometry=g, gamma=mk('gamma'), rho0=mk('rho0'), temp0=mk('e0') * (mk('gamma') - 1) / mk('Gamma'),
                              b=0, Gamma=mk('Gamma')), mk, tmap=lambda t: 1 - t)
            f = dict(f)
            f['velocity'] = -f['velocity']
            return f
        obs.append(Pair('C07.noh2-cog1.g%d' % g, [n2, c1m], a2, cog1_route, n2dom, functions=[n2.Noh2._run, C1._run]))
    # geometry wrappers vs general class
    def wrap_pairs():
        out = []
        for g, pre in ((1, 'Planar'), (2, 'Cylindrical'), (3, 'Spherical')):
            # the standard wrappers expose gamma only (u0 = -1, rho0 = 1 are the class defaults of Noh)
            out.append(('noh', nohpk, getattr(nohpk, pre + 'Noh'), noh.Noh, ['gamma'], g, [noh],
                        lambda V: [T.gt(V('gamma'), T.ONE), T.gt(V('r'), T.ZERO), T.gt(V('t'), T.ZERO)], FLD))
            out.append(('noh2', n2pk, getattr(n2pk, pre + 'Noh2'), n2.Noh2, ['gamma', 'rho0', 'e0'], g, [n2],
                        lambda V: [T.gt(V('gamma'), T.ONE), T.gt(V('rho0'), T.ZERO), T.gt(V('e0'), T.ZERO), T.gt(V('r'), T.ZERO),
                                   T.gt(V('t'), T.ZERO), T.lt(V('t'), T.ONE)], FLD))
            for name in ('Cog1', 'Cog2', 'Cog3', 'Cog4', 'Cog8', 'Cog9', 'Cog13', 'Cog17', 'Cog19', 'Cog20'):
                cm, cc = H.cog_class(name)
                w = getattr(cm, pre + name, None)
                if w is None or g not in H.COG[name]['geoms']:
                    continue
                out.append((name.lower(), cm, w, cc, H.COG[name]['params'], g, [cm],
                            lambda V: [T.gt(V('r'), T.ZERO), T.gt(V('t'), T.ZERO)], FLD + ('temperature',)))
        return out
    for key, pk, wcls, gcls, params, g, mods, dom, flds in wrap_pairs():
        if tier == 'quick' and key.startswith('cog') and key not in ('cog1', 'cog8', 'cog19'):
            continue
        obs.append(Pair('C07.wrapper.%s.g%d' % (key, g), mods,
                        lambda mk, wcls=wcls, params=params: run1(wcls, {p: mk(p) for p in params}, mk, real_init=True),
                        lambda mk, gcls=gcls, params=params, g=g: run1(gcls, dict({p: mk(p) for p in params}, geometry=g), mk, real_init=True),
                        dom, fields=flds, functions=[wcls.__init__, gcls._run]))
    obs += heat_obligations(tier)
    obs += burn_obligations(tier)
    obs += riemann_kernel_obligations(tier)
    obs += bbnoh_obligations(tier)
    return obs


# ------------------------------------------------------------------ Noh vs black-box Noh with an ideal gas

class NohInBBResidual(Obligation):
    """Noh's closed-form post-shock state and shock speed zero the real pressure_noh_residual with ideal_gas_eos"""

    def __init__(self, geom):
        from . import C16
        self.C16 = C16
        self.geom = geom
        self.noh = H.mod('exactpack.solvers.noh.noh1')
        self.id = 'C07.noh-nohbb.g%d' % geom
        self.modules = [self.noh, H.mod(C16.EOSM), H.mod(C16.RESM)]
        self.extra_shim = {'ExactSolution': Recorder}
        self.functions = [self.noh.Noh._run, getattr(H.mod(C16.RESM), 'pressure_noh_residual').F]
        self.bounds = 'gamma, u0, rho0, t symbolic; geometry fixed; Noh state taken just behind its own shock'
        self.skip_validation = True

    def build(self, mk):
        g, u0, rho0, t = mk('gamma'), mk('u0'), mk('rho0'), mk('t')
        s = H.new_solver(self.noh.Noh, dict(geometry=self.geom, gamma=g, u0=u0, rho0=rho0))
        D = abs(u0) * (g - 1) / 2                       # d/dt of the shock location Noh reports
        rs = D * t
        f = H.first(H.run_1d(s, H.Sub(mk, lambda n: rs / 2 if n == 'r' else mk(n))))
        eos = getattr(H.mod(self.C16.EOSM), 'ideal_gas_eos')(gamma=g)
        ic = {'velocity': u0, 'density': rho0, 'pressure': 0, 'symmetry': self.geom - 1}
        res = getattr(H.mod(self.C16.RESM), 'pressure_noh_residual')(ic, eos)
        F = res.F([f['density'], f['specific_internal_energy'], D])
        return {'F0': F[0], 'F1': F[1], 'F2': F[2], 'p_noh': f['pressure'], 'p_eos': eos.P(f['density'], f['specific_internal_energy'])}

    def domain(self, V):
        return [T.gt(V('gamma'), T.ONE), T.lt(V('u0'), T.ZERO), T.gt(V('rho0'), T.ZERO), T.gt(V('t'), T.ZERO)]

    def claims(self, cx):
        for i in range(3):
            cx.eq('black-box jump residual F[%d] vanishes at the Noh state' % i, cx['F%d' % i], 0, scale=[1.0] if not cx.symbolic else None)
        cx.eq('Noh pressure = ideal_gas_eos.P(rho, e)', cx['p_noh'], cx['p_eos'])


class BBWrapperVsGeneral(Obligation):
    """black-box Noh: a geometry wrapper (built with its default initial state, another wrapper of a DIFFERENT geometry built
    before it is first evaluated - every wrapper mutates the default dict it was handed) solves the same jump problem as the
    general class with that symmetry.  The class-level Newton solver is one shared contract stub (same system -> same root)."""

    def __init__(self, a, b):
        from . import C16, C02
        self.C16, self.C02 = C16, C02
        self.a, self.b = a, b
        self.bb = H.mod(C16.BBM)
        self.id = 'C07.wrapper.nohbb.%s-with-%s' % (a[:3], b[:3])
        self.modules = [self.bb, H.mod(C16.EOSM), H.mod(C16.RESM)]
        self.extra_shim = {'ExactSolution': Recorder, 'print': H.quiet_print}
        self.functions = [getattr(self.bb, a).__init__, self.bb.NohBlackBoxEos.__init__, self.bb.NohBlackBoxEos.solve_jump_conditions]
        self.bounds = 'gamma of both equations of state symbolic; default initial state; order: build A, build B, evaluate A'
        self.skip_validation = True

    def build(self, mk):
        bb, C16 = self.bb, self.C16
        if Mode.symbolic(mk):
            from symx.engine import current
            ex = current()
            if 'shared_newton' not in ex.notes:
                ex.notes['shared_newton'] = self.C02._NewtonStub()
            bb.NohBlackBoxEos.solver = ex.notes['shared_newton']
        elif isinstance(bb.NohBlackBoxEos.solver, self.C02._NewtonStub):
            bb.NohBlackBoxEos.solver = H.mod(C16.NEWM).newton_solver()
        eos = C16.make_eos('ideal_gas_eos', mk)
        A = getattr(bb, self.a)(eos)
        getattr(bb, self.b)(C16.make_eos('ideal_gas_eos', H.Sub(mk, lambda n: mk('o_' + n))))
        sym_ = A.geometry - 1
        gen = bb.NohBlackBoxEos(eos, {'density': 1, 'velocity': -1, 'pressure': 0, 'symmetry': sym_})
        out = {}
        for tag, s in (('w', A), ('g', gen)):
            s.solve_jump_conditions()
            out[tag + '_symmetry_used'] = s.residual_funciton.symmetry
            out[tag + '_shocked_density'], out[tag + '_shocked_energy'], out[tag + '_shock_speed'] = s.shocked_density, s.shocked_energy, s.shock_speed
        out['w_symmetry_attr'] = A.initial_conditions['symmetry']
        out['g_symmetry_attr'] = sym_
        return out

    def domain(self, V):
        return [T.gt(V('gamma'), T.ONE), T.gt(V('o_gamma'), T.ONE)]

    def claims(self, cx):
        for k in ('symmetry_used', 'symmetry_attr', 'shocked_density', 'shocked_energy', 'shock_speed'):
            cx.eq('wrapper %s = general class %s' % (k, k), cx['w_' + k], cx['g_' + k])


def bbnoh_obligations(tier):
    obs = [NohInBBResidual(g) for g in (1, 2, 3)]
    for a, b in (('PlanarNohBlackBox', 'SphericalNohBlackBox'), ('CylindricalNohBlackBox', 'PlanarNohBlackBox'), ('SphericalNohBlackBox', 'CylindricalNohBlackBox')):
        obs.append(BBWrapperVsGeneral(a, b))
    return obs


# ------------------------------------------------------------------ heat: sandwiches vs rod, BC3 vs mirrored BC4

class SandwichVsRod(Obligation):
    def __init__(self, which, nsum):
        self.which, self.nsum = which, nsum
        self.hm = H.mod('exactpack.solvers.heat')
        self.rm = H.mod('exactpack.solvers.heat.rod1d')
        self.id = 'C07.sandwich.%s' % which
        self.modules = [self.rm]
        self.extra_shim = {'ExactSolution': Recorder}
        self.functions = [self.rm.Rod1D.__init__, self.rm.Rod1D._run]
        self.bounds = 'kappa, L, boundary data, TL, TR, x, t symbolic; Nsum = %d' % nsum
        self.skip_validation = True

    def build(self, mk):
        hm = self.hm
        common = dict(kappa=mk('kappa'), L=mk('L'), TL=mk('TL'), TR=mk('TR'), Nsum=self.nsum)
        if self.which == 'planar':
            s = hm.PlanarSandwich(TB=mk('TB'), TT=mk('TT'), **common)
            r = hm.Rod1D(alpha1=1, beta1=0, gamma1=mk('TB'), alpha2=1, beta2=0, gamma2=mk('TT'), **common)
        elif self.which == 'hot':
            s = hm.PlanarSandwichHot(F=mk('F'), **common)
            r = hm.Rod1D(alpha1=0, beta1=1, gamma1=mk('F'), alpha2=0, beta2=1, gamma2=mk('F'), **common)
        else:
            s = hm.PlanarSandwichHalf(TB=mk('TB'), FT=mk('FT'), **common)
            r = hm.Rod1D(alpha1=1, beta1=0, gamma1=mk('TB'), alpha2=0, beta2=1, gamma2=mk('FT'), **common)
        out = {}
        for n in range(self.nsum):
            for nm in ('kn', 'An', 'Bn'):
                out['s_%s%d' % (nm, n)] = getattr(s, nm)[n]
                out['r_%s%d' % (nm, n)] = getattr(r, nm)[n]
        xs = H.arr([mk('x')])
        if self.which == 'planar' or True:
            fs = H.fields(s._run(xs, mk('t')) if Mode.symbolic(mk) else s._run(xs, mk('t')))
            fr = H.fields(r._run(xs, mk('t')))
        out['s_T'] = fs['temperature'][0]
        out['r_T'] = fr['temperature'][0]
        return out

    def domain(self, V):
        return [T.gt(V('kappa'), T.ZERO), T.gt(V('L'), T.ZERO), T.gt(V('t'), T.ZERO), T.gt(V('x'), T.ZERO), T.lt(V('x'), V('L'))]

    def claims(self, cx):
        for n in range(self.nsum):
            for nm in ('kn', 'An', 'Bn'):
                cx.eq('%s[%d] agrees' % (nm, n), cx['s_%s%d' % (nm, n)], cx['r_%s%d' % (nm, n)])
        cx.eq('temperature agrees', cx['s_T'], cx['r_T'])


class BC3vsBC4(Obligation):
    """rod BC3 (T at x=0, flux at x=L) vs BC4 with mirrored data (flux at x=0, T at x=L), mode by mode:
    B_n sin(k_n x) = A'_n cos(k_n (L - x)) with cos(k_n L) = 0, sin(k_n L) = (-1)^n, i.e. B_n = (-1)^n A'_n,
    and the static parts are mirror images."""

    def __init__(self, nsum):
        self.nsum = nsum
        self.hm = H.mod('exactpack.solvers.heat')
        self.rm = H.mod('exactpack.solvers.heat.rod1d')
        self.id = 'C07.rod.bc3-bc4mirror'
        self.modules = [self.rm]
        self.extra_shim = {'ExactSolution': Recorder}
        self.functions = [self.rm.Rod1D.modes_BC3, self.rm.Rod1D.modes_BC4, self.rm.Rod1D._run]
        self.bounds = 'kappa, L, boundary data, TL, TR, x symbolic; modes n < %d; static parts compared through _run with Nsum=0' % nsum
        self.skip_validation = True

    def build(self, mk):
        hm = self.hm
        a1, g1, b2, g2 = mk('alpha1'), mk('gamma1'), mk('beta2'), mk('gamma2')
        kw = dict(kappa=mk('kappa'), L=mk('L'))
        r3 = hm.Rod1D(alpha1=a1, beta1=0, gamma1=g1, alpha2=0, beta2=b2, gamma2=g2, TL=mk('TL'), TR=mk('TR'), Nsum=self.nsum, **kw)
        # mirror x -> L - x: the derivative changes sign
        r4 = hm.Rod1D(alpha1=0, beta1=-b2, gamma1=g2, alpha2=a1, beta2=0, gamma2=g1, TL=mk('TR'), TR=mk('TL'), Nsum=self.nsum, **kw)
        out = {}
        for n in range(self.nsum):
            out['k3_%d' % n], out['B3_%d' % n], out['A3_%d' % n] = r3.kn[n], r3.Bn[n], r3.An[n]
            out['k4_%d' % n], out['A4_%d' % n], out['B4_%d' % n] = r4.kn[n], r4.An[n], r4.Bn[n]
        s3 = hm.Rod1D(alpha1=a1, beta1=0, gamma1=g1, alpha2=0, beta2=b2, gamma2=g2, TL=mk('TL'), TR=mk('TR'), Nsum=0, **kw)
        s4 = hm.Rod1D(alpha1=0, beta1=-b2, gamma1=g2, alpha2=a1, beta2=0, gamma2=g1, TL=mk('TR'), TR=mk('TL'), Nsum=0, **kw)
        x, L = mk('x'), mk('L')
        out['static3'] = H.fields(s3._run(H.arr([x]), mk('t')))['temperature'][0]
        out['static4m'] = H.fields(s4._run(H.arr([L - x]), mk('t')))['temperature'][0]
        return out

    def domain(self, V):
        return [T.gt(V('kappa'), T.ZERO), T.gt(V('L'), T.ZERO), T.gt(V('t'), T.ZERO), T.gt(V('x'), T.ZERO), T.lt(V('x'), V('L')),
                T.ne(V('alpha1'), T.ZERO), T.ne(V('beta2'), T.ZERO)]

    def claims(self, cx):
        for n in range(self.nsum):
            sg = -1 if n % 2 else 1
            cx.eq('k_%d agrees' % n, cx['k3_%d' % n], cx['k4_%d' % n])
            cx.eq('B_%d(BC3) = (-1)^%d A_%d(mirrored BC4)' % (n, n, n), cx['B3_%d' % n], sg * cx['A4_%d' % n])
            cx.eq('A_%d(BC3) = 0' % n, cx['A3_%d' % n], 0, scale=[1.0] if not cx.symbolic else None)
            cx.eq('B_%d(mirrored BC4) = 0' % n, cx['B4_%d' % n], 0, scale=[1.0] if not cx.symbolic else None)
        cx.eq('static parts are mirror images', cx['static3'], cx['static4m'])


def heat_obligations(tier):
    n = 3 if tier == 'quick' else 6
    return [SandwichVsRod(w, n) for w in ('planar', 'hot', 'half')] + [BC3vsBC4(n)]


# ------------------------------------------------------------------ burn times: 2-D vs 3-D on a common plane

class Burn2D3D(Obligation):
    def __init__(self, solver):
        self.solver = solver
        self.m = H.mod('exactpack.solvers.kenamond.' + solver)
        self.cls = getattr(self.m, solver.capitalize())
        self.id = 'C07.%s.2d-3d' % solver
        self.modules = [self.m]
        from symx import stubs
        self.extra_shim = {'ExactSolution': Recorder, 'min': stubs.sym_min, 'max': stubs.sym_max}
        self.functions = [self.cls.__init__, self.cls._run]
        self.bounds = 'all solver parameters and the in-plane point symbolic; 3-D problem embedded with the extra coordinate zero'
        self.skip_validation = True
        self.max_paths = 300
        self.timeout_s = 20
        self.congruence = True
        self.congruence_budget_s = 20

    def build(self, mk):
        x, y = mk('x'), mk('y')
        if self.solver == 'kenamond1':
            dx, dy = mk('dx'), mk('dy')
            s2 = self.cls(geometry=2, D=mk('D'), x_d=(dx, dy), t_d=mk('t_d'))
            s3 = self.cls(geometry=3, D=mk('D'), x_d=(dx, 0, dy), t_d=mk('t_d'))
            p2, p3 = [x, y], [x, 0, y]
        elif self.solver == 'kenamond3':
            dx, dy = mk('dx'), mk('dy')
            s2 = self.cls(geometry=2, R=mk('R'), D=mk('D'), x_d=(dx, dy), t_d=mk('t_d'))
            s3 = self.cls(geometry=3, R=mk('R'), D=mk('D'), x_d=(dx, 0, dy), t_d=mk('t_d'))
            p2, p3 = [x, y], [x, 0, y]
        else:
            kw = dict(R=mk('R'), D1=mk('D1'), D2=mk('D2'), dets=[mk('a1'), mk('a2'), mk('a4'), mk('a5')],
                      t_d=[mk('t1'), mk('t2'), mk('t3'), mk('t4'), mk('t5')])
            s2 = self.cls(geometry=2, **kw)
            s3 = self.cls(geometry=3, **kw)
            p2, p3 = [x, y], [x, 0, y]      # detonators on the last axis in both
        b2 = H.first(H.fields(s2(H.mat([p2]), 0.0)))['burntime']
        b3 = H.first(H.fields(s3(H.mat([p3]), 0.0)))['burntime']
        return {'bt2': b2, 'bt3': b3}

    def claims(self, cx):
        cx.eq('2-D and 3-D burn time agree on the common plane', cx['bt2'], cx['bt3'])


def burn_obligations(tier):
    return [Burn2D3D(s) for s in ('kenamond1', 'kenamond2', 'kenamond3')]


# ------------------------------------------------------------------ Riemann: ideal-gas closed forms vs general-EOS kernels

class RiemannKernels(Obligation):
    """the closed forms of the ideal-gas solver satisfy the kernels the general-EOS solver integrates / solves"""
    uses_derivatives = True

    def __init__(self, g):
        self.g = g
        self.id = 'C07.riemann.kernels.gamma=%s' % g
        self.modules = R.modules()
        self.extra_shim = R.shim_extra(cut=False)
        u = H.mod(R.UM)
        self.functions = [u.shock_jump, u.shock_speed, u.star_velocity, u.drdp_dudp, u.rho_star_shock, u.shock, u.shock_velocity,
                          u.rho_star_rarefaction, u.rarefaction]
        self.bounds = 'state (p0, r0, u0), star pressure px symbolic; gamma fixed; both wave families'
        self.skip_validation = True
        self.timeout_s = 40

    def build(self, mk):
        m = H.mod(R.RM)
        u = H.mod(R.UM)
        g = K(mk, self.g)
        p0, r0, u0, px = mk('p0'), mk('r0'), mk('u0'), mk('px')
        inst = m.RiemannIGEOS(rl=r0 * 2, ul=u0 + 1, pl=p0 * 3, rr=r0, ur=u0, pr=p0, gl=g, gr=g, num_x_pts=2)   # (p0,r0,u0) is the RIGHT state
        out = {}
        rx = u.rho_star_shock(px, p0, r0, g, inst)
        out['hugoniot_residual'] = u.shock_jump(p0, r0, g, px, rx, inst)
        out['ig_star_u'] = u.shock(px, p0, r0, u0, g, inst)
        out['gen_star_u'] = u.star_velocity(p0, r0, u0, px, rx, inst)
        out['ig_Vs'] = u.shock_velocity(px, p0, r0, u0, g, inst)
        out['gen_Vs'] = u.shock_speed(px, rx, p0, r0, u0, inst)
        # isentrope: closed forms rho(p), u(p) of the right rarefaction vs the ODE right-hand side drdp_dudp
        rho_p = u.rho_star_rarefaction(px, p0, r0, g, inst)
        u_p = u0 - (u.rarefaction(px, p0, r0, 0, g, inst))       # right fan: u* = ur + f_R(p) = ur - rarefaction(p, pr, rr, 0)
        d = u.drdp_dudp(px, [rho_p, u_p], g, 1, inst)
        out.update(rho_p=rho_p, u_p=u_p, drdp=d[0], dudp=d[1])
        return out

    def domain(self, V):
        return [T.gt(V('p0'), T.ZERO), T.gt(V('r0'), T.ZERO), T.gt(V('px'), T.ZERO)]

    def claims(self, cx):
        shock = cx.p('px') > cx.p('p0')
        cx.eq('ideal-gas star density zeroes the general Hugoniot function shock_jump', cx['hugoniot_residual'], 0, when=shock,
              scale=[1.0] if not cx.symbolic else None)
        cx.eq('shock(): star velocity equals star_velocity()', cx['ig_star_u'], cx['gen_star_u'], when=shock)
        cx.eq('shock_velocity() equals shock_speed()', cx['ig_Vs'], cx['gen_Vs'], when=shock)
        cx.eq('closed-form isentrope density satisfies d rho/dp = 1/a^2', cx.d(lambda c: c['rho_p'], 'px'), cx['drdp'])
        cx.eq('closed-form fan velocity satisfies du/dp = 1/(rho a)', cx.d(lambda c: c['u_p'], 'px'), cx['dudp'])


class DriverVsKernels(Obligation):
    """the wave table the ideal-gas DRIVER builds (shock speeds, contact velocity) equals what the general-EOS kernels give
    for the driver's own star state: the two Riemann routes place their shocks and contact by the same rule"""

    def __init__(self, gl, gr, only):
        self.gl, self.gr, self.only = gl, gr, only
        self.id = 'C07.riemann.driver-kernels.%s.gl=%s.gr=%s' % (only, gl, gr)
        self.modules = R.modules()
        self.extra_shim = R.shim_extra()
        u = H.mod(R.UM)
        self.functions = [H.mod(R.RM).RiemannIGEOS.driver, u.shock_speed, u.star_velocity, u.shock_velocity]
        self.bounds = 'left/right states symbolic; gamma pair fixed (unequal included); wave pattern %s' % only
        self.max_paths = 200
        self.timeout_s = 25
        self.budget_s = 300
        self.skip_validation = True

    def build(self, mk):
        out = R.run_driver(mk, self.gl, self.gr)
        pat = out['pattern']
        if Mode.symbolic(mk) and pat != self.only:
            from symx.engine import PathAbort
            raise PathAbort()
        u, inst = H.mod(R.UM), out['inst']
        d = R.flat(out)
        if pat[0] == 'S':
            d['gen_Vl'] = u.shock_speed(out['px'], out['rx1'], out['pl'], out['rl'], out['ul'], inst)
            # star_velocity is called the way match_shocks calls it (arrays of star states): with scalars its inner
            # shock_speed(..., u=0) takes the `left state' sign branch whenever ul happens to be exactly 0
            d['gen_uxl'] = u.star_velocity(out['pl'], out['rl'], out['ul'], H.arr([out['px']]), H.arr([out['rx1']]), inst)[0]
        if pat[2] == 'S':
            d['gen_Vr'] = u.shock_speed(out['px'], out['rx2'], out['pr'], out['rr'], out['ur'], inst)
            d['gen_uxr'] = u.star_velocity(out['pr'], out['rr'], out['ur'], H.arr([out['px']]), H.arr([out['rx2']]), inst)[0]
        return d

    def domain(self, V):
        return R.domain(V)

    def claims(self, cx):
        pat = cx['_pattern']
        if pat != self.only:
            return
        n = cx['nVregs']
        px = cx['px']
        if pat[0] == 'S':
            w = (px > cx['pl']) if cx.symbolic else bool(px > cx['pl'])
            cx.eq(pat + ': left shock speed of the wave table == general-EOS shock_speed at the star state', cx['Vregs0'], cx['gen_Vl'], when=w)
            cx.eq(pat + ': contact velocity == general-EOS star_velocity across the left shock', cx['ux'], cx['gen_uxl'], when=w)
        if pat[2] == 'S':
            w = (px > cx['pr']) if cx.symbolic else bool(px > cx['pr'])
            cx.eq(pat + ': right shock speed of the wave table == general-EOS shock_speed at the star state', cx['Vregs%d' % (n - 1)],
                  cx['gen_Vr'], when=w)
            cx.eq(pat + ': contact velocity == general-EOS star_velocity across the right shock', cx['ux'], cx['gen_uxr'], when=w)


def riemann_kernel_obligations(tier):
    gams = H.G_QUICK if tier == 'quick' else H.G_FULL
    obs = [RiemannKernels(g) for g in gams]
    for gl, gr in (R.GAMMA_PAIRS_QUICK[1:] if tier == 'quick' else R.GAMMA_PAIRS_FULL):
        for pat in ('SCS', 'SCR', 'RCS'):
            obs.append(DriverVsKernels(gl, gr, pat))
    return obs
