"""C15 -- Blake: fields solve the elastic wave problem; six moduli describe one material."""
from fractions import Fraction
import itertools
import numpy as np

from symx import terms as T
from symx.framework import Obligation, V
from symx.engine import SymReal, SymBool
from symx.shim import Recorder
from . import common as H
from .common import K, Mode

EXPLANATION = ('Blake._run and set_elastic_params are executed on symbolic reals. Wave equation, strain = d(displacement)/dr, '
               'Hooke law and the cavity-wall boundary condition are decided by z3 from exact symbolic derivatives of the '
               'returned terms (exp/sin/cos as atoms closed under differentiation); for each of the 15 parameter pairs every '
               'returning path must reproduce the two inputs and satisfy the isotropic identities and positive-definiteness, '
               'every raising path must raise ValueError.')
BOUNDS = ['one evaluation point', 'all 15 parameter pairs enumerated; both given values symbolic']
OUTSIDE = ['numpy.isclose guards are encoded as the real inequality |a-b| <= atol + rtol |b|']
ASSUMPTIONS = ['exp, sin, cos are atoms with exponent/argument relations proved by z3 and sin^2+cos^2=1']
META = {
    'level_text': ('Bounded symbolic check of the real Blake._run and set_elastic_params: material constants, cavity radius, '
                   'pressure scale, radius and time are symbolic; z3 proves the wave equation, strain/displacement consistency, '
                   'Hooke law identities, the cavity boundary condition and, for all 15 parameter pairs on every path, the '
                   'elastic-moduli identities or a ValueError. Not a proof: floats as reals; transcendental functions as atoms.'),
    'level_note': ('Trusted: z3; symx proxies/shims/differentiation (validated per path against the unshimmed code); the '
                   'statement of the spherical elastic wave equation and isotropic identities in harness/C15.py.'),
}

BM = 'exactpack.solvers.blake.blake'
EM = 'exactpack.solvers.blake.set_check_elastic_params'
NAMES = ('lame_mod', 'shear_mod', 'youngs_mod', 'poisson_ratio', 'bulk_mod', 'long_mod')


class ElasticPair(Obligation):
    def __init__(self, a, b):
        self.a, self.b = a, b
        self.id = 'C15.elastic.%s+%s' % (a, b)
        self.modules = [H.mod(EM)]
        self.functions = [H.mod(EM).set_elastic_params]
        self.extra_shim = {'print': H.quiet_print}
        self.bounds = 'the two given parameters symbolic over all reals (the code itself rejects inadmissible ones)'
        self.max_paths = 200

    def build(self, mk):
        B = H.mod(BM).Blake
        kw = {self.a: mk(self.a), self.b: mk(self.b)}
        r = H.mod(EM).set_elastic_params(B.elas_prm_names, B.elas_prm_dflt_vals, B.elas_prm_order,
                                         False, False, **kw)
        out = dict(r)
        out['_raised'] = 0
        return out

    def on_exception(self, e):
        return {'_raised': 1, '_valueerror': 1 if isinstance(e, ValueError) else 0,
                '_exc': type(e).__name__}

    def domain(self, V):
        return []

    def claims(self, cx):
        if cx['_raised']:
            cx.eq('raises ValueError (not %s)' % cx['_exc'] if not cx['_valueerror'] else 'raises ValueError',
                  cx['_valueerror'], 1)
            return
        lam, G, E, nu, Kb, M = (cx[n] for n in NAMES)
        cx.eq('given %s reproduced' % self.a, cx[self.a], cx.p(self.a))
        cx.eq('given %s reproduced' % self.b, cx[self.b], cx.p(self.b))
        cx.gt('G>0', G, 0)
        cx.gt('3*lambda+2G>0', 3 * lam + 2 * G, 0)
        cx.eq('E=G(3l+2G)/(l+G)', E * (lam + G), G * (3 * lam + 2 * G))
        cx.eq('nu=l/(2(l+G))', nu * 2 * (lam + G), lam)
        cx.eq('K=l+2G/3', 3 * Kb, 3 * lam + 2 * G)
        cx.eq('M=l+2G', M, lam + 2 * G)


class BlakeFields(Obligation):
    uses_derivatives = True

    def __init__(self, at_cavity=False):
        self.at_cavity = at_cavity
        self.id = 'C15.fields' + ('.cavity' if at_cavity else '')
        self.m = H.mod(BM)
        self.modules = [self.m]
        self.functions = [self.m.Blake._run]
        self.extra_shim = {'ExactSolution': Recorder}
        self.bounds = 'lame_mod, shear_mod (the other four moduli derived by the isotropic identities), ref_density, cavity_radius, pressure_scale, r, t symbolic'
        self.timeout_s = 60
        self.timeout_thorough_s = 900
        self.deriv_tol = 1e-3

    def build(self, mk):
        lam, G = mk('lame'), mk('G')
        a = mk('a')
        attrs = dict(geometry=3, cavity_radius=a, ref_density=mk('rho0'), pressure_scale=mk('P0'),
                     lame_mod=lam, shear_mod=G, youngs_mod=G * (3 * lam + 2 * G) / (lam + G),
                     poisson_ratio=lam / (2 * (lam + G)), bulk_mod=lam + 2 * G / 3, long_mod=lam + 2 * G,
                     blake_debug=False)
        s = H.new_solver(self.m.Blake, attrs)
        r = a if self.at_cavity else mk('r')
        sol = s(H.arr([r]), mk('t'))
        out = H.first(H.fields(sol))
        out.update(_lam=lam, _G=G, _a=a, _rho0=mk('rho0'), _P0=mk('P0'), _r=r)
        return out

    def domain(self, V):
        d = [T.gt(V('G'), T.ZERO), T.gt(T.add(T.mul(T.const(3), V('lame')), T.mul(T.const(2), V('G'))), T.ZERO),
             T.gt(V('a'), T.ZERO), T.gt(V('rho0'), T.ZERO), T.gt(V('P0'), T.ZERO), T.gt(V('t'), T.ZERO)]
        if not self.at_cavity:
            d.append(T.ge(V('r'), V('a')))
        return d

    def claims(self, cx):
        lam, G, a, rho0, P0, r = (cx[k] for k in ('_lam', '_G', '_a', '_rho0', '_P0', '_r'))
        u = cx['displacement']
        err, eqq, ev = cx['strain_rr'], cx['strain_qq'], cx['strain_vol']
        srr, sqq, p = cx['stress_rr'], cx['stress_qq'], cx['pressure']
        if self.at_cavity:
            cx.eq('stress_rr(cavity)=-pressure_scale', srr, -P0)
            return
        fu = lambda c: c['displacement']
        cl2 = (lam + 2 * G) / rho0
        u_tt = cx.d(fu, 't', 2)
        u_r = cx.d(fu, 'r')
        u_rr = cx.d(fu, 'r', 2)
        cx.zero('wave equation', [u_tt, -cl2 * u_rr, -cl2 * 2 * u_r / r, cl2 * 2 * u / (r * r)], tol=1e-3)
        cx.eq('strain_rr=d displacement/dr', err, u_r)
        cx.eq('strain_qq=u/r', eqq, u / r)
        cx.eq('strain_vol', ev, err + 2 * eqq)
        cx.eq('density', cx['density'] * (1 + ev), rho0)
        cx.eq('curr_posn', cx['curr_posn'], r + u)
        cx.eq('Hooke rr', srr, (lam + 2 * G) * err + 2 * lam * eqq)
        cx.eq('Hooke qq', sqq, lam * err + 2 * (lam + G) * eqq)
        cx.eq('pressure', 3 * p, -(srr + 2 * sqq))
        cx.eq('deviator rr', cx['stress_dev_rr'], srr + p)
        cx.eq('deviator qq', cx['stress_dev_qq'], sqq + p)
        cx.eq('stress_diff', cx['stress_diff'], cx.abs(srr - sqq))


def obligations(tier):
    obs = [BlakeFields(False), BlakeFields(True)]
    for a, b in itertools.combinations(NAMES, 2):
        obs.append(ElasticPair(a, b))
    return obs
