"""C20 -- invalid problems are rejected loudly; no finite garbage outside validity."""
from fractions import Fraction
import math
import numpy as np

from symx import terms as T
from symx.framework import Obligation, V
from symx.engine import SymReal, SymBool, term_of
from symx.shim import Recorder
from . import common as H
from .common import K, Mode

EXPLANATION = ('Constructors are executed with symbolic parameters: every path either raises or returns. z3 is asked for a '
               'parameter set that violates a documented restriction (catalogue below, from parameter docstrings and the error '
               'messages themselves) yet reaches a non-raising path; raising paths must raise ValueError. Time/space domain '
               'guards are explored the same way. For in-domain inputs of the closed-form solvers the definedness side '
               'conditions of every returned field (denominator != 0, root/log arguments, power bases) are ASSERTED and z3 '
               'searches an admissible input that breaks one.  Blake: the fifteen elastic-parameter pairs (positive-definite material or '
               'ValueError).')
BOUNDS = ['integer-valued parameters (geometry, model names) enumerated over a few valid and invalid values',
          'restrictions whose text is the code\'s own error message are strict (acceptance of a violating value is the violation); '
          'the few entries read from prose only (marked lenient: Cog19 "strictly negative") are reported only if the accepted object '
          'then returns a non-finite value, raises something other than ValueError, or returns negative density/pressure']
OUTSIDE = ['NaN/inf produced inside SciPy numerics or by float overflow', 'solvers whose constructor runs numerical integrations '
           '(radiative shocks, Su-Olson tables)']
ASSUMPTIONS = ['the restriction catalogue in harness/C20.py is a reading of the documentation']
META = {
    'level_text': ('Bounded symbolic check of the real constructors and call guards: all real parameters symbolic, z3 searches '
                   'every path for an accepted parameter set violating a documented restriction, for a non-ValueError '
                   'exception, for a finite answer outside the documented time domain and, for closed-form solvers, for an '
                   'admissible input with an undefined operation. Not a proof: floats as reals; catalogue is a reading of the docs.'),
    'level_note': 'Trusted: z3; symx proxies/shims; the restriction catalogue and the consequence rule stated in BOUNDS.',
}


def _bad_fields(sol):
    """does a returned solution look like garbage: non-finite entries, non-positive density, negative pressure"""
    names = sol.dtype.names
    for n in names:
        a = np.asarray(sol[n])
        if a.dtype.kind in 'fc' and not np.all(np.isfinite(a)):
            return True
    if 'density' in names and np.any(np.asarray(sol['density'], dtype=float) < 0):
        return True
    if 'pressure' in names and np.any(np.asarray(sol['pressure'], dtype=float) < 0):
        return True
    return False


def probe_1d(points, t):
    def f(s):
        try:
            sol = s(np.array(points, dtype=float), t)
        except ValueError:
            return False
        except Exception:
            return True
        return _bad_fields(sol)
    return f


def probe_nd(points, t=0.0):
    def f(s):
        try:
            sol = s(np.array(points, dtype=float), t)
        except ValueError:
            return False
        except Exception:
            return True
        return _bad_fields(sol)
    return f


class Ctor(Obligation):
    """constructor validation: raising paths raise ValueError; returning paths satisfy every documented restriction"""

    def __init__(self, key, modname, clsname, sym_params, fixed, restrictions, probe, make=None, extra_shim=None, lenient=()):
        self.key = key
        self.lenient = lenient      # labels judged from prose only: reported only with a bad consequence (see BOUNDS)
        self.m = H.mod(modname)
        self.cls = getattr(self.m, clsname)
        self.sym_params = sym_params
        self.fixed = fixed
        self.restrictions = restrictions        # [(label, fn(P) -> SymBool/bool)]
        self.probe = probe
        self.make = make
        self.id = 'C20.ctor.%s' % key
        self.modules = [self.m]
        self.extra_shim = dict({'print': H.quiet_print}, **(extra_shim or {}))
        self.functions = [self.cls.__init__]
        self.bounds = 'real constructor parameters symbolic over all reals; discrete ones fixed: %s' % (fixed,)
        self.max_paths = 300
        self.skip_validation = True
        self.replay_any_violation = True
        self.trig_sign_axioms = True

    def build(self, mk):
        P = {n: mk(n) for n in self.sym_params}
        kw = dict(self.fixed)
        if self.make is not None:
            kw.update(self.make(P))
        else:
            kw.update(P)
        s = self.cls(**kw)
        out = {'_raised': 0}
        out.update({'P_' + k: v for k, v in P.items()})
        if not Mode.symbolic(mk):
            out['_bad'] = 1 if self.probe(s) else 0
        return out

    def on_exception(self, e):
        return {'_raised': 1, '_valueerror': 1 if isinstance(e, ValueError) else 0, '_exc': type(e).__name__}

    def claims(self, cx):
        if cx['_raised']:
            cx.eq('construction raises ValueError' if cx['_valueerror'] else 'construction raises %s instead of ValueError' % cx['_exc'],
                  cx['_valueerror'], 1)
            return
        P = {n: cx['P_' + n] for n in self.sym_params}
        rs = [(label, fn(P)) for label, fn in self.restrictions]
        sane = _sanity(P, cx.symbolic)
        for i, (label, r) in enumerate(rs):
            # vary one restriction at a time: all the others, and generic sanity of the remaining parameters
            # (positive densities, gamma > 1, ...), hold -- so that a bad consequence is due to this parameter
            others = [x for j, (_, x) in enumerate(rs) if j != i] + [x for n_, x in sane if n_ not in label.split()[0:1]]
            if cx.symbolic:
                w = None
                for o in others:
                    w = o if w is None else (w & o)
                cx.true('accepted although: ' + label, r, when=w)
            else:
                cx.true('accepted although: ' + label, bool(r) or (label in self.lenient and not cx['_bad']), when=all(bool(o) for o in others))


POSITIVE = ('rho0', 'rho_0', 'Gamma', 'lambda0', 'tau', 'eblast', 'temp0', 'e0', 'D', 'D1', 'D2', 'R', 'c0', 's0', 'G', 'Y',
            'D_CJ_1', 'D_CJ_2', 'r_1', 'r_2', 'xtilde', 'xmax', 'tmax')


def _sanity(P, symbolic):
    out = []
    for n, v in P.items():
        if n == 'gamma':
            out.append((n, v > 1))
        elif n in POSITIVE:
            out.append((n, v > 0))
    return out


# ------------------------------------------------------------------ catalogue

def catalogue():
    obs = []
    P1 = [0.2, 0.7, 1.3]
    # Noh: "incident velocity (negative)"
    for g in (1, 2, 3):
        obs.append(Ctor('noh.g%d' % g, 'exactpack.solvers.noh.noh1', 'Noh', ['gamma', 'u0', 'rho0'], {'geometry': g},
                        [('u0 must be negative', lambda P: P['u0'] < 0)], probe_1d(P1, 0.6)))
    for g in (0, 4):
        obs.append(Ctor('noh.badgeom%d' % g, 'exactpack.solvers.noh.noh1', 'Noh', ['u0'], {'geometry': g},
                        [('geometry must be 1, 2 or 3', lambda P: False)], probe_1d(P1, 0.6)))
    # Sedov: messages "gamma must be greater than 1", "density must be greater than 0", "eblast must be greater than 0",
    # "omega must be between 0 and geometry"
    from . import sedov_common as S
    for g in (1, 2, 3):
        obs.append(Ctor('sedov.g%d' % g, S.SM, 'Sedov', ['gamma', 'rho0', 'eblast', 'omega'], {'geometry': g},
                        [('gamma must be greater than 1', lambda P: P['gamma'] > 1),
                         ('density must be greater than 0', lambda P: P['rho0'] > 0),
                         ('eblast must be greater than 0', lambda P: P['eblast'] > 0),
                         ('omega must be >= 0', lambda P: P['omega'] >= 0),
                         ('omega must be < geometry', lambda P, g=g: P['omega'] < g)],
                        probe_1d(P1, 0.5), extra_shim=S.shim_extra(cut_at_jump=False)))
    # Coggeshall
    obs.append(Ctor('cog13', 'exactpack.solvers.cog.cog13', 'Cog13', ['gamma', 'rho0', 'alpha', 'beta', 'lambda0', 'Gamma'], {'geometry': 3},
                    [('gamma cannot be one', lambda P: (P['gamma'] < 1) | (P['gamma'] > 1) if isinstance(P['gamma'], SymReal) else P['gamma'] != 1)],
                    probe_1d(P1, 0.5)))
    for g in (2, 3):
        obs.append(Ctor('cog16.g%d' % g, 'exactpack.solvers.cog.cog16', 'Cog16', ['gamma', 'u0', 'b', 'lambda0', 'Gamma'], {'geometry': g},
                        [('b cannot equal geometry-1', lambda P, g=g: (P['b'] < g - 1) | (P['b'] > g - 1) if isinstance(P['b'], SymReal) else P['b'] != g - 1)],
                        probe_1d(P1, 0.5)))
    obs.append(Ctor('cog16.badgeom1', 'exactpack.solvers.cog.cog16', 'Cog16', ['b'], {'geometry': 1},
                    [('geometry must be 2 or 3', lambda P: False)], probe_1d(P1, 0.5)))
    obs.append(Ctor('cog18', 'exactpack.solvers.cog.cog18', 'Cog18', ['alpha', 'beta', 'rho0', 'tau', 'Gamma'], {'geometry': 3},
                    [('alpha cannot equal 0', lambda P: (P['alpha'] < 0) | (P['alpha'] > 0) if isinstance(P['alpha'], SymReal) else P['alpha'] != 0)],
                    probe_1d(P1, 0.5)))
    obs.append(Ctor('cog19', 'exactpack.solvers.cog.cog19', 'Cog19', ['gamma', 'rho0', 'u0', 'Gamma'], {'geometry': 3},
                    [('u0 must be strictly negative', lambda P: P['u0'] < 0)], probe_1d(P1, 0.5), lenient=('u0 must be strictly negative',)))
    obs.append(Ctor('cog20', 'exactpack.solvers.cog.cog20', 'Cog20', ['gamma', 'rho0', 'u0', 'a', 'Gamma'], {'geometry': 3},
                    [('parameter a cannot be zero', lambda P: (P['a'] < 0) | (P['a'] > 0) if isinstance(P['a'], SymReal) else P['a'] != 0)],
                    probe_1d(P1, 0.5)))
    # escape of HE products
    from . import ehep_common as E
    obs.append(Ctor('ehep', E.EM, 'EscapeOfHEProducts', list(E.PARAMS), {},
                    [('D must be > 0', lambda P: P['D'] > 0), ('rho_0 must be > 0', lambda P: P['rho_0'] > 0),
                     ('up must be >= 0', lambda P: P['up'] >= 0),
                     ('up must be less than the C-J particle velocity D/(gamma+1)', lambda P: P['up'] * 4 < P['D']),
                     ('xtilde must be > 0', lambda P: P['xtilde'] > 0), ('xtilde must be <= xmax', lambda P: P['xtilde'] <= P['xmax']),
                     ('tmax must be > 0', lambda P: P['tmax'] > 0)],
                    probe_1d([0.1, 0.5, 0.9], 1.0), extra_shim=E.shim_extra()))
    # steady-detonation reaction zone
    obs.append(Ctor('sdrz', 'exactpack.solvers.sdrz.sdrz', 'SteadyDetonationReactionZone', ['D', 'rho_0', 'gamma'], {'geometry': 1},
                    [('D must be > 0', lambda P: P['D'] > 0), ('rho_0 must be > 0', lambda P: P['rho_0'] > 0),
                     ('gamma must be > 0', lambda P: P['gamma'] > 0)], probe_1d([0.1, 0.3], 0.5)))
    # programmed burn
    obs.append(Ctor('kenamond1', 'exactpack.solvers.kenamond.kenamond1', 'Kenamond1', ['D', 'dx', 'dy', 't_d'], {'geometry': 2},
                    [('detonation velocity must be > 0', lambda P: P['D'] > 0)], probe_nd([[1.0, 2.0]]),
                    make=lambda P: dict(D=P['D'], x_d=(P['dx'], P['dy']), t_d=P['t_d'])))
    k2names = ['R', 'D1', 'D2', 'a1', 'a2', 'a4', 'a5', 't1', 't2', 't3', 't4', 't5']

    def k2make(P):
        return dict(R=P['R'], D1=P['D1'], D2=P['D2'], dets=[P['a1'], P['a2'], P['a4'], P['a5']],
                    t_d=[P['t1'], P['t2'], P['t3'], P['t4'], P['t5']])

    def k2time(i, a):
        # documented ordering: t_di >= t_d3 + R (1/D1 + 1/D2) - |a_di| / D2
        def f(P):
            ab = abs(P[a])
            return P['t%d' % i] >= P['t3'] + P['R'] * (1 / P['D1'] + 1 / P['D2']) - ab / P['D2']
        return f
    k2r = [('R must be > 0', lambda P: P['R'] > 0), ('D1 must be > 0', lambda P: P['D1'] > 0), ('D2 must be > 0', lambda P: P['D2'] > 0),
           ('D1 must be >= D2', lambda P: P['D1'] >= P['D2'])]
    for i, a in ((1, 'a1'), (2, 'a2'), (4, 'a4'), (5, 'a5')):
        k2r.append(('detonator %d must be in the outer HE region' % i, lambda P, a=a: abs(P[a]) > P['R']))
        k2r.append(('detonation time %d must respect the documented lower bound' % i, k2time(i, a)))
    for g in (2, 3):
        obs.append(Ctor('kenamond2.g%d' % g, 'exactpack.solvers.kenamond.kenamond2', 'Kenamond2', k2names, {'geometry': g}, k2r,
                        probe_nd([[1.0, 2.0] if g == 2 else [1.0, 0.5, 2.0]]), make=k2make))
    obs.append(Ctor('kenamond3', 'exactpack.solvers.kenamond.kenamond3', 'Kenamond3', ['R', 'D', 'dx', 'dy', 't_d'], {'geometry': 2},
                    [('R must be > 0', lambda P: P['R'] > 0), ('D must be > 0', lambda P: P['D'] > 0),
                     ('detonator must be outside of the inert region', lambda P: P['dx'] * P['dx'] + P['dy'] * P['dy'] > P['R'] * P['R'])],
                    probe_nd([[4.0, 1.0]]), make=lambda P: dict(R=P['R'], D=P['D'], x_d=(P['dx'], P['dy']), t_d=P['t_d'])))
    # DSD cylindrical expansion: class docstring "r_1 > alpha_1/D_CJ_1 and r_2 > alpha_2/D_CJ_2", positivity
    dn = ['r_1', 'r_2', 'D_CJ_1', 'D_CJ_2', 'alpha_1', 'alpha_2', 't_d']
    obs.append(Ctor('dsd.cylexpansion', 'exactpack.solvers.dsd.cylexpansion', 'CylindricalExpansion', dn, {'geometry': 2},
                    [('r_1 must be > 0', lambda P: P['r_1'] > 0), ('r_2 must be > r_1', lambda P: P['r_2'] > P['r_1']),
                     ('D_CJ_1 must be > 0', lambda P: P['D_CJ_1'] > 0), ('D_CJ_2 must be > 0', lambda P: P['D_CJ_2'] > 0),
                     ('alpha_1 must be >= 0', lambda P: P['alpha_1'] >= 0), ('alpha_2 must be >= 0', lambda P: P['alpha_2'] >= 0),
                     ('r_1 must be > alpha_1/D_CJ_1 (documented, avoids the singularity)', lambda P: P['r_1'] * P['D_CJ_1'] > P['alpha_1']),
                     ('r_2 must be > alpha_2/D_CJ_2 (documented, avoids the singularity)', lambda P: P['r_2'] * P['D_CJ_2'] > P['alpha_2'])],
                    lambda s: probe_nd([[1.05 * s.r_1, 0.0], [0.5 * (s.r_1 + s.r_2), 0.0], [1.5 * s.r_2, 0.0]])(s)))
    # elastic-plastic piston
    import scipy.optimize as so
    from symx import stubs
    for model in ('hypo', 'hyperIfin', 'hyperFin'):
        obs.append(Ctor('eppiston.%s' % model, 'exactpack.solvers.ep_piston.ep_piston', 'EPpiston', ['gamma', 'c0', 's0', 'G', 'Y', 'rho0', 'up'],
                        {'model': model},
                        [('G must be > 0', lambda P: P['G'] > 0), ('Y must be > 0', lambda P: P['Y'] > 0),
                         ('rho0 must be > 0', lambda P: P['rho0'] > 0), ('up must be >= 0', lambda P: P['up'] >= 0)],
                        probe_1d([0.1, 0.5], 0.1), extra_shim={'sci_opt': H.ModProxy(so, fsolve=stubs.fsolve_stub)}))
    obs.append(Ctor('eppiston.badmodel', 'exactpack.solvers.ep_piston.ep_piston', 'EPpiston', ['up'], {'model': 'hyper'},
                    [("model must be 'hypo', 'hyperIfin' or 'hyperFin'", lambda P: False)], probe_1d([0.1], 0.1)))
    # DSD rate stick: constructor checks only (the solve is a numerical PDE integration)
    rn = ['R', 'omega_c', 'D_CJ', 'alpha', 'r_d', 't_f']

    def edge(P):
        c = P['omega_c'].cos() if isinstance(P['omega_c'], SymReal) else math.cos(P['omega_c'])
        return P['r_d'] * c >= P['R']
    for ic in (1, 2, 3):
        rr = [('R must be > 0', lambda P: P['R'] > 0), ('omega_c must be > 0', lambda P: P['omega_c'] > 0),
              ('D_CJ must be > 0', lambda P: P['D_CJ'] > 0), ('alpha must be >= 0', lambda P: P['alpha'] >= 0),
              ('t_f must be positive', lambda P: P['t_f'] > 0)]
        if ic == 1:
            rr.append(('r_d must satisfy the edge angle condition r_d >= R/cos(omega_c)', edge))
        obs.append(Ctor('dsd.ratestick.IC%d' % ic, 'exactpack.solvers.dsd.ratestick', 'RateStick', rn,
                        {'geometry': 1, 'IC': ic, 'xnodes': 3, 'ynodes': 2}, rr, lambda s: False))
    # Blake non-elastic parameters (default material)
    obs.append(Ctor('blake', 'exactpack.solvers.blake.blake', 'Blake', ['ref_density', 'cavity_radius', 'pressure_scale'], {},
                    [('ref_density must be positive', lambda P: P['ref_density'] > 0),
                     ('cavity_radius must be positive', lambda P: P['cavity_radius'] > 0),
                     ('pressure_scale must be positive', lambda P: P['pressure_scale'] > 0)],
                    lambda s: False, extra_shim={'warnings': _NoWarn()}))
    # Blake's elastic parameters ("exactly two of the six moduli", positive-definite material): the constructor obligations of
    # C15 -- raising paths raise ValueError, returning paths carry a positive-definite material reproducing the two inputs
    from . import C15
    for o in C15.obligations('quick'):
        if '.elastic.' in o.id:
            o.id = o.id.replace('C15.elastic.', 'C20.ctor.blake.elastic.')
            obs.append(o)
    return obs


class _NoWarn(object):
    def warn(self, *a, **k):
        return None

    def __getattr__(self, n):
        import warnings
        return getattr(warnings, n)


# ------------------------------------------------------------------ call-time guards

class CallGuard(Obligation):
    """requests outside the space/time domain raise ValueError"""

    def __init__(self, key):
        self.key = key
        self.id = 'C20.domain.%s' % key
        self.skip_validation = True
        self.replay_any_violation = True
        self.max_paths = 100
        if key == 'eppiston.t>tmax':
            import scipy.optimize as so
            from symx import stubs
            self.m = H.mod('exactpack.solvers.ep_piston.ep_piston')
            self.extra_shim = {'sci_opt': H.ModProxy(so, fsolve=stubs.fsolve_stub), 'ExactSolution': Recorder, 'max': stubs.sym_max}
            self.functions = [self.m.EPpiston._run]
            self.bounds = 'material parameters (defaults model), x, xmax, t symbolic'
        elif key == 'kenamond3.inside':
            self.m = H.mod('exactpack.solvers.kenamond.kenamond3')
            self.extra_shim = {'ExactSolution': Recorder}
            self.functions = [self.m.Kenamond3._run]
            self.bounds = 'R, D, detonator, point symbolic'
        self.modules = [self.m]

    def build(self, mk):
        out = {'_raised': 0}
        if self.key == 'eppiston.t>tmax':
            s = self.m.EPpiston(**{n: mk(n) for n in ('gamma', 'c0', 's0', 'G', 'Y', 'rho0', 'up')})
            out['wv_el'] = s.wv_el
            s._run(H.arr([mk('x')]), mk('t'), xmax=mk('xmax'))
        else:
            s = self.m.Kenamond3(geometry=2, R=mk('R'), D=mk('D'), x_d=(mk('dx'), mk('dy')), t_d=mk('t_d'))
            s(H.mat([[mk('x'), mk('y')]]), 0.0)
        return out

    def on_exception(self, e):
        return {'_raised': 1, '_valueerror': 1 if isinstance(e, ValueError) else 0, '_exc': type(e).__name__}

    def domain(self, V):
        if self.key == 'eppiston.t>tmax':
            return [T.gt(V(n), T.ZERO) for n in ('gamma', 'c0', 's0', 'G', 'Y', 'rho0', 'up', 'x', 'xmax', 't')] + [T.lt(V('Y'), V('G'))]
        return [T.lt(T.add(T.mul(V('x'), V('x')), T.mul(V('y'), V('y'))), T.mul(V('R'), V('R')))]

    def claims(self, cx):
        if cx['_raised']:
            cx.eq('raises ValueError' if cx['_valueerror'] else 'raises %s instead of ValueError' % cx['_exc'], cx['_valueerror'], 1)
            return
        if self.key == 'eppiston.t>tmax':
            # documented: valid only while the elastic wave is inside the domain, t <= xmax / wv_el
            cx.le('accepted although the elastic wave left the domain (t > xmax/wv_el)', cx.p('t') * cx['wv_el'], cx.p('xmax'))
        else:
            cx.true('point inside the inert obstacle accepted', SymBool(T.FALSE) if cx.symbolic else False)


class RiemannVacuum(Obligation):
    """the vacuum-generating pattern (ur > u_RCVR) must be rejected loudly (ValueError), not fall through"""

    def __init__(self, g):
        from . import riemann_common as R
        self.R = R
        self.g = g
        self.id = 'C20.riemann.vacuum.gamma=%s' % g
        self.modules = R.modules()
        self.extra_shim = R.shim_extra()
        self.functions = [H.mod(R.RM).RiemannIGEOS.driver]
        self.bounds = 'left/right states symbolic, gamma fixed; every classification path'
        self.skip_validation = True
        self.replay_any_violation = True
        self.max_paths = 200

    def build(self, mk):
        out = self.R.run_driver(mk, self.g, self.g)
        return {'_raised': 0, '_pattern': out['pattern']}

    def on_exception(self, e):
        return {'_raised': 1, '_valueerror': 1 if isinstance(e, ValueError) else 0, '_exc': type(e).__name__}

    def domain(self, V):
        return self.R.domain(V)

    def claims(self, cx):
        if cx['_raised']:
            cx.eq('raises ValueError' if cx['_valueerror'] else 'unsupported data raise %s instead of ValueError' % cx['_exc'], cx['_valueerror'], 1)


# ------------------------------------------------------------------ time-domain guards

class TimeDomain(Obligation):
    """outside the documented time domain a solver raises or returns NaN (never finite numbers)"""

    def __init__(self, key, modname, clsname, attrs, outside, label, modules=()):
        self.key = key
        self.m = H.mod(modname)
        self.cls = getattr(self.m, clsname)
        self.attrs = attrs                  # symbolic parameter names
        self.outside = outside              # fn(V) -> Term: the time is outside the documented domain
        self.label = label
        self.id = 'C20.domain.%s' % key
        self.modules = [self.m] + [H.mod(x) for x in modules]
        self.extra_shim = {'ExactSolution': Recorder, 'print': H.quiet_print}
        self.functions = [self.cls._run]
        self.bounds = 'parameters, one position and the time symbolic; time constrained to lie outside the documented domain'
        self.skip_validation = True
        self.replay_any_violation = True

    def build(self, mk):
        kw = {n: mk(n) for n in self.attrs if n != 'geometry'}
        kw['geometry'] = 3
        s = self.cls(**kw) if self.key.startswith('noh2') else H.new_solver(self.cls, kw)
        f = H.first(H.run_1d(s, mk))
        out = {'_raised': 0}
        for k, v in f.items():
            if k != 'position':
                out[k] = v
        return out

    def on_exception(self, e):
        return {'_raised': 1, '_valueerror': 1 if isinstance(e, ValueError) else 0, '_exc': type(e).__name__}

    def domain(self, V):
        return [self.outside(V), T.gt(V('r'), T.ZERO)]

    def claims(self, cx):
        if cx['_raised']:
            cx.eq('raises ValueError' if cx['_valueerror'] else 'raises %s instead of ValueError' % cx['_exc'], cx['_valueerror'], 1)
            return
        keys = [k for k in (cx.out if cx.symbolic else cx._run()) if not k.startswith('_')]
        for k in keys:
            v = cx[k]
            isnan = isinstance(v, (float, np.floating)) and math.isnan(float(v))
            cx.true('%s: %s is not NaN' % (self.label, k), True if isnan else (SymBool(T.FALSE) if cx.symbolic else False))


# ------------------------------------------------------------------ valid inputs never produce NaN/inf (closed forms)

class Finite(Obligation):
    def __init__(self, key, modname, clsname, attrs, dom, fixed=None, ctor=True, fieldnames=None):
        self.key = key
        self.m = H.mod(modname)
        self.cls = getattr(self.m, clsname)
        self.attrs, self.dom, self.fixed, self.ctor = attrs, dom, fixed or {}, ctor
        self.id = 'C20.finite.%s' % key
        self.modules = [self.m]
        self.extra_shim = {'ExactSolution': Recorder, 'print': H.quiet_print}
        self.functions = [self.cls._run]
        self.bounds = 'admissible parameters (constructor-accepted), r > 0 and in-domain time symbolic; one point'
        self.skip_validation = True
        self.max_paths = 100

    def build(self, mk):
        kw = {n: mk(n) for n in self.attrs}
        kw.update(self.fixed)
        s = self.cls(**kw)
        f = H.first(H.run_1d(s, mk))
        return {k: v for k, v in f.items() if k != 'position'}

    def replay_exception(self, e, env, label):
        bad = not isinstance(e, ValueError)
        return {'reproduced': bad, 'detail': 'call raised %s: %s' % (type(e).__name__, str(e)[:100])}

    def domain(self, V):
        return self.dom(V)

    def claims(self, cx):
        keys = [k for k in (cx.out if cx.symbolic else cx._run())]
        for k in keys:
            cx.defined('%s is a finite real number' % k, cx[k])


def obligations(tier):
    obs = catalogue()
    gt0 = lambda *ns: (lambda V: [T.gt(V(n), T.ZERO) for n in ns])
    # Coggeshall: "No valid solution at t=0" -> NaN for t <= 0 (the solvers that carry the guard)
    for name in ('Cog1', 'Cog2', 'Cog8', 'Cog9', 'Cog11', 'Cog13', 'Cog17', 'Cog19' if False else 'Cog7', 'Cog21'):
        spec = H.COG[name]
        ps = list(spec['params'])
        o = TimeDomain(name.lower() + '.t<=0', 'exactpack.solvers.cog.' + name.lower(), name, ps + ['geometry'],
                       lambda V: T.le(V('t'), T.ZERO), 't <= 0 must give NaN')
        obs.append(o)
    # Noh2: "The time t must be less than 1"
    obs.append(TimeDomain('noh2.t>=1', 'exactpack.solvers.noh2.noh2', 'Noh2', ['gamma', 'rho0', 'e0', 'geometry'],
                          lambda V: T.ge(V('t'), T.ONE), 't >= 1 must raise'))
    obs.append(TimeDomain('noh2cog.t>=1', 'exactpack.solvers.noh2.noh2_cog', 'Noh2Cog', ['gamma', 'rho0', 'e0', 'geometry'],
                          lambda V: T.ge(V('t'), T.ONE), 't >= 1 must raise', modules=['exactpack.solvers.cog.cog1']))
    obs.append(CallGuard('eppiston.t>tmax'))
    obs.append(CallGuard('kenamond3.inside'))
    obs.append(RiemannVacuum(Fraction(7, 5)))
    # in-domain finiteness for closed forms
    for g in (1, 2, 3):
        obs.append(Finite('noh.g%d' % g, 'exactpack.solvers.noh.noh1', 'Noh', ['gamma', 'u0', 'rho0'],
                          lambda V: [T.gt(V('gamma'), T.ONE), T.gt(V('rho0'), T.ZERO), T.gt(V('r'), T.ZERO), T.gt(V('t'), T.ZERO)],
                          fixed={'geometry': g}))
        obs.append(Finite('noh2.g%d' % g, 'exactpack.solvers.noh2.noh2', 'Noh2', ['gamma', 'rho0', 'e0'],
                          lambda V: [T.gt(V('gamma'), T.ONE), T.gt(V('rho0'), T.ZERO), T.gt(V('e0'), T.ZERO), T.gt(V('r'), T.ZERO),
                                     T.ge(V('t'), T.ZERO), T.lt(V('t'), T.ONE)], fixed={'geometry': g}))
    return obs
