"""C04 -- 1-D Riemann solutions conserve mass, momentum and energy in integral form.

Decided through the local form (DESIGN.md 5, C04): for a piecewise-smooth self-similar solution the integral
balance over a window containing all waves holds iff (a) Rankine-Hugoniot holds at each shock with the coded
speed, (b) pressure and velocity are continuous at the contact, which moves with u*, (c) each fan satisfies
the Euler equations pointwise and joins its neighbours continuously at head and tail, (d) the regions are
assembled in the order of the wave speeds with the data as outer states.
"""
from fractions import Fraction
import numpy as np

from symx import terms as T
from symx.framework import Obligation, V
from symx.engine import SymReal, SymBool, term_of
from . import common as H
from . import riemann_common as R
from .common import K, Mode
from .pde import euler_claims
from . import C02

EXPLANATION = ('The real driver (to the wave-speed table), wave-curve functions and fan formulas of the ideal-gas solver are '
               'executed symbolically (bisect replaced by its contract); z3 decides (a) RH at every shock, (b) contact '
               'consistency, (c) Euler equations inside each fan from exact symbolic derivatives and continuity with the '
               'neighbouring constant states at head and tail, (d) strict ordering of the wave speeds, on every wave pattern.')
BOUNDS = ['gamma pairs from a finite rational set (incl. unequal); all other state variables, membrane position, time symbolic']
OUTSIDE = ['the step from (a)-(d) to the integral balance (transport theorem) is a stated mathematical argument, not a solver query',
           "general-EOS solver: kernels in C07; region assembly, star state on the tabulated wave curves, contact and fan-node placement decided here on small tables: general-EOS Riemann driver (RiemannGenEOS.driver): run as coded with scipy.integrate.ode replaced by its contract (ideal-gas flag: the closed-form integral curve, proved to satisfy the real right-hand side drdp_dudp by the `geos.ode_contract' obligations), bisect by f(x*)=0, tables of 2 (rarefaction) / 4 (shock) nodes, empty internal grid; wave ordering and monotone fan knots (np.interp's precondition) are assumed; one obligation per wave pattern and per pair of table intervals containing p*; p* within one table step of an initial pressure (star-state lookup clamps to the last node) and the JWL flag are outside",
           'interpolation from the internal grid to user points']
ASSUMPTIONS = ['bisect stub: returns an arbitrary root of the real star-pressure function inside [0, pmax]']
META = {
    'level_text': ('Bounded symbolic check of the local conditions equivalent to integral conservation, on the real ideal-gas '
                   'Riemann code: RH at shocks, contact consistency, fan PDEs and fan/constant-state continuity, wave ordering; '
                   'all four wave patterns; gamma sliced. Not a proof: floats as reals, root existence assumed, integral form '
                   'obtained by the transport-theorem argument.'),
    'level_note': ('Trusted: z3; symx proxies/shims/stubs (validated against the unshimmed driver per path); the RH and Euler '
                   'oracles; the reduction of the integral balance to its local form.'),
}


class Fan(Obligation):
    """Euler equations inside a fan and continuity with the outer state at the head"""
    uses_derivatives = True

    def __init__(self, side, g):
        self.side, self.g = side, g
        self.id = 'C04.fan.%s.gamma=%s' % (side, g)
        self.modules = R.modules()
        self.extra_shim = R.shim_extra(cut=False)
        m = H.mod(R.UM)
        self.functions = [m.rho_p_u_rarefaction, m.sie, m.sound_speed]
        self.bounds = 'outer state, x, xd0, t symbolic; gamma fixed (fan exponents become integer powers of one root)'
        self.timeout_s = 40

    def build(self, mk):
        m = H.mod(R.RM)
        u = H.mod(R.UM)
        g = K(mk, self.g)
        other = dict(rl=mk('r0') * 2, ul=mk('u0') + 1, pl=mk('p0') * 3) if self.side == 'R' else \
            dict(rr=mk('r0') * 2, ur=mk('u0') + 1, pr=mk('p0') * 3)
        mine = dict(rl=mk('r0'), ul=mk('u0'), pl=mk('p0')) if self.side == 'L' else dict(rr=mk('r0'), ur=mk('u0'), pr=mk('p0'))
        kw = dict(other)
        kw.update(mine)
        kw.update(gl=g, gr=g, xd0=mk('xd0'), t=mk('t'), num_x_pts=2)
        inst = m.RiemannIGEOS(**kw)
        x, t, xd0 = mk('x'), mk('t'), mk('xd0')
        rho, p, v = u.rho_p_u_rarefaction(mk('p0'), mk('r0'), mk('u0'), g, x, xd0, t, inst)
        e = u.sie(p, rho, g, inst)
        a0 = u.sound_speed(mk('p0'), mk('r0'), g, inst)
        sgn = -1 if self.side == 'L' else 1
        # the same formulas evaluated on the head characteristic x = xd0 + t (u0 + sgn a0)
        xh = xd0 + t * (mk('u0') + sgn * a0)
        rho_h, p_h, v_h = u.rho_p_u_rarefaction(mk('p0'), mk('r0'), mk('u0'), g, xh, xd0, t, inst)
        return {'density': rho, 'pressure': p, 'velocity': v, 'specific_internal_energy': e,
                'head_density': rho_h, 'head_pressure': p_h, 'head_velocity': v_h,
                '_r0': mk('r0'), '_p0': mk('p0'), '_u0': mk('u0'), '_g': g}

    def domain(self, V):
        return [T.gt(V('r0'), T.ZERO), T.gt(V('p0'), T.ZERO), T.gt(V('t'), T.ZERO)]

    def claims(self, cx):
        euler_claims(cx, 0, rvar='x', tvar='t', tag='fan ')
        cx.eq('fan head density = outer density', cx['head_density'], cx['_r0'])
        cx.eq('fan head pressure = outer pressure', cx['head_pressure'], cx['_p0'])
        cx.eq('fan head velocity = outer velocity', cx['head_velocity'], cx['_u0'])
        g = cx['_g']
        # isentropic: p / rho^g constant (g rational: compare p^q r0^(gq) with p0^q rho^(gq) in integer powers)
        fr = Fraction(self.g)
        n, q = fr.numerator, fr.denominator
        cx.eq('fan isentrope p/rho^gamma', cx['pressure'] ** q * cx['_r0'] ** n, cx['_p0'] ** q * cx['density'] ** n)


class WaveTable(Obligation):
    """ordering of the wave speeds; fan tail joins the star state; outer states are the data"""

    def __init__(self, gl, gr, heavy=False):
        self.gl, self.gr = gl, gr
        self.heavy = heavy
        self.id = 'C04.waves.gl=%s.gr=%s' % (gl, gr)
        self.modules = R.modules()
        self.extra_shim = R.shim_extra()
        m = H.mod(R.UM)
        self.functions = [H.mod(R.RM).RiemannIGEOS.driver, m.rho_p_u_rarefaction]
        self.bounds = 'left/right density, velocity, pressure symbolic; gamma pair fixed; all four wave patterns = paths'
        self.max_paths = 200
        self.timeout_s = 20
        self.timeout_thorough_s = 600

    def build(self, mk):
        out = R.run_driver(mk, self.gl, self.gr)
        inst = out['inst']
        u = H.mod(R.UM)
        d = R.flat(out)
        pat = out['pattern']
        if self.heavy:
            from .C09 import FORM
            call = getattr(u, pat + '_call')
            d['F_pl'] = FORM[pat] * call(out['pl'], inst)
            d['F_pr'] = FORM[pat] * call(out['pr'], inst)
        # fan formulas evaluated on the tail characteristic
        xd0, t = out['xd0'], out['t']
        if pat[0] == 'R':
            xt = xd0 + t * (out['ux'] - out['ax1'])
            d['Ltail_density'], d['Ltail_pressure'], d['Ltail_velocity'] = \
                u.rho_p_u_rarefaction(out['pl'], out['rl'], out['ul'], out['gl'], xt, xd0, t, inst)
        if pat[2] == 'R':
            xt = xd0 + t * (out['ux'] + out['ax2'])
            d['Rtail_density'], d['Rtail_pressure'], d['Rtail_velocity'] = \
                u.rho_p_u_rarefaction(out['pr'], out['rr'], out['ur'], out['gr'], xt, xd0, t, inst)
        return d

    def domain(self, V):
        return R.domain(V)

    def claims(self, cx):
        pat = cx['_pattern']
        n = cx['nVregs']
        Vr = [cx['Vregs%d' % i] for i in range(n)]
        Xr = [cx['Xregs%d' % i] for i in range(n)]
        for i in range(n):
            cx.eq('%s X[%d] = xd0 + t V[%d]' % (pat, i, i), Xr[i], cx['xd0'] + cx['t'] * Vr[i])
        if not self.heavy:
            return
        # strictly monotone wave curves (C17.riemann.mono) + F(px) = 0 give the order of the star pressure and the data
        # pressures as instances; they are what makes the ordering of the wave speeds provable
        mono = None
        if cx.symbolic and 'F_pl' in cx:
            px = cx['px']
            for Fv, p0 in ((cx['F_pl'], cx['pl']), (cx['F_pr'], cx['pr'])):
                inst = ((Fv < 0) & (p0 < px)) | ((Fv > 0) & (p0 > px)) | ((Fv == 0) & (p0 == px))
                mono = inst if mono is None else (mono & inst)
            mono = mono & (px > 0)
        for i in range(n - 1):
            cx.le('%s wave speeds ordered: V[%d] <= V[%d]' % (pat, i, i + 1), Vr[i], Vr[i + 1], when=mono)
        if pat[0] == 'R':
            cx.eq(pat + ' left fan tail density = star density', cx['Ltail_density'], cx['rx1'])
            cx.eq(pat + ' left fan tail pressure = star pressure', cx['Ltail_pressure'], cx['px'])
            cx.eq(pat + ' left fan tail velocity = u*', cx['Ltail_velocity'], cx['ux'])
        if pat[2] == 'R':
            cx.eq(pat + ' right fan tail density = star density', cx['Rtail_density'], cx['rx2'])
            cx.eq(pat + ' right fan tail pressure = star pressure', cx['Rtail_pressure'], cx['px'])
            cx.eq(pat + ' right fan tail velocity = u*', cx['Rtail_velocity'], cx['ux'])


def obligations(tier):
    obs = []
    pairs = R.GAMMA_PAIRS_QUICK if tier == 'quick' else R.GAMMA_PAIRS_FULL
    for gl, gr in pairs:
        o = C02.RiemannRH(gl, gr)
        o.id = o.id.replace('C02.', 'C04.rh.')
        obs.append(o)
        obs.append(WaveTable(gl, gr, heavy=(tier == 'thorough')))
    gams = H.G_QUICK if tier == 'quick' else H.G_FULL
    for g in gams:
        obs.append(Fan('L', g))
        obs.append(Fan('R', g))
    from . import geos
    obs += geos.obligations('C04', tier)
    return obs
