"""C18 -- Su-Olson temperatures solve the non-equilibrium Marshak diffusion problem.

Proof architecture (what the obligations add up to).  timmes.py returns

    u(x,tau) = u_const + sum_pieces cu1 * INT upart1 d eta + sum_pieces cu2 * INT upart2 d eta
    v(x,tau) = c_uans * u + v_const + sum_pieces cv1 * INT vpart1 d eta + sum_pieces cv2 * INT vpart2 d eta

with INT = scipy quad over sub-intervals of [0,1] split at brentq roots.  Everything below runs the REAL
functions; quad / brentq are contract stubs (quad -> fresh symbol, brentq -> fresh point of the bracket that
is a zero of the real root function), every weight c.. is the exact derivative of the returned term with
respect to a quad symbol, every integrand is the real upart*/vpart* at a symbolic integration variable.

  structure.u/.v  on every branch of usolution / vsolution: the result is affine in the integrals, all pieces
                  of an integral carry the same weight, u_const = 1 (independent of x, tau), v_const = 0,
                  c_uans = 1, the pieces tile [0,1] from the non-oscillatory end, the integrand quad sees (the
                  stub evaluates it when quad is called, stale common block before the call) is the integrand
                  of THIS call's (x, tau, eps), the arguments are left in the common block; Dirichlet
                  normalisation of cu1
  weights         exact relations between the weights on every branch: cv1 = cu1, cv2 = -cu2, cu1 independent of
                  x and tau, d cu2/d tau = -cu2 (so cu2 = k exp(-tau)), none is zero
  pde.family2     U = k e^-tau upart2(eta), W = -k e^-tau vpart2(eta), k arbitrary:
                  eps U_tau = U_xx + W  and  (U+W)_tau = -W        (u = U, v - u = W)
  pde.family1     U = k upart1(eta), W = k vpart1(eta') |d eta'/d eta| on the circle eta^2 + eta'^2 = 1 (the
  (+.amplitudes)  substitution that maps the first v-integral onto the first u-integral): same two equations,
                  proved as a chain of lemmas (see PdeFamily)
  marshak         (U - (2/sqrt3) U_x)|x=0 = 0 for both u-families (the constant part carries the 1)
  decay           eta * amplitude(upart1) -> 1/sqrt 3 as eta -> 0 (two-sided envelopes); with the Dirichlet
                  normalisation in structure.u this is the necessary condition for u -> 0 as x -> infinity
  split.*         every split point (any zero of the root function the code pairs with an integrand) is a zero
                  of that integrand
  so_wave         physical <-> dimensionless conversion through the public SuOlson class
  so_wave.real_valued   the public call returns real temperatures when u, v carry the (observed) quadrature error
                  and come out slightly negative  -- VIOLATED on the unfixed code: (negative float)**0.25 is complex

Differentiation under the integral sign, the Riemann-Lebesgue lemma / Dirichlet integral and the accuracy of
the quadrature are the analytic steps that are NOT encoded (see OUTSIDE).
"""
from fractions import Fraction
import contextlib
import math
import numpy as np

from symx import terms as T
from symx import diff as Df
from symx.framework import Obligation, V
from symx.engine import SymReal, SymBool, term_of, current
from symx.shim import Recorder
from . import common as H
from .common import Mode

EXPLANATION = ('The real usolution/vsolution, the four integrands, the phase/root functions and so_wave (through the public '
               'SuOlson class) are executed on symbolic reals; quad and brentq are replaced by contract stubs. The weights '
               'with which the code combines the integrals are the exact derivatives of the returned term with respect to '
               'the stub symbols; z3 proves, on every branch, the exact relations between them, that the result is affine '
               'in the integrals with constant part 1 (u) and u (v), that the sub-intervals tile [0,1], that quad is handed '
               'the integrand of the current call although the module keeps state between calls, and that every split '
               'point is a zero of the integrand it splits. With those relations z3 decides that every weighted integrand '
               'pair (u-part, v-part) solves eps*u_tau = u_xx + (v-u), v_tau = u-v for every value of the integration '
               'variable (family 1 after the substitution eta^2 + eta\'^2 = 1 that relates the two representations, as a '
               'chain of lemmas), that every u-integrand satisfies the homogeneous Marshak condition at x = 0, and the '
               'Dirichlet normalisation that decay at infinity requires. so_wave is checked through the public class: '
               '(t, z, T_bc, opacity, alpha) -> (x, tau, eps) and (u, v) -> temperatures as documented.')
BOUNDS = ['integration variable strictly inside the 1e-14 regularisation clamps of timmes.py (1e-14 < eta < 1-1e-14, '
          'eta*eps > 1e-14); the clamped end layers are not covered; split.* obligations take the clamps as inactive',
          'oscillatory branch of each integral explored with 2 sub-intervals per integral in the quick tier '
          '(3-4 in the thorough tier); the decision oscillatory / non-oscillatory is treated as nondeterministic, so '
          'both branches of all four integrals are explored for every input',
          'float literals rt3 = 1.7320508075688772 and the CGS constants are compared with sqrt(3), c, a, k_B within the '
          'relative tolerances stated in the claim labels',
          'so_wave obligations: usolution/vsolution replaced by arbitrary values u, v >= 0 (so_wave) or >= -1e-6 '
          '(so_wave.real_valued); one position per call '
          '(the state left behind by earlier positions/calls is the symbolic stale common block of structure.*)']
OUTSIDE = ['that the weighted integrals converge and may be differentiated under the integral sign; accuracy, truncation '
           '(loop stops when a piece is below 1e-8) and tolerance of quad/brentq',
           'decay to zero as x -> infinity beyond the necessary Dirichlet normalisation of the only non-integrable '
           'amplitude (Riemann-Lebesgue lemma and Dirichlet integral are not encoded)',
           'the initial condition u = v = 0 at tau = 0 (it fixes the weight of family 2; not part of the property statement)',
           'existence of the roots brentq is asked for (the real call raises otherwise)']
ASSUMPTIONS = ['quad stub: the value of an integral is an arbitrary real (in the oscillatory loop: above 1e-8 in absolute '
               'value for all but the last piece); brentq stub: an arbitrary point of the bracket strictly inside the '
               'clamps, assumed to be a zero of the real root function in the claims about split points',
               'family 1: equal arguments give equal values of sin / exp / arccos (function congruence), used to replace '
               'the atoms of the v-integrand by those of the u-integrand once z3 has proved the arguments equal; the last '
               'step of the lemma chain (a common factor times a vanishing sum vanishes) is proved by z3 as a schema over '
               'fresh reals and instantiated by hand',
               'trusted facts supplied to z3 as instances: cos(arccos c) = c and sin(arccos c) = sqrt(1-c^2) on [-1,1] '
               '(marshak); 1 + z <= exp(z) <= 1 for z <= 0 (decay). Used outside z3: sin(2 pi j) = 0 (split.*: the claim '
               'proved is phase = 2 pi j); Dirichlet integral and Riemann-Lebesgue lemma (decay)',
               'CODATA 2018 values for the radiation constant and k_B/e, exact c, as reference (tolerance 1e-4)']
META = {
    'level_text': ('Bounded symbolic check of the real Su-Olson code: position, time, epsilon, the integration variable and '
                   'the physical inputs are symbolic reals, quad/brentq are contract stubs. z3 proves that every weighted '
                   'integrand pair solves the two coupled diffusion equations and the homogeneous Marshak condition, that '
                   'the constant part is 1, the Dirichlet normalisation for decay, the bookkeeping of the split '
                   'quadrature and the dimensionalisation in so_wave. Not a proof of the property: interchange of '
                   'derivative and integral, convergence/decay of the oscillatory integrals and quadrature accuracy are '
                   'outside; floats as reals; transcendental functions as atoms with the listed facts.'),
    'level_note': ('Trusted: z3; symx proxies/shims/differentiation (validated per path against the unshimmed code); the '
                   'quad/brentq contracts and the trigonometric facts listed under assumptions; the statement of the '
                   'Su-Olson equations, Marshak condition and substitution eta^2+eta\'^2=1 in harness/C18.py.'),
}

TM = 'exactpack.solvers.suolson.timmes'
SM = 'exactpack.solvers.suolson.suolson'
TINY = Fraction(1, 10 ** 14)
EPS2 = Fraction(1, 10 ** 8)
TOL = Fraction(1, 10 ** 13)         # float-literal tolerance (rt3 vs sqrt 3, products of CGS constants)
C_LIGHT = Fraction(29979245800)     # cm/s, exact
A_RAD = Fraction('7.565733e-15')    # erg cm^-3 K^-4 (CODATA 2018)
K_EV = Fraction('8.617333262e-5')   # eV/K (CODATA 2018)

INTEGRANDS = {'u': ('upart1', 'upart2'), 'v': ('vpart1', 'vpart2')}
# end of [0,1] from which the pieces must grow (the other end is where the phase diverges)
ANCHOR = {'upart1': 0, 'upart2': 1, 'vpart1': 1, 'vpart2': 1}
NUM_PIECES = 3      # numeric replay: weights are measured for the first 3 pieces of every integral


# ------------------------------------------------------------------ quad / brentq: contract stubs and spies

class SymNumerics(object):
    """quad -> fresh symbol (+ the integrand evaluated, at call time, at the harness' symbolic integration
    variable and at the last split point); brentq -> fresh root of the real root function."""
    symbolic = True

    def __init__(self, m, probes, npieces, edges=()):
        self.m, self.probes, self.np = m, probes, npieces
        self.edges = edges          # integrands whose split points are examined (integrand and root function at r)
        self.calls = []
        self.pending = None

    def brentq(self, f, a, b, *args, **kw):
        ex = current()
        r = ex.fresh('root')
        ex.assume(T.le(term_of(a), r.t))
        ex.assume(T.le(r.t, term_of(b)))
        ex.assume(T.gt(r.t, T.const(TINY)))
        ex.assume(T.lt(r.t, T.const(1 - TINY)))
        # the contract f(r) == 0 is NOT put into the path condition (it would burden every later feasibility
        # query with arccos atoms and nested roots): it is handed to the claims that need it as a hypothesis
        self.pending = (f, r, self.m.jwant)
        return r

    def quad(self, f, a, b, *args, **kw):
        ex = current()
        name = f.__name__
        k = 1 + sum(1 for c in self.calls if c['name'] == name)
        q = ex.fresh('quad')
        rec = dict(name=name, k=k, a=a, b=b, q=q, edge=None, j=None, root=None, rooteq=None)
        if self.pending is not None:
            small = T.le(T.absval(q.t), T.const(EPS2))
            ex.assume(T.lnot(small) if k <= self.np else small)
            rootf, r, j = self.pending
            rec['root'], rec['j'] = r, j
            if name in self.edges:
                rec['rooteq'] = rootf(r)
                rec['edge'] = f(r)
        rec['probe'] = f(self.probes[name]) if name in self.probes else None
        self.calls.append(rec)
        self.pending = None
        return (q, 0.0)


class RealNumerics(object):
    """spy around the real scipy quad / brentq (numeric replay): records the same things; `pert' adds a
    number to the value of one piece (numeric twin of d/d(stub symbol)); `zero' returns 0 for every integral."""
    symbolic = False

    def __init__(self, m, probes, pert=None, zero=False, light=False):
        from scipy.integrate import quad
        from scipy.optimize import brentq
        self._quad, self._brentq = quad, brentq
        self.m, self.probes = m, probes
        self.pert, self.zero, self.light = pert or {}, zero, light
        self.calls = []
        self.pending = None

    def brentq(self, f, a, b, *args, **kw):
        r = self._brentq(f, a, b, *args, **kw)
        rs = r
        if not self.light:
            # the code asks for xtol = 1e-6; the claim is about exact zeros of the root function: polish the root
            try:
                rs = self._brentq(f, a, b, xtol=1e-15, rtol=4 * np.finfo(float).eps, maxiter=500)
            except Exception:
                rs = r
        self.pending = (f, rs, self.m.jwant)
        return r

    def quad(self, f, a, b, *args, **kw):
        name = f.__name__
        k = 1 + sum(1 for c in self.calls if c['name'] == name)
        val = 0.0 if self.zero else self._quad(f, a, b, *args, **kw)[0]
        val += self.pert.get((name, k), 0.0)
        rec = dict(name=name, k=k, a=a, b=b, q=val, edge=None, j=None, root=None, probe=None, rooteq=None)
        if self.light:
            self.calls.append(rec)
            self.pending = None
            return (val, 0.0)
        if self.pending is not None:
            rootf, r, j = self.pending
            rec['root'], rec['j'], rec['rooteq'] = r, j, rootf(r)
            # size of the integrand within about a quarter period of the split point (the amplitude of upart2 /
            # vpart2 changes by many orders of magnitude across a whole piece)
            pts = [r + sg * (b - a) * i / 64.0 for i in range(1, 17) for sg in (-1.0, 1.0)]
            sc = max([abs(f(p_)) for p_ in pts if 0.0 < p_ < 1.0] + [1e-300])
            rec['edge'] = f(r) / sc          # at the polished root
        rec['probe'] = f(self.probes[name]) if name in self.probes else None
        self.calls.append(rec)
        self.pending = None
        return (val, 0.0)


ROOTFNS = ('gamma_one_root', 'gamma_two_root', 'gamma_three_root')


def _free_at_endpoints(f):
    """The code decides `oscillatory or not' from the sign of the root function at the concrete end points
    eta = 0, 1 (values like sqrt(eps + 1e28) that only burden the solver).  In the symbolic run those two
    values are arbitrary reals: the decision is nondeterministic, both branches are explored for every
    input (an over-approximation).  Symbolic arguments (the brentq contract) reach the real function."""
    def g(eta):
        if isinstance(eta, SymReal):
            return f(eta)
        return current().fresh('endpoint')
    g.__name__ = f.__name__
    return g


@contextlib.contextmanager
def installed(m, num):
    saved = (m.quad, m.brentq, m.posx, m.tau, m.epsilon, m.jwant)
    saved_roots = [getattr(m, n) for n in ROOTFNS]
    m.quad, m.brentq = num.quad, num.brentq
    if num.symbolic:
        for n, f in zip(ROOTFNS, saved_roots):
            setattr(m, n, _free_at_endpoints(f))
    try:
        yield
    finally:
        m.quad, m.brentq, m.posx, m.tau, m.epsilon, m.jwant = saved
        for n, f in zip(ROOTFNS, saved_roots):
            setattr(m, n, f)


def analyse(m, mk, which, args, probes, npieces=1, edges=()):
    """Run the real usolution (which='u') or vsolution ('v') once and take the result apart.

    Before the call the common block holds the values of an unrelated earlier call (x_prev, tau_prev,
    eps_prev: the module keeps state between calls).  Returns {name: value}; see the module docstring."""
    fn = getattr(m, which + 'solution')
    symbolic = Mode.symbolic(mk)
    stale = (mk('x_prev'), mk('tau_prev'), mk('eps_prev'))

    def call(num, args=args):
        with installed(m, num):
            m.posx, m.tau, m.epsilon, m.jwant = stale + (1,)
            val = fn(*args)
            cb = (m.posx, m.tau, m.epsilon)
            # reference integrands: the common block set by the harness to the arguments of this call
            m.posx, m.tau, m.epsilon = args[0], args[1], args[2]
            ref = dict((name, getattr(m, name)(eta)) for name, eta in probes.items())
        return val, cb, ref

    out = {}
    if symbolic:
        num = SymNumerics(m, probes, npieces, edges)
        val, cb, ref = call(num)
        vt = term_of(val)
        zero_all = dict((c['q'].t, T.ZERO) for c in num.calls)
        lin = T.ZERO
        for c in num.calls:
            cf = Df.d(vt, c['q'].t.args[0])
            out['c_%s_%d' % (c['name'], c['k'])] = SymReal(cf)
            lin = T.add(lin, T.mul(cf, c['q'].t))
        if which == 'v':
            cu = Df.d(vt, 'uans')
            out['c_uans'] = SymReal(cu)
            lin = T.add(lin, T.mul(cu, T.var('uans')))
            zero_all[T.var('uans')] = T.ZERO
        const = T.substitute(vt, zero_all)
        out['const'] = SymReal(const)
        out['resid'] = SymReal(T.sub(vt, T.add(const, lin)))
    else:
        num = RealNumerics(m, probes)
        val, cb, ref = call(num)
        lin = 0.0
        first = {}
        for c in num.calls:
            if c['k'] <= NUM_PIECES:
                hi = call(RealNumerics(m, probes, pert={(c['name'], c['k']): 1.0}, light=True))[0]
                lo = call(RealNumerics(m, probes, pert={(c['name'], c['k']): -1.0}, light=True))[0]
                cf = (hi - lo) / 2.0
                first.setdefault(c['name'], cf)
            else:
                cf = first[c['name']]      # replay cost: later pieces are taken to carry the weight of the first
            out['c_%s_%d' % (c['name'], c['k'])] = cf
            lin += cf * c['q']
        a0 = args
        if which == 'v':
            hi = call(RealNumerics(m, probes, light=True), args[:3] + (args[3] + 1.0,))[0]
            lo = call(RealNumerics(m, probes, light=True), args[:3] + (args[3] - 1.0,))[0]
            out['c_uans'] = (hi - lo) / 2.0
            lin += out['c_uans'] * args[3]
            a0 = args[:3] + (0.0,)
        const = call(RealNumerics(m, probes, zero=True, light=True), a0)[0]
        out['const'] = const
        out['resid'] = val - (const + lin)
    for c in num.calls:
        tag = '%s_%d' % (c['name'], c['k'])
        if c['probe'] is not None:
            out['P_' + tag] = c['probe']
        out['a_' + tag] = c['a']
        out['b_' + tag] = c['b']
        if c['edge'] is not None:
            out['edge_' + tag] = c['edge']
            out['j_' + tag] = c['j']
            out['rooteq_' + tag] = c['rooteq']
    for name in probes:
        out['R_' + name] = ref[name]
    for name in INTEGRANDS[which]:
        out['n_' + name] = sum(1 for c in num.calls if c['name'] == name)
        out['osc_' + name] = int(any(c['root'] is not None for c in num.calls if c['name'] == name))
    out['cb_posx'], out['cb_tau'], out['cb_epsilon'] = cb
    return out


# ------------------------------------------------------------------ facts about atoms handed to z3 as instances

def _fn_nodes(terms, name):
    return [n for n in T.postorder(list(terms)) if n.op == 'fn' and n.args[0] == name]


def congruence(cx, vals, names=('sin', 'cos', 'arccos', 'exp')):
    """f(a) == f(b) whenever a == b, for every pair of atoms of the same function in vals"""
    if not cx.symbolic:
        return True
    ts = [term_of(v) for v in vals]
    conds = []
    for name in names:
        ns = _fn_nodes(ts, name)
        for i in range(len(ns)):
            for j in range(i + 1, len(ns)):
                conds.append(T.implies(T.eq(ns[i].args[1], ns[j].args[1]), T.eq(ns[i], ns[j])))
    return SymBool(T.land(*conds)) if conds else None


def arccos_facts(cx, vals):
    """cos(arccos c) == c and sin(arccos c) == sqrt(1 - c^2)"""
    if not cx.symbolic:
        return True
    ts = [term_of(v) for v in vals]
    conds = []
    for name in ('sin', 'cos'):
        for n in _fn_nodes(ts, name):
            a = n.args[1]
            if a.op == 'fn' and a.args[0] == 'arccos':
                c = a.args[1]
                conds.append(T.eq(n, c) if name == 'cos' else T.eq(n, T.pw(T.sub(T.ONE, T.mul(c, c)), T.HALF)))
    return SymBool(T.land(*conds)) if conds else None


SPLIT_L1 = 'split point of %s: the integrand is sin(phase) times a factor'
SPLIT_L2 = 'split point of %s: phase = 2 pi j at any zero of the root function used (so the integrand vanishes)'
SPLIT_L3 = 'split point of %s: the root function used is phase - 2 pi j'
SPLIT_L3G = SPLIT_L3 + ' [x-coefficient]'


def split_claims(cx, name, edge, j, rooteq):
    """The integrand vanishes at a split point r: (i) it is sin(phase) times something, (ii) phase(r) == 2 pi j
    for every r with rootfunction(r) == 0 (the brentq contract, here a hypothesis of the claim); sin(2 pi j) = 0 is
    the trusted fact.  (iii) is the stronger statement rootfunction(r) == phase(r) - 2 pi j for EVERY r, which
    holds for the code as written and, when it fails, gives the solver a witness without having to solve the root
    equation (its x-coefficient half is decided in C18.split.*.gamma, by an encoder free of arccos atoms).
    Numeric replay of all: |integrand(r)| relative to its size near r, at the root of the real root function in
    the bracket the code used, polished to machine precision."""
    l1, l2, l3 = SPLIT_L1 % name, SPLIT_L2 % name, SPLIT_L3 % name
    if not cx.symbolic:
        for l in (l1, l2, l3):
            cx.eq(l, edge, 0, scale=[1.0], tol=1e-3)
        return
    et = term_of(edge)
    sins = _fn_nodes([et], 'sin')
    if len(sins) != 1:
        cx.true(l1, False)
        return
    cx.true(l1, SymBool(T.eq(et, T.mul(sins[0], T.substitute(et, {sins[0]: T.ONE})))))
    cx.eq(l3, rooteq, SymReal(sins[0].args[1]) - 2 * j * cx.const('PI'))
    cx.eq(l2, SymReal(sins[0].args[1]), 2 * j * cx.const('PI'), when=SymBool(T.eq(term_of(rooteq), T.ZERO)))


def exp_bounds(cx, vals):
    """1 + z <= exp(z) <= 1 for z <= 0"""
    if not cx.symbolic:
        return True
    conds = []
    for n in _fn_nodes([term_of(v) for v in vals], 'exp'):
        z = n.args[1]
        conds.append(T.implies(T.le(z, T.ZERO), T.land(T.le(n, T.ONE), T.le(T.add(T.ONE, z), n))))
    return SymBool(T.land(*conds)) if conds else None


def d_dx(cx, f):
    """df/dx; the numeric replay differentiates at x >= 0.01 (central differences at x = 0 would call the real
    usolution with a negative position)"""
    if cx.symbolic or cx.p('x') >= 0.01:
        return cx.d(f, 'x')
    return cx.at(x=0.01).d(f, 'x')


def d2_dx2(cx, f):
    """d2f/dx2; numeric replay: five-point stencil with a step that keeps round-off small (the integrands are
    defined for every real x)"""
    if cx.symbolic:
        return cx.d(f, 'x', 2)
    x0 = cx.p('x')
    h = 2e-3 * max(1.0, abs(x0))
    v = [float(f(cx.at(x=x0 + i * h))) for i in (-2, -1, 0, 1, 2)]
    return (-v[0] + 16 * v[1] - 30 * v[2] + 16 * v[3] - v[4]) / (12 * h * h)


def at_x0(cx, f):
    """(f, df/dx) at x = 0"""
    if cx.symbolic:
        sub = {T.var('x'): T.ZERO}
        return (SymReal(T.substitute(term_of(f(cx)), sub)), SymReal(T.substitute(term_of(cx.d(f, 'x')), sub)))
    c0 = cx.at(x=0.0)
    return f(c0), c0.d(f, 'x')


# ------------------------------------------------------------------ physical <-> dimensionless variables

class SoWave(Obligation):
    def __init__(self):
        self.id = 'C18.so_wave'
        self.m, self.sm = H.mod(TM), H.mod(SM)
        self.modules = [self.m, self.sm]
        self.extra_shim = {'ExactSolution': Recorder}
        self.functions = [self.m.so_wave, self.m.suolson, self.sm.SuOlson._run]
        self.bounds = ('t>0, z>=0, T_bc>0, opacity>0, alpha>0 symbolic; usolution/vsolution replaced by arbitrary u, v >= 0 '
                       '(in the symbolic run and in the replay); one position per call')
        self.timeout_s = 40

    def build(self, mk):
        m = self.m
        rec = {}
        u, v = mk('u'), mk('v')

        def usol(x, tau, eps):
            rec['u'] = (x, tau, eps)
            return u

        def vsol(x, tau, eps, uans):
            rec['v'] = (x, tau, eps, uans)
            return v
        t, z, Tbc, opac, alpha = mk('t'), mk('z'), mk('Tbc'), mk('opac'), mk('alpha')
        saved = (m.usolution, m.vsolution)
        m.usolution, m.vsolution = usol, vsol
        try:
            s = self.sm.SuOlson(trad_bc_ev=Tbc, opac=opac, alpha=alpha)
            f = H.first(H.fields(s(H.arr([z]), t)))
            erad, trad, trad_ev, tmat, tmat_ev = m.so_wave(t, z, Tbc, opac, alpha)
        finally:
            m.usolution, m.vsolution = saved
        out = dict(position=f['position'], temperature_rad=f['temperature_rad'], temperature_mat=f['temperature_mat'],
                   erad=erad, trad=trad, trad_ev=trad_ev, tmat=tmat, tmat_ev=tmat_ev, u=u, v=v)
        out['xpos'], out['tau'], out['eps'] = rec['u']
        out['v_xpos'], out['v_tau'], out['v_eps'], out['v_uans'] = rec['v']
        return out

    def domain(self, V):
        return [T.gt(V('t'), T.ZERO), T.ge(V('z'), T.ZERO), T.gt(V('Tbc'), T.ZERO), T.gt(V('opac'), T.ZERO),
                T.gt(V('alpha'), T.ZERO), T.ge(V('u'), T.ZERO), T.ge(V('v'), T.ZERO)]

    def claims(self, cx):
        t, z, Tbc, opac, alpha = (cx.p(n) for n in ('t', 'z', 'Tbc', 'opac', 'alpha'))
        u, v = cx['u'], cx['v']
        xpos, tau, eps = cx['xpos'], cx['tau'], cx['eps']
        s3 = cx.sqrt(3)
        cx.le('x = sqrt(3)*opacity*z (rel 1e-13)', cx.abs(xpos - s3 * opac * z), TOL * s3 * opac * z)
        cx.le('tau = eps*c*opacity*t (rel 1e-13)', cx.abs(tau - eps * C_LIGHT * opac * t), TOL * eps * C_LIGHT * opac * t)
        cx.le('eps = 4a/alpha, a within 1e-4 of CODATA', cx.abs(eps * alpha / 4 - A_RAD), A_RAD / 10000)
        cx.eq('erad = a*T_rad^4 with the a of eps = 4a/alpha', cx['erad'], (eps * alpha / 4) * cx['trad'] ** 4)
        cx.eq('vsolution gets the same x', cx['v_xpos'], xpos)
        cx.eq('vsolution gets the same tau', cx['v_tau'], tau)
        cx.eq('vsolution gets the same eps', cx['v_eps'], eps)
        cx.eq('vsolution gets the u of usolution', cx['v_uans'], u)
        cx.eq('(T_rad/T_bc)^4 = u', cx['trad_ev'] ** 4, u * Tbc ** 4)
        cx.eq('(T_mat/T_bc)^4 = v', cx['tmat_ev'] ** 4, v * Tbc ** 4)
        cx.ge('T_rad >= 0', cx['trad_ev'], 0)
        cx.ge('T_mat >= 0', cx['tmat_ev'], 0)
        cx.le('T_rad[eV] = k_B T_rad[K] (k_B within 1e-4 of CODATA)', cx.abs(cx['trad_ev'] - K_EV * cx['trad']), cx['trad_ev'] / 10000)
        cx.le('T_mat[eV] = k_B T_mat[K] (k_B within 1e-4 of CODATA)', cx.abs(cx['tmat_ev'] - K_EV * cx['tmat']), cx['tmat_ev'] / 10000)
        cx.eq('SuOlson.temperature_rad = so_wave trad_ev', cx['temperature_rad'], cx['trad_ev'])
        cx.eq('SuOlson.temperature_mat = so_wave tmat_ev', cx['temperature_mat'], cx['tmat_ev'])
        cx.eq('SuOlson.position = z', cx['position'], z)


class SoWaveRealValued(Obligation):
    """The public call returns real, finite temperatures.  usolution / vsolution are quadratures: far ahead of the
    wave their values are 0 up to the quadrature error and can come out slightly negative (observed on the real
    code: usolution(0.3531064716310654, 0.00011756674792277548, 4.360219531383871) = -1.9e-8), so the contract of
    the stub is u, v >= -1e-6 here, not u, v >= 0.  Definedness of the fourth roots is ASSERTED (cx.defined)."""

    def __init__(self):
        self.id = 'C18.so_wave.real_valued'
        self.m, self.sm = H.mod(TM), H.mod(SM)
        self.modules = [self.m, self.sm]
        self.extra_shim = {'ExactSolution': Recorder}
        self.functions = [self.m.so_wave, self.m.suolson, self.sm.SuOlson._run]
        self.bounds = ('t>0, z>=0, T_bc>0, opacity>0, alpha>0 symbolic; usolution/vsolution replaced by arbitrary '
                       'u, v >= -1e-6 (non-negative exact values with a quadrature error of at most 1e-6)')
        self.timeout_s = 40

    def build(self, mk):
        m = self.m
        u, v = mk('u'), mk('v')
        saved = (m.usolution, m.vsolution)
        m.usolution, m.vsolution = (lambda x, tau, eps: u), (lambda x, tau, eps, uans: v)
        try:
            s = self.sm.SuOlson(trad_bc_ev=mk('Tbc'), opac=mk('opac'), alpha=mk('alpha'))
            f = H.first(H.fields(s(H.arr([mk('z')]), mk('t'))))
        finally:
            m.usolution, m.vsolution = saved
        return {'temperature_rad': f['temperature_rad'], 'temperature_mat': f['temperature_mat'], '_raised': 0}

    def on_exception(self, e):
        return {'_raised': 1, '_exc': '%s: %s' % (type(e).__name__, str(e)[:80])}

    def domain(self, V):
        lo = T.const(Fraction(-1, 10 ** 6))
        return [T.gt(V('t'), T.ZERO), T.ge(V('z'), T.ZERO), T.gt(V('Tbc'), T.ZERO), T.gt(V('opac'), T.ZERO),
                T.gt(V('alpha'), T.ZERO), T.ge(V('u'), lo), T.ge(V('v'), lo)]

    def claims(self, cx):
        for name in ('temperature_rad', 'temperature_mat'):
            label = 'SuOlson returns a real %s when u, v carry a quadrature error (>= -1e-6)' % name
            if cx['_raised']:
                cx.true(label, False)
            else:
                cx.defined(label, cx[name])


# ------------------------------------------------------------------ integrand level

def circle(mk):
    """a point (eta, eta') of the quarter circle eta^2 + eta'^2 = 1 (constraint stated in the domain): the
    substitution eta' = sqrt(1 - eta^2) maps the first v-integral onto the first u-integral"""
    return mk('eta1'), mk('eta1p')


def jacobian(mk, e1, e1p):
    """|d eta'/d eta| along the circle (implicit differentiation of eta^2 + eta'^2 = 1)"""
    return e1 / e1p


def _inside(t):
    return [T.gt(t, T.const(TINY)), T.lt(t, T.const(1 - TINY))]


def kernel_domain(V, fam1=True, fam2=True, stale=True):
    d = [T.ge(V('x'), T.ZERO), T.gt(V('tau'), T.ZERO), T.gt(V('eps'), T.ZERO)]
    if stale:
        d += [T.ge(V('x_prev'), T.ZERO), T.gt(V('tau_prev'), T.ZERO), T.gt(V('eps_prev'), T.ZERO)]
    if fam1:
        e1, e1p = V('eta1'), V('eta1p')
        d += _inside(e1) + _inside(e1p) + [T.eq(T.add(T.mul(e1, e1), T.mul(e1p, e1p)), T.ONE)]
    if fam2:
        d += _inside(V('eta')) + [T.gt(T.mul(V('eta'), V('eps')), T.const(TINY))]
        if stale:
            # the earlier call was a valid one too: its epsilon keeps the clamps inactive as well
            d.append(T.gt(T.mul(V('eta'), V('eps_prev')), T.const(TINY)))
    return d


class Kernel(Obligation):
    """shared build: real usolution and/or vsolution taken apart by analyse()"""
    uses_derivatives = True
    which = 'uv'
    fam1 = fam2 = True
    edges = ()
    npieces = 1
    probe_all = False       # probe the family-1 integrand at the plain variable eta when fam1 is off
    # the oscillatory / non-oscillatory decision is nondeterministic in the symbolic run, so the float run at a
    # path's sample point generally takes another branch (other number of pieces): not comparable output by
    # output.  The integrand and weight terms are validated by the single-path obligations pde.* and marshak.
    skip_validation = True

    def _init(self, ident, bounds):
        self.id = ident
        self.m = H.mod(TM)
        self.modules = [self.m]
        m = self.m
        self.functions = [m.usolution, m.vsolution, m.upart1, m.upart2, m.vpart1, m.vpart2, m.gamma_one, m.gamma_two,
                          m.gamma_three, m.theta_one, m.theta_two, m.theta_three, m.gamma_one_root, m.gamma_two_root,
                          m.gamma_three_root]
        self.bounds = bounds
        self.max_paths = 64
        self.timeout_s = 40
        self.timeout_thorough_s = 300
        self.deriv_tol = 1e-4

    def build(self, mk):
        m = self.m
        x, tau, eps = mk('x'), mk('tau'), mk('eps')
        e1, e1p = circle(mk) if self.fam1 else (None, None)
        e2 = mk('eta') if self.fam2 else None
        out = {}
        for w in self.which:
            probes = {}
            if self.fam1:
                probes[INTEGRANDS[w][0]] = e1 if w == 'u' else e1p
            elif self.probe_all:
                probes[INTEGRANDS[w][0]] = e2
            if self.fam2:
                probes[INTEGRANDS[w][1]] = e2
            args = (x, tau, eps) if w == 'u' else (x, tau, eps, mk('uans'))
            r = analyse(m, mk, w, args, probes, self.npieces, self.edges)
            for k, v in r.items():
                out[w + ':' + k] = v
        if self.fam1:
            out['J'] = jacobian(mk, e1, e1p)
        return out

    def domain(self, V):
        return kernel_domain(V, self.fam1, self.fam2)


@contextlib.contextmanager
def common_block(m, x, tau, eps):
    """the common block as usolution / vsolution leave it for the call (x, tau, eps) (structure.* obligations)"""
    saved = (m.posx, m.tau, m.epsilon, m.jwant)
    m.posx, m.tau, m.epsilon, m.jwant = x, tau, eps, 1
    try:
        yield
    finally:
        m.posx, m.tau, m.epsilon, m.jwant = saved


def expm(mk, tau):
    """exp(-tau) in the arithmetic of the current mode"""
    if Mode.symbolic(mk):
        return SymReal(T.func('exp', T.neg(term_of(tau))))
    return math.exp(-tau)


class Weights(Kernel):
    """Exact relations between the weights with which the real usolution / vsolution combine their integrals,
    on every branch.  They are all the pde / marshak obligations need to know about the weights:
      family 1:  cv1 == cu1, independent of x and tau     ->  (U, W) = k * (upart1, vpart1)
      family 2:  cv2 == -cu2, d cu2/d tau == -cu2, independent of x  ->  (U, W) = k exp(-tau) * (upart2, -vpart2)"""
    fam1 = fam2 = False

    def __init__(self):
        self._init('C18.weights', 'x>=0, tau>0, eps>0, stale common block symbolic; 2x2 branches of usolution times 2x2 of '
                                  'vsolution; weights = exact derivatives of the returned terms w.r.t. the quad symbols')

    def claims(self, cx):
        cu1, cu2 = (lambda c: c['u:c_upart1_1']), (lambda c: c['u:c_upart2_1'])
        cv1, cv2 = (lambda c: c['v:c_vpart1_1']), (lambda c: c['v:c_vpart2_1'])
        sc = None if cx.symbolic else [1.0]
        cx.eq('weight of INT vpart1 = weight of INT upart1', cv1(cx), cu1(cx))
        cx.eq('weight of INT vpart2 = -(weight of INT upart2)', cv2(cx), -cu2(cx))
        cx.eq('weight of uans in v is 1', cx['v:c_uans'], 1)
        for w in 'uv':
            for nm, inp in (('posx', 'x'), ('tau', 'tau'), ('epsilon', 'eps')):
                cx.eq('%ssolution leaves %s_in in the common block' % (w, nm), cx['%s:cb_%s' % (w, nm)], cx.p(inp))
        for name, f in (('upart1', cu1), ('upart2', cu2), ('vpart1', cv1), ('vpart2', cv2)):
            cx.eq('weight of INT %s does not depend on x' % name, d_dx(cx, f), 0, scale=sc)
            if name.endswith('1'):
                cx.eq('weight of INT %s does not depend on tau' % name, cx.d(f, 'tau'), 0, scale=sc)
            else:
                cx.eq('weight of INT %s is proportional to exp(-tau): d/dtau = -weight' % name, cx.d(f, 'tau'), -f(cx))
            cx.true('weight of INT %s is not zero' % name, (f(cx) > 0) | (f(cx) < 0) if cx.symbolic else f(cx) != 0)


PDE_LABELS = ('eps*u_tau = u_xx + (v-u) for the weighted integrands', 'v_tau = u - v for the weighted integrands')


def residual_addends(U, W, Ut, Uxx, Wt, eps):
    """addends of the two residuals of  eps u_tau = u_xx + (v - u),  v_tau = u - v  for u = U, v - u = W"""
    return [[eps * Ut, -Uxx, -W], [Ut, Wt, W]]


def family1_atoms(Uv, Wv, k):
    """(unify, strip, F) or None: the v-integrand's sin / exp atoms mapped onto the u-integrand's, the atoms and
    the weight mapped to 1, and the common factor weight*sin*exp"""
    su, sw = _fn_nodes([term_of(Uv)], 'sin'), _fn_nodes([term_of(Wv)], 'sin')
    eu, ew = _fn_nodes([term_of(Uv)], 'exp'), _fn_nodes([term_of(Wv)], 'exp')
    if not (len(su) == len(sw) == len(eu) == len(ew) == 1):
        return None
    su, sw, eu, ew = su[0], sw[0], eu[0], ew[0]
    kt = term_of(k)
    return dict(su=su, sw=sw, eu=eu, ew=ew, unify={sw: su, ew: eu}, strip={su: T.ONE, eu: T.ONE, kt: T.ONE},
                F=T.mul(T.mul(su, eu), kt))


class PdeFamily(Obligation):
    """The weighted integrand pair of one family solves both equations for every value of the integration
    variable.  Integrands: the real upart*/vpart* with the common block of the call (x, tau, eps); weights: an
    arbitrary real k with the exact relations proved by C18.weights.

    Family 2: both integrands carry the same sin and exp atoms; z3 decides the two residuals directly.

    Family 1: the u- and v-integrands are written in different variables (eta, eta' on the circle), so their
    sin / exp atoms have syntactically different arguments.  z3 is led through the proof in steps, every step a
    claim of its own (part 'chain' = C18.pde.family1, part 'amplitudes' = C18.pde.family1.amplitudes):
      L1  phase of the v-integrand == phase of the u-integrand          (on the circle)
      L2  decay exponent of the v-integrand == that of the u-integrand
      L3  with the v-atoms replaced by the u-atoms (substitution of equals, justified by L1, L2 and function
          congruence), every addend of a residual is  weight*sin*exp * (addend with weight, sin, exp -> 1)
      L4a eta * amplitude of upart1(eta) == eta' * amplitude of vpart1(eta')  (the relation between the two
          square-root denominators; without this hint z3 needs 20-60 s for L4, with it 0.02 s)
      L4  the residuals of those amplitudes vanish, given L4a  (L4a, L4: their own obligation, whose encoder
          never sees the transcendental atoms)
      glue  for arbitrary reals: A_i == F*M_i (i = 0,1,2) and M_0+M_1+M_2 == 0 imply A_0+A_1+A_2 == 0;
          instantiated with A_i = addends, F = weight*sin*exp, M_i = amplitudes this is the residual of the
          real weighted integrands (z3 cannot do this step on the instantiated terms in reasonable time: it
          does not treat them as opaque).
    Numeric replay: a witness against any step is replayed as the finite-difference residual of the real
    weighted integrands (a broken lemma is reported as a violation only if the equations themselves fail at
    the witness)."""
    uses_derivatives = True

    def __init__(self, fam, part=None):
        self.fam = fam
        self.part = part or ('direct' if fam == 2 else 'chain')
        self.id = 'C18.pde.family%d' % fam + ('.amplitudes' if self.part == 'amplitudes' else '')
        self.m = m = H.mod(TM)
        self.modules = [m]
        self.functions = ([m.upart1, m.vpart1, m.gamma_one, m.gamma_three, m.theta_one, m.theta_three] if fam == 1 else
                          [m.upart2, m.vpart2, m.gamma_two, m.theta_two])
        self.bounds = ('x>=0, tau>0, eps>0, weight k and the integration variable%s symbolic'
                       % (' (a point of the circle eta^2+eta\'^2=1)' if fam == 1 else ''))
        self.timeout_s = 60
        self.timeout_thorough_s = 600
        self.tag = 'family %d: ' % fam

    def _pair(self, mk, x, tau):
        """(U, W): weighted u-integrand and weighted (v-u)-integrand of the family at (x, tau)"""
        m = self.m
        eps, k = mk('eps'), mk('k')
        with common_block(m, x, tau, eps):
            if self.fam == 1:
                e1, e1p = circle(mk)
                return k * m.upart1(e1), k * m.vpart1(e1p) * jacobian(mk, e1, e1p)
            e = mk('eta')
            E = expm(mk, tau)
            return k * E * m.upart2(e), -(k * E) * m.vpart2(e)

    def build(self, mk):
        x, tau = mk('x'), mk('tau')
        U, W = self._pair(mk, x, tau)
        if self.part != 'amplitudes':
            return {'U': U, 'W': W, 'k': mk('k')}
        if Mode.symbolic(mk):
            at = family1_atoms(U, W, mk('k'))
            if at is None:
                return {'ok': 0}
            Ut, Wt = Df.d(term_of(U), 'tau'), Df.d(term_of(W), 'tau')
            Uxx = Df.d(Df.d(term_of(U), 'x'), 'x')
            adds = residual_addends(U, W, SymReal(Ut), SymReal(Uxx), SymReal(Wt), mk('eps'))
            out = {'ok': 1}
            for i, row in enumerate(adds):
                for j, a in enumerate(row):
                    out['A%d%d' % (i, j)] = SymReal(T.substitute(T.substitute(term_of(a), at['unify']), at['strip']))
            # amplitudes of the two bare integrands (weight and Jacobian removed) for the hint L4a
            e1, e1p = circle(mk)
            out['eta_amp_u'] = e1 * SymReal(T.substitute(term_of(U), at['strip']))
            out['etap_amp_v'] = e1p * SymReal(T.substitute(T.substitute(term_of(W), at['unify']), at['strip'])) / jacobian(mk, e1, e1p)
            return out
        # numeric twin: the addends of the real residual (own finite differences of the real integrands)
        ht, hx = 1e-3 * max(abs(tau), 1e-3), 2e-3 * max(1.0, abs(x))
        f = lambda dx, dt: self._pair(mk, x + dx, tau + dt)
        (U1, W1), (U2, W2), (U3, W3), (U4, W4) = f(0, ht), f(0, -ht), f(0, ht / 2), f(0, -ht / 2)
        Ut = (4 * (U3 - U4) / ht - (U1 - U2) / (2 * ht)) / 3
        Wt = (4 * (W3 - W4) / ht - (W1 - W2) / (2 * ht)) / 3
        v = [f(i * hx, 0)[0] for i in (-2, -1, 0, 1, 2)]
        Uxx = (-v[0] + 16 * v[1] - 30 * v[2] + 16 * v[3] - v[4]) / (12 * hx * hx)
        adds = residual_addends(U, W, Ut, Uxx, Wt, mk('eps'))
        out = {'ok': 1}
        for i, row in enumerate(adds):
            for j, a in enumerate(row):
                out['A%d%d' % (i, j)] = a
        return out

    def domain(self, V):
        return kernel_domain(V, self.fam == 1, self.fam == 2, stale=False)

    def claims(self, cx):
        tag = self.tag
        if self.part == 'amplitudes':
            cx.true(tag + 'each integrand is amplitude * one exp * one sin', cx['ok'] == 1)
            if cx['ok'] != 1:
                return
            l4a = tag + 'L4a eta*amplitude of upart1(eta) = eta\'*amplitude of vpart1(eta\') on the circle'
            rows = [[cx['A%d%d' % (i, j)] for j in range(3)] for i in range(2)]
            if cx.symbolic:
                hint = SymBool(T.eq(term_of(cx['eta_amp_u']), term_of(cx['etap_amp_v'])))
                cx.true(l4a, hint)
            else:
                hint = True
                for row in rows:
                    cx.zero(l4a, row)
            for label, row in zip(PDE_LABELS, rows):
                cx.zero(tag + label + ' L4 [amplitudes]', row, when=hint)
            return
        eps = cx.p('eps')
        U, W = (lambda c: c['U']), (lambda c: c['W'])
        Ut, Uxx, Wt, Wv = cx.d(U, 'tau'), d2_dx2(cx, U), cx.d(W, 'tau'), W(cx)
        pde = list(zip([tag + l for l in PDE_LABELS], residual_addends(U(cx), Wv, Ut, Uxx, Wt, eps)))
        if self.part == 'direct':
            for label, adds in pde:
                cx.zero(label, adds)
            return
        # chain (family 1)
        steps = ['each integrand is amplitude * one exp * one sin', 'L1 phases agree on the circle',
                 'L2 decay exponents agree on the circle']
        if not cx.symbolic:
            for step in steps:
                for label, adds in pde:
                    cx.zero(tag + step, adds)
            for label, adds in pde:
                for i in range(len(adds)):
                    cx.zero(label + ' L3 addend %d = weight*sin*exp*amplitude' % i, adds)
            return
        at = family1_atoms(U(cx), Wv, cx['k'])
        cx.true(tag + steps[0], at is not None)
        if at is None:
            return
        cx.eq(tag + steps[1], SymReal(at['sw'].args[1]), SymReal(at['su'].args[1]),
              when=congruence(cx, [SymReal(at['sw']), SymReal(at['su'])], names=('arccos',)))
        cx.eq(tag + steps[2], SymReal(at['ew'].args[1]), SymReal(at['eu'].args[1]))
        for label, adds in pde:
            for i, a in enumerate(adds):
                a1 = T.substitute(term_of(a), at['unify'])
                amp = T.substitute(a1, at['strip'])
                cx.true(label + ' L3 addend %d = weight*sin*exp*amplitude' % i, SymBool(T.eq(a1, T.mul(at['F'], amp))))
        from symx.engine import sym
        A, M, F = [sym('A%d' % i) for i in range(3)], [sym('M%d' % i) for i in range(3)], sym('F')
        hyp = SymBool(T.land(*([T.eq(a.t, T.mul(F.t, m_.t)) for a, m_ in zip(A, M)] + [T.eq((M[0] + M[1] + M[2]).t, T.ZERO)])))
        cx.zero(tag + 'glue: A_i = F*M_i and sum M_i = 0 imply sum A_i = 0', A, when=hyp)


class Marshak(Obligation):
    """every weighted u-integrand satisfies the homogeneous Marshak condition at x = 0 (the constant part, which
    carries the inhomogeneity 1, is checked by C18.structure.u)"""
    uses_derivatives = True

    def __init__(self):
        self.id = 'C18.marshak'
        self.m = m = H.mod(TM)
        self.modules = [m]
        self.functions = [m.upart1, m.upart2, m.gamma_one, m.gamma_two, m.theta_one, m.theta_two]
        self.bounds = 'tau>0, eps>0, weight k, integration variable symbolic; x symbolic for the derivative, then set to 0'
        self.timeout_s = 60

    def build(self, mk):
        m = self.m
        x, tau, eps, k, e = mk('x'), mk('tau'), mk('eps'), mk('k'), mk('eta')
        with common_block(m, x, tau, eps):
            return {'upart1': k * m.upart1(e), 'upart2': k * expm(mk, tau) * m.upart2(e)}

    def domain(self, V):
        return kernel_domain(V, False, True, stale=False)

    def claims(self, cx):
        s3 = cx.sqrt(3)
        for name in INTEGRANDS['u']:
            U = lambda c, name=name: c[name]
            U0, Ux0 = at_x0(cx, U)
            w = arccos_facts(cx, [U0, Ux0])
            cx.zero('homogeneous Marshak condition u - (2/sqrt3) u_x = 0 at x=0 for weighted %s' % name,
                    [U0, -2 * Ux0 / s3], when=w)


class Decay(Obligation):
    """Dirichlet normalisation (necessary for u -> 0 as x -> infinity).  upart1 is the only integrand whose
    amplitude is not integrable (like 1/eta at 0): as x -> infinity its integral tends to (pi/2) * lim eta*amplitude
    (Dirichlet integral) and every other integral to 0 (Riemann-Lebesgue), so u -> 0 needs
        u_const + cu1 * (pi/2) * lim_{eta->0} eta*amplitude(eta) = 0.
    Here: b = eta*amplitude satisfies, for all 0 < eta <= 1/2,  b > 0,  3 b^2 <= 1  and
    b^2 (3 + 4 eta^2 (eps + 4/3)) >= (1 - tau eta^2)^2 (when tau eta^2 <= 1), hence b -> 1/sqrt 3.
    C18.structure.u proves the matching statement about the weight: (cu1 pi/2)^2 = 3 u_const^2, cu1 < 0."""

    def __init__(self):
        self.id = 'C18.decay'
        self.m = m = H.mod(TM)
        self.modules = [m]
        self.functions = [m.upart1, m.gamma_one, m.theta_one, m.gamma_one_root]
        self.bounds = 'x>=0, tau>0, eps>0, 0<eta<=1/2 symbolic; amplitude = upart1 with its sin factor replaced by 1'
        self.timeout_s = 60
        self.timeout_thorough_s = 600

    def build(self, mk):
        m = self.m
        x, tau, eps, e = mk('x'), mk('tau'), mk('eps'), mk('eta')
        with common_block(m, x, tau, eps):
            P = m.upart1(e)
            if Mode.symbolic(mk):
                sins = _fn_nodes([term_of(P)], 'sin')
                amp = SymReal(T.substitute(term_of(P), dict((n, T.ONE) for n in sins)))
                return {'P': P, 'b': e * amp, 'nsin': len(sins)}
            m.jwant = 0
            return {'P': P, 'b': e * P / math.sin(m.gamma_one_root(e)), 'nsin': 1}

    def domain(self, V):
        return kernel_domain(V, False, True, stale=False) + [T.le(V('eta'), T.HALF)]

    def claims(self, cx):
        eta, tau, eps = cx.p('eta'), cx.p('tau'), cx.p('eps')
        b = cx['b']
        w = exp_bounds(cx, [b])
        cx.true('upart1 has exactly one oscillating factor', cx['nsin'] == 1)
        cx.gt('eta*amplitude > 0', b, 0)
        cx.le('upper envelope: 3 (eta*amplitude)^2 <= 1', 3 * b * b, 1, when=w)
        small = (tau * eta * eta <= 1)
        cx.ge('lower envelope: (eta*amplitude)^2 (3 + 4 eta^2 (eps + 4/3)) >= (1 - tau eta^2)^2',
              b * b * (3 + 4 * eta * eta * (eps + Fraction(4, 3))), (1 - tau * eta * eta) ** 2,
              when=(w & small) if cx.symbolic else small)


def _unclamped(builtin):
    """min/max with one concrete and one symbolic argument (the 1e-14 regularisation clamps of timmes.py):
    returns the symbolic argument, i.e. the clamp is taken to be inactive without asking the solver."""
    def f(a, b):
        sa, sb = isinstance(a, SymReal), isinstance(b, SymReal)
        if sa and not sb:
            return a
        if sb and not sa:
            return b
        return builtin(a, b)
    return f


class Structure(Kernel):
    """bookkeeping of one solution function on every branch"""
    def __init__(self, which, npieces):
        self.which = which
        self.npieces = npieces
        self._init('C18.structure.%s' % which,
                   'x>=0, tau>0, eps>0, eta, stale common block symbolic; %d symbolic sub-intervals + the terminating one '
                   'on each oscillatory branch; 2x2 branches' % npieces)

    def claims(self, cx):
        w = self.which
        g = lambda k: cx[w + ':' + k]
        cx.eq('%ssolution is affine in its integrals' % w, g('resid'), 0, scale=None if cx.symbolic else [1.0])
        if w == 'u':
            c0 = lambda c: c['u:const']
            cx.eq('constant part of u is 1 (inhomogeneous Marshak condition, trivial solution of the equations)', g('const'), 1)
            cx.eq('constant part of u does not depend on x', d_dx(cx, c0), 0, scale=None if cx.symbolic else [1.0])
            cx.eq('constant part of u does not depend on tau', cx.d(c0, 'tau'), 0, scale=None if cx.symbolic else [1.0])
            cw = g('c_upart1_1') * cx.const('PI') / 2
            cx.le('Dirichlet normalisation of the weight of INT upart1: (cu1 pi/2)^2 = 3 u_const^2 (rel 1e-12)',
                  cx.abs(cw * cw - 3 * g('const') * g('const')), 30 * TOL)
            cx.lt('weight of INT upart1 is negative', g('c_upart1_1'), 0)
        else:
            cx.eq('v has no constant part', g('const'), 0, scale=None if cx.symbolic else [1.0])
            cx.eq('v = u + integrals (weight of uans is 1)', g('c_uans'), 1)
        cx.eq('%ssolution leaves posx_in in the common block' % w, g('cb_posx'), cx.p('x'))
        cx.eq('%ssolution leaves tau_in in the common block' % w, g('cb_tau'), cx.p('tau'))
        cx.eq('%ssolution leaves epsilon_in in the common block' % w, g('cb_epsilon'), cx.p('eps'))
        for name in INTEGRANDS[w]:
            n = g('n_' + name)
            for k in range(1, n + 1):
                tag = '%s_%d' % (name, k)
                cx.eq('quad integrates %s of this call\'s (x, tau, eps)' % name, g('P_' + tag), g('R_' + name))
                if k > 1:
                    cx.eq('all pieces of %s carry the same weight' % name, g('c_' + tag), g('c_%s_1' % name))
                a, b = g('a_' + tag), g('b_' + tag)
                cx.le('piece of %s is an interval' % name, a, b)
                if ANCHOR[name] == 0:
                    prev = 0 if k == 1 else g('b_%s_%d' % (name, k - 1))
                    cx.eq('pieces of %s tile [0, .] upwards from 0' % name, a, prev)
                    far = b
                else:
                    prev = 1 if k == 1 else g('a_%s_%d' % (name, k - 1))
                    cx.eq('pieces of %s tile [., 1] downwards from 1' % name, b, prev)
                    far = a
                if not g('osc_' + name):
                    cx.eq('non-oscillatory %s is integrated over the whole of [0,1]' % name, far, 1 - ANCHOR[name])
                    cx.true('non-oscillatory %s is integrated in one piece' % name, n == 1)


class Split(Kernel):
    """The oscillatory integrals are split where the integrand vanishes: every split point returned by brentq for
    the root function the code pairs with an integrand is a zero of that integrand.  Here (only) the 1e-14 clamps
    are taken to be inactive without a solver query (each would put a nested-root inequality at every split
    point into the path condition); that they are inactive on the stated domain is established by the path
    exploration of pde.*, marshak, decay and structure.*, which run the unmodified min/max and find the clamped
    branches infeasible."""
    fam1 = fam2 = False
    uses_derivatives = False

    def __init__(self, name, npieces, part='phase'):
        self.name = name
        self.part = part
        self.which = name[0]
        self.npieces = npieces
        self.edges = (name,)
        self._init('C18.split.%s' % name + ('.gamma' if part == 'gamma' else ''),
                   'x>=0, tau>0, eps>0 symbolic; split point = any zero of the real root function strictly inside the '
                   'clamps; %d split points on the oscillatory branch; 1e-14 clamps taken as inactive' % (npieces + 1))
        self.extra_shim = {'max': _unclamped(max), 'min': _unclamped(min)}

    def build(self, mk):
        out = Kernel.build(self, mk)
        key = self.which + ':osc_' + self.name
        if not Mode.symbolic(mk):
            if out[key]:
                return out
            # numeric replay: in the symbolic run the decision `oscillatory or not' is nondeterministic, so a
            # witness need not have an x at which the real code splits this integral.  The claims hold for every
            # x: look for split points at larger x with the other inputs of the witness.
            for x2 in (1.0, 3.0, 10.0, 30.0, 100.0):
                try:
                    o2 = Kernel.build(self, lambda n: x2 if n == 'x' else mk(n))
                except Exception:
                    continue
                if o2[key]:
                    return o2
            return out
        if self.part != 'gamma':
            return out
        # part 'gamma': only the x-coefficients of root function and phase leave build (no arccos atom reaches
        # the encoder, so that a witness for a wrong pairing is found quickly)
        red = dict((k, v) for k, v in out.items() if ':n_' in k or ':osc_' in k)
        w, name = self.which, self.name
        for k in range(1, out[w + ':n_' + name] + 1):
            tag = '%s_%d' % (name, k)
            if (w + ':edge_' + tag) in out:
                sins = _fn_nodes([term_of(out[w + ':edge_' + tag])], 'sin')
                red[w + ':nsin_' + tag] = len(sins)
                if len(sins) == 1:
                    red[w + ':gq_' + tag] = SymReal(Df.d(term_of(out[w + ':rooteq_' + tag]), 'x'))
                    red[w + ':gp_' + tag] = SymReal(Df.d(sins[0].args[1], 'x'))
        return red

    def claims(self, cx):
        w, name = self.which, self.name
        n = cx[w + ':n_' + name]
        seen = False
        for k in range(1, n + 1):
            tag = '%s_%d' % (name, k)
            if self.part == 'gamma' and cx.symbolic:
                if (w + ':nsin_' + tag) in cx:
                    seen = True
                    cx.true(SPLIT_L1 % name, cx[w + ':nsin_' + tag] == 1)
                    if cx[w + ':nsin_' + tag] == 1:
                        cx.eq(SPLIT_L3G % name, cx[w + ':gq_' + tag], cx[w + ':gp_' + tag])
            elif (w + ':edge_' + tag) in cx:
                seen = True
                if self.part == 'gamma':
                    for l in (SPLIT_L1, SPLIT_L3G):
                        cx.eq(l % name, cx[w + ':edge_' + tag], 0, scale=[1.0], tol=1e-3)
                else:
                    split_claims(cx, name, cx[w + ':edge_' + tag], cx[w + ':j_' + tag], cx[w + ':rooteq_' + tag])
        if not seen:
            cx.true('no split point on the non-oscillatory branch of %s' % name, not cx[w + ':osc_' + name])


def obligations(tier):
    thorough = tier == 'thorough'
    w = Weights()
    w.npieces = 2 if thorough else 1
    obs = [SoWave(), SoWaveRealValued(), w, PdeFamily(2), PdeFamily(1), PdeFamily(1, 'amplitudes'), Marshak(), Decay(),
           Structure('u', 3 if thorough else 1), Structure('v', 3 if thorough else 1)]
    obs += [Split(name, 2 if thorough else 1, part) for w_ in 'uv' for name in INTEGRANDS[w_] for part in ('gamma', 'phase')]
    return obs
