"""Shared symbolic run of the escape-of-HE-products solver (C01, C02, C03, C10, C17)."""
from fractions import Fraction
import numpy as np

from symx import terms as T
from symx.engine import SymReal, SymBool, term_of, lift
from symx.framework import V
from symx.shim import Recorder
from . import common as H
from .common import K, Mode

EM = 'exactpack.solvers.ehep.ehep'


class _SymPath(object):
    """matplotlib.path.Path stand-in: strict point-in-convex-polygon predicate on symbolic corners
    (all edge cross products have the same sign).  Convexity of the corner lists is asserted separately."""

    def __init__(self, corners):
        self.corners = list(corners)

    def contains_point(self, p):
        cs = self.corners
        n = len(cs)
        pos, neg = [], []
        for i in range(n):
            (x0, y0), (x1, y1) = cs[i], cs[(i + 1) % n]
            cr = (x1 - x0) * (p[1] - y0) - (y1 - y0) * (p[0] - x0)
            t = lift(cr)
            pos.append(T.gt(t, T.ZERO))
            neg.append(T.lt(t, T.ZERO))
        return SymBool(T.lor(T.land(*pos), T.land(*neg)))


class PathModule(object):
    Path = _SymPath


def shim_extra():
    return {'path': PathModule(), 'ExactSolution': Recorder}


PARAMS = ('D', 'rho_0', 'up', 'xtilde', 'xmax', 'tmax')


def run(mk, x=None, t=None):
    m = H.mod(EM)
    s = m.EscapeOfHEProducts(**{n: mk(n) for n in PARAMS})
    if Mode.symbolic(mk):
        # points exactly on a region boundary are outside the claim (measure zero)
        s.point_on_boundary = lambda corners, point, tol=1e-12: False
    x = mk('x') if x is None else x
    t = mk('t') if t is None else t
    sol = s(H.arr([x]), t)
    f = H.fields(sol)
    out = {}
    for k, v in f.items():
        if k == 'region':
            r = v[0]
            out['_region'] = None if r is None or str(r) == 'None' else str(r)
        else:
            out[k] = v[0] if isinstance(v, np.ndarray) else v
    out['_corners'] = s.corners
    return out, s


def domain(V):
    return [T.gt(V('t'), T.ZERO), T.gt(V('x'), T.ZERO)]
