"""C03 -- thermodynamic fields returned together satisfy the declared EOS."""
from fractions import Fraction
import numpy as np

from symx import terms as T
from symx.framework import Obligation, V
from symx.shim import Recorder
from symx.engine import SymBool
from . import common as H
from .common import K, Mode

EXPLANATION = ('Each solver is executed on symbolic reals (parameters, position, time); on every feasible '
               'path the fields handed to ExactSolution(...) are taken BY NAME and z3 is asked for an input with '
               'p != (gamma-1) rho e (or the closure the solver declares). unsat = the closure holds for every '
               'real input on that path.  Likewise: assembled Riemann fields at a user point (each side its own gamma), EHEP, Mader constant state, '
               'SDRZ (c^2 rho = gamma p and Bernoulli with heat release), EP piston states on the independently stated Mie-Gruneisen '
               'surface, general-EOS Riemann states at the wave positions (JWL form in the thorough tier), and the public GenEOS_Solver._run '
               'on a stub driver with an arbitrary self-similar 3-node table (parameters reach the driver unchanged; every returned field '
               'is the interpolant of its own table, energies of either sign).')
BOUNDS = ['arrays of 1 point (the closure is pointwise)', 'geometry enumerated 1,2,3']
OUTSIDE = ['values produced inside SciPy integrations (Sedov/Guderley/RMTV profiles): only the Python-level '
           'closure that derives one returned field from the others is checked',
           'Mader inside the fan and in the transition cell: the solver returns cell averages of p and rho next to the '
           'cell-centre sound speed (documented grid dependence), so the pointwise closure holds to O(dx^2) only; its constant '
           'state is covered', 'radiative shocks: ideal-gas closure per profile node is part of C12; black-box Noh: C16/C02',
           'general-EOS Riemann solver: states at the wave positions on small tables (see C04), JWL flag in the thorough tier']
ASSUMPTIONS = []
META = {
    'level_text': ('Bounded symbolic check of the real _run code: for every solver covered, all real parameters, the '
                   'position and the time are symbolic and z3 proves on every feasible path that the fields returned '
                   'under the names pressure/density/specific_internal_energy/temperature/sound speed satisfy the declared '
                   'closure; geometry (and gamma where the solver fixes it) enumerated. Not a proof: floats are read as reals '
                   'and SciPy-produced profiles are outside.'),
    'level_note': ('Trusted: z3, the symx proxies/shims (validated per path by evaluating the terms and the unshimmed code at '
                   'a solver-chosen point), the catalogue of which closure each solver declares (harness/C03.py, from the '
                   'docstrings).'),
}


class CogEOS(Obligation):
    def __init__(self, name, geom):
        self.name = name
        self.geom = geom
        self.m, self.cls = H.cog_class(name)
        self.id = 'C03.%s.g%s' % (name.lower(), geom if geom else 'fixed')
        self.modules = [self.m]
        self.extra_shim = {'ExactSolution': Recorder, 'print': H.quiet_print}
        self.functions = [self.cls._run]
        self.bounds = 'all declared real parameters, r>0, t>0 symbolic; geometry fixed per obligation'
        if name in ('Cog8', 'Cog9', 'Cog11', 'Cog12', 'Cog13', 'Cog14', 'Cog16', 'Cog17', 'Cog18'):
            pass

    def build(self, mk):
        attrs = {p: mk(p) for p in H.COG[self.name]['params']}
        if self.geom:
            attrs['geometry'] = self.geom
        s = H.new_solver(self.cls, attrs)
        out = H.first(H.run_1d(s, mk))
        out['_gamma'] = H.cog_gamma(self.name, self.geom, mk)
        out['_Gamma'] = mk('Gamma')
        return out

    def domain(self, V):
        d = [T.gt(V('r'), T.ZERO), T.gt(V('t'), T.ZERO), T.gt(V('Gamma'), T.ZERO)]
        ps = H.COG[self.name]['params']
        for p in ('rho0', 'temp0', 'tau', 'R0', 'Ri', 'lambda0'):
            if p in ps:
                d.append(T.gt(V(p), T.ZERO))
        if 'gamma' in ps:
            if self.name in ('Cog4', 'Cog12'):      # documented: T > 0 only for gamma < 1
                d += [T.gt(V('gamma'), T.ZERO), T.lt(V('gamma'), T.ONE)]
            else:
                d.append(T.gt(V('gamma'), T.ONE))
        if 'tau' in ps:
            d.append(T.lt(V('t'), V('tau')))
        return d

    def claims(self, cx):
        g = cx['_gamma']
        G = cx['_Gamma']
        p, rho, e, Tm = cx['pressure'], cx['density'], cx['specific_internal_energy'], cx['temperature']
        cx.eq('p=Gamma*rho*T', p, G * rho * Tm)
        cx.eq('e=Gamma*T/(gamma-1)', e * (g - 1), G * Tm)
        cx.eq('p=(gamma-1)*rho*e', p, (g - 1) * rho * e)


class NohEOS(Obligation):
    def __init__(self, geom):
        self.geom = geom
        self.m = H.mod('exactpack.solvers.noh.noh1')
        self.id = 'C03.noh.g%d' % geom
        self.modules = [self.m]
        self.extra_shim = {'ExactSolution': Recorder}
        self.functions = [self.m.Noh._run]
        self.bounds = 'gamma>1, u0<0, rho0>0, r>0, t>0 all symbolic; geometry fixed per obligation'

    def build(self, mk):
        s = H.new_solver(self.m.Noh, dict(geometry=self.geom, gamma=mk('gamma'), u0=mk('u0'), rho0=mk('rho0')))
        out = H.first(H.run_1d(s, mk))
        out['_gamma'] = mk('gamma')
        return out

    def domain(self, V):
        return [T.gt(V('gamma'), T.ONE), T.lt(V('u0'), T.ZERO), T.gt(V('rho0'), T.ZERO),
                T.gt(V('r'), T.ZERO), T.gt(V('t'), T.ZERO)]

    def claims(self, cx):
        g = cx['_gamma']
        cx.eq('p=(gamma-1)*rho*e', cx['pressure'], (g - 1) * cx['density'] * cx['specific_internal_energy'])


class Noh2EOS(Obligation):
    def __init__(self, geom, which):
        self.geom = geom
        self.which = which
        if which == 'noh2':
            self.m = H.mod('exactpack.solvers.noh2.noh2')
            self.cls = self.m.Noh2
            self.modules = [self.m]
        else:
            self.m = H.mod('exactpack.solvers.noh2.noh2_cog')
            self.cls = self.m.Noh2Cog
            self.modules = [self.m, H.mod('exactpack.solvers.cog.cog1')]
        self.id = 'C03.%s.g%d' % (which, geom)
        self.extra_shim = {'ExactSolution': Recorder}
        self.functions = [self.cls._run]
        self.bounds = 'gamma>1, rho0>0, e0>0, r>0, 0<t<1 symbolic; geometry fixed per obligation'

    def build(self, mk):
        kw = dict(geometry=self.geom, gamma=mk('gamma'), rho0=mk('rho0'), e0=mk('e0'))
        s = self.cls(**kw)      # real constructor (Noh2Cog derives temp0 there)
        out = H.first(H.run_1d(s, mk))
        out['_gamma'] = mk('gamma')
        return out

    def domain(self, V):
        return [T.gt(V('gamma'), T.ONE), T.gt(V('rho0'), T.ZERO), T.gt(V('e0'), T.ZERO),
                T.gt(V('r'), T.ZERO), T.gt(V('t'), T.ZERO), T.lt(V('t'), T.ONE)]

    def claims(self, cx):
        g = cx['_gamma']
        cx.eq('p=(gamma-1)*rho*e', cx['pressure'], (g - 1) * cx['density'] * cx['specific_internal_energy'])


class GuderleyEOS(Obligation):
    replay_limit_s = 300        # the real Guderley solve takes 20-40 s on an idle core, several times that under load
    def __init__(self, n, gamma):
        from . import guderley_common as G
        self.G = G
        self.n, self.gamma = n, gamma
        self.id = 'C03.guderley.n%d.gamma=%s' % (n, gamma)
        self.m = H.mod(G.GM)
        self.modules = [self.m]
        self.extra_shim = G.shim_extra()
        self.functions = [self.m.state]
        self.bounds = 'r, rho0, similarity exponent lambda, reflected-shock position B, similarity coordinate x symbolic; gamma fixed; solve_ivp replaced by fresh end values; every branch of state() = path'
        self.skip_validation = True

    def build(self, mk):
        out = self.G.run_state(mk, self.n, self.gamma)
        out['_gamma'] = K(mk, self.gamma)
        return out

    def domain(self, V):
        return [T.gt(V('r'), T.ZERO), T.gt(V('rho0'), T.ZERO), T.gt(V('lam'), T.ONE), T.gt(V('B'), T.ZERO), T.ne(V('x'), T.ZERO)]

    def claims(self, cx):
        g = cx['_gamma']
        cx.eq('p=(gamma-1)*rho*e', cx['pressure'], (g - 1) * cx['density'] * cx['specific_internal_energy'])
        cx.eq('c^2=gamma*p/rho', cx['sound_speed'] * cx['sound_speed'] * cx['density'], g * cx['pressure'])


class SedovEOS(Obligation):
    """final lines of Sedov._run: specific_internal_energy and sound_speed are derived from the interpolated pressure and
    density.  The whole _run is executed with npts=2, fminbound and interp1d replaced by stubs returning fresh values."""

    def __init__(self, geom, gamma):
        from . import sedov_common as S
        self.S = S
        self.geom, self.gamma = geom, gamma
        self.id = 'C03.sedov.g%d.gamma=%s' % (geom, gamma)
        self.modules = [H.mod(S.SM)]
        self.functions = [H.mod(S.SM).Sedov._run]
        self.bounds = 'rho0, eblast, omega, r, t symbolic; gamma fixed; internal table of 2 points; interpolated pressure/density are fresh positive symbols'
        self.skip_validation = True
        self.max_paths = 80

    def shim_extra(self):
        import scipy.optimize as so
        from symx.engine import current
        S = self.S

        def fminbound(f, a, b, **kw):
            return current().fresh('vwant')

        def interp1d(x, y, **kw):
            def g(q):
                q = np.asarray(q, dtype=object)
                out = np.empty(q.shape, dtype=object)
                for i in range(out.size):
                    v = current().fresh('interp')
                    current().assume(T.gt(v.t, T.ZERO))
                    out.flat[i] = v
                return out
            return g
        d = S.shim_extra(cut_at_jump=False)
        d.update({'sci_opt': H.ModProxy(so, fminbound=fminbound), 'interp1d': interp1d, 'ExactSolution': Recorder})
        return d

    def build(self, mk):
        s = self.S.make(mk, self.geom, self.gamma)
        if Mode.symbolic(mk):
            sol = s._run(H.arr([mk('r')]), mk('t'), npts=2)
        else:
            sol = s(np.array([float(mk('r'))]), mk('t'))
        out = H.first(H.fields(sol))
        out['_gamma'] = K(mk, self.gamma)
        return out

    def domain(self, V):
        return self.S.domain(V, self.geom)

    def claims(self, cx):
        g = cx['_gamma']
        p, rho, e, c = cx['pressure'], cx['density'], cx['specific_internal_energy'], cx['sound_speed']
        if isinstance(p, float) and p != p:
            return
        pos = (rho > 0) if cx.symbolic else bool(rho > 0)
        cx.eq('p=(gamma-1)*rho*e', p, (g - 1) * rho * e, when=pos)
        cx.eq('c^2=gamma*p/rho', c * c * rho, g * p, when=pos)


class GenEOSWrapper(Obligation):
    """the public GenEOS_Solver._run hands the user the DRIVER's states: the real _run is executed with RiemannGenEOS replaced
    by a stub whose driver() leaves a 3-node table of ARBITRARY symbolic values (energies of either sign, as JWL states have);
    every returned field at a user point is the linear interpolant of its OWN table, and every state/EOS parameter reaches the
    driver unchanged.  Together with the closure of the driver's states (geos obligations) this is the JWL form of the returned
    (p, rho, e)."""
    NAMES = ('rl', 'ul', 'pl', 'gl', 'rr', 'ur', 'pr', 'gr', 'A', 'B', 'R1', 'R2', 'r0', 'e0', 'xd0')

    def __init__(self, prefix='C03', repeat=False):
        from . import riemann_common as R
        self.R = R
        self.repeat = repeat
        self.id = '%s.geos.wrapper%s' % (prefix, '-repeat' if repeat else '')
        self.ep = H.mod(R.EP)
        self.modules = [self.ep]
        self.functions = [self.ep.GenEOS_Solver._run]
        self.bounds = ('states, JWL constants, membrane, time, one user point symbolic; driver output = 3-node table of arbitrary '
                       'symbolic (x, p, rho, u, e), x increasing')
        self.skip_validation = True
        self.max_paths = 40
        self._cur = {}
        from symx.shim import sym_interp
        self.extra_shim = {'riemann': self._stub_module(), 'interp': sym_interp, 'ExactSolution': Recorder}

    def _stub_module(self):
        real = H.mod(self.R.RM)
        cur = self._cur

        class StubGenEOS(object):
            def __init__(s_, **kw):
                cur['seen'].update(kw)

            def driver(s_, *a):
                mk = cur['mk']
                # a self-similar table, as the real driver leaves it: nodes at xd0 + t w_k for the t and xd0 it was given
                s_.t, s_.xd0 = cur['seen']['t'], cur['seen']['xd0']
                w0 = mk('w0')
                xs = [s_.xd0 + s_.t * w for w in (w0, w0 + mk('dw1'), w0 + mk('dw1') + mk('dw2'))]
                s_.x = H.arr(xs)
                for f in ('p', 'r', 'u', 'e'):
                    setattr(s_, f, H.arr([mk('%s%d' % (f, k)) for k in range(3)]))
                s_.Vregs = [0.0]
                s_.soln_type = 'RCR'
        return H.ModProxy(real, RiemannGenEOS=StubGenEOS)

    def build(self, mk):
        seen = {}
        self._cur.update(mk=mk, seen=seen)
        vals = {n: mk(n) for n in self.NAMES}
        sol = self.ep.GenEOS_Solver(problem='JWL', xmin=vals['xd0'] - 1, xmax=vals['xd0'] + 1, **vals)
        stub = self.extra_shim['riemann']
        x, t = mk('x'), mk('t')
        if Mode.symbolic(mk):
            if self.repeat:
                sol._run(H.arr([mk('x_before')]), mk('t_before'))       # an arbitrary earlier call on the same object
            res = sol._run(H.arr([x]), t)
        else:
            real = self.ep.riemann
            self.ep.riemann = stub
            try:
                if self.repeat:
                    sol(np.array([float(mk('x_before'))]), mk('t_before'))
                res = sol(np.array([float(x)]), t)
            finally:
                self.ep.riemann = real
        out = H.first(H.fields(res))
        out.update({'in_' + n: vals[n] for n in self.NAMES})
        out.update({'kw_' + n: seen.get(n) for n in self.NAMES})
        out['kw_t'], out['in_t'] = seen.get('t'), t
        out['_problem'] = seen.get('problem')
        out['x'] = x
        for n in ('w0', 'dw1', 'dw2'):
            out[n] = mk(n)
        for f in ('p', 'r', 'u', 'e'):
            for k in range(3):
                out['%s%d' % (f, k)] = mk('%s%d' % (f, k))
        return out

    def domain(self, V):
        return [T.gt(V('dw1'), T.ZERO), T.gt(V('dw2'), T.ZERO), T.gt(V('t'), T.ZERO)] + ([T.gt(V('t_before'), T.ZERO)] if self.repeat else [])

    def claims(self, cx):
        x, t, xd0 = cx['x'], cx['in_t'], cx['in_xd0']
        x0 = xd0 + t * cx['w0']
        x1 = xd0 + t * (cx['w0'] + cx['dw1'])
        x2 = xd0 + t * (cx['w0'] + cx['dw1'] + cx['dw2'])
        for n in (() if self.repeat else self.NAMES + ('t',)):
            cx.eq('parameter %s reaches the driver unchanged' % n, cx['kw_' + n], cx['in_' + n])
        if not self.repeat:
            cx.true('the EOS flag reaches the driver', SymBool(T.TRUE if cx['_problem'] == 'JWL' else T.FALSE) if cx.symbolic else cx['_problem'] == 'JWL')
        for name, f in (('pressure', 'p'), ('density', 'r'), ('velocity', 'u'), ('specific_internal_energy', 'e')):
            a, b, c = cx[f + '0'], cx[f + '1'], cx[f + '2']
            lo = (x >= x0) & (x <= x1) if cx.symbolic else bool(x0 <= x <= x1)
            hi = (x > x1) & (x <= x2) if cx.symbolic else bool(x1 < x <= x2)
            cx.eq('%s = interpolant of the driver\'s own %s table (first interval)' % (name, f), cx[name], a + (b - a) * (x - x0) / (x1 - x0), when=lo)
            cx.eq('%s = interpolant of the driver\'s own %s table (second interval)' % (name, f), cx[name], b + (c - b) * (x - x1) / (x2 - x1), when=hi)


class RiemannPointEOS(Obligation):
    """the assembled ideal-gas Riemann fields at a user point satisfy p = (g_side - 1) rho e with the gamma of the side of the
    contact the point is on (covers every region incl. both star regions and the fans, unequal gammas)"""

    def __init__(self, gl, gr, only):
        from . import riemann_common as R
        self.R = R
        self.gl, self.gr, self.only = gl, gr, only
        self.id = 'C03.riemann.%s.gl=%s.gr=%s' % (only, gl, gr)
        self.cost = 5           # scheduling hint for the thorough tier: the heavy extras go last
        self.modules = R.modules()
        self.extra_shim = dict(R.shim_extra_point(), bisect=R.bisect_only(only))
        self.functions = [H.mod(R.RM).RiemannIGEOS.driver, H.mod(R.EP).IGEOS_Solver._run, H.mod(R.UM).sie, H.mod(R.UM).rho_p_u_rarefaction]
        self.bounds = 'left/right states, membrane position, time and ONE user point symbolic; gamma pair fixed; one wave pattern per obligation; every region = path'
        self.skip_validation = True
        self.max_paths = 1500
        self.timeout_s = 15

    def build(self, mk):
        out = self.R.run_point(mk, self.gl, self.gr)
        if Mode.symbolic(mk) and out['pattern'] != self.only:
            from symx.engine import PathAbort
            raise PathAbort()
        pat = out['pattern']
        ic = 1 if pat[0] == 'S' else 2
        d = {k: out[k] for k in ('density', 'pressure', 'velocity', 'specific_internal_energy', 'gl', 'gr')}
        d['contact'] = out['xd0'] + out['t'] * out['Vregs'][ic]
        d['x'] = mk('x')
        d['_pattern'] = pat
        return d

    def domain(self, V):
        return self.R.domain(V)

    def claims(self, cx):
        x, xc = cx['x'], cx['contact']
        p, rho, e = cx['pressure'], cx['density'], cx['specific_internal_energy']
        left = (x < xc) if cx.symbolic else bool(x < xc - 1e-9 * (1 + abs(xc)))
        right = (x > xc) if cx.symbolic else bool(x > xc + 1e-9 * (1 + abs(xc)))
        cx.eq('left of the contact: p=(gl-1)*rho*e', p, (cx['gl'] - 1) * rho * e, when=left)
        cx.eq('right of the contact: p=(gr-1)*rho*e', p, (cx['gr'] - 1) * rho * e, when=right)


class RmtvEOS(Obligation):
    """RMTV rmtv_1d (root find, quadrature and ODE integration replaced by contract stubs): the returned temperature, energy,
    pressure and density obey p = (gamma-1) rho e and e = Gamma T/(gamma-1) in the documented units
    (energy in erg/g = 1e16 jerk, temperature in eV = 1e-3 keV: e (gamma-1) = Gamma T * 1e13);  also serves C06: the module
    globals are set to arbitrary symbols first and no output may depend on them."""

    def __init__(self):
        from . import guderley_common as G
        self.G = G
        self.m = H.mod('exactpack.solvers.rmtv.timmes')
        self.id = 'C03.rmtv'
        self.modules = [self.m]
        from symx.engine import current

        def quad(f, a, b, **kw):
            return (current().fresh('quad'), 0.0)
        self.extra_shim = {'solve_ivp': G.solve_ivp_stub, 'quad': quad, 'print': H.quiet_print}
        self.functions = [self.m.rmtv_1d, self.m.derivs]
        self.bounds = 'all eleven arguments of rmtv_1d symbolic; brentq/quad/solve_ivp replaced by fresh values; module globals pre-set to arbitrary symbols; every branch = path'
        self.skip_validation = True
        self.max_paths = 200

    GL = ('aval', 'bval', 'xif', 'beta0', 'xgeom', 'alpha', 'amu', 'kappa', 'sigma')

    def build(self, mk):
        names = ('rpos', 'aval_in', 'bval_in', 'chi0', 'gamma', 'bigamma', 'rf', 'xif_in', 'xis', 'beta0_in', 'g0')
        if Mode.symbolic(mk):
            for g in self.GL:
                setattr(self.m, g, mk('pre_' + g))
            out = self.m.rmtv_1d(*[mk(n) for n in names])
        else:
            # replay on the real numerics at the documented default problem, with the witness's Gruneisen coefficient and gamma
            from exactpack.solvers.rmtv import Rmtv
            d = Rmtv()
            kw = dict(aval_in=d.aval, bval_in=d.bval, chi0=d.chi0, gamma=abs(mk('gamma') - 1) + 1.05, bigamma=abs(mk('bigamma')) + 0.5,
                      rf=d.rf, xif_in=d.xif, xis=d.xis, beta0_in=d.beta0, g0=d.g0)
            out = self.m.rmtv_1d(0.5 * d.rf, *[kw[n] for n in names[1:]])
            return dict(zip(('density', 'temperature', 'energy', 'pressure', 'velocity'), out), _gamma=kw['gamma'], _Gamma=kw['bigamma'])
        return dict(zip(('density', 'temperature', 'energy', 'pressure', 'velocity'), out), _gamma=mk('gamma'), _Gamma=mk('bigamma'))

    def domain(self, V):
        return [T.gt(V(n), T.ZERO) for n in ('rpos', 'chi0', 'bigamma', 'rf', 'xif_in', 'xis', 'beta0_in', 'g0')] + [T.gt(V('gamma'), T.ONE)]

    def claims(self, cx):
        g, G = cx['_gamma'], cx['_Gamma']
        p, rho, e, Tm = cx['pressure'], cx['density'], cx['energy'], cx['temperature']
        cx.eq('p=(gamma-1)*rho*e', p, (g - 1) * rho * e)
        cx.eq('e=Gamma*T/(gamma-1) (erg/g vs eV: factor 1e13)', e * (g - 1), G * Tm * 10 ** 13)
        if cx.symbolic:
            for k in ('density', 'temperature', 'energy', 'pressure', 'velocity'):
                t = H.term_of(cx[k])
                sub = {T.var(nm): T.var(nm + '_alt') for nm in T.free_vars(t) if nm.startswith('pre_')}
                if sub:
                    from symx.engine import SymReal
                    cx.eq('%s does not depend on module globals left by earlier evaluations' % k, cx[k], SymReal(T.substitute(t, sub)))


class EHEPEOS(Obligation):
    """escape of HE products: polytropic products with gamma = 3 in every region the solver distinguishes"""

    def __init__(self):
        from . import ehep_common as E
        self.E = E
        self.m = H.mod(E.EM)
        self.id = 'C03.ehep'
        self.modules = [self.m]
        self.extra_shim = E.shim_extra()
        self.functions = [self.m.EscapeOfHEProducts._run, self.m.EscapeOfHEProducts.p_rho]
        self.bounds = 'D, rho_0, up, xtilde, xmax, tmax, x, t symbolic; every region = a path'
        self.max_paths = 80

    def build(self, mk):
        out, s = self.E.run(mk)
        out.pop('_corners')
        return out

    def domain(self, V):
        return self.E.domain(V)

    def claims(self, cx):
        if cx['_region'] is None:
            return
        rho, p, e, c = cx['density'], cx['pressure'], cx['specific_internal_energy'], cx['sound_speed']
        tag = 'region %s: ' % cx['_region']
        cx.eq(tag + 'p = (gamma-1) rho e with gamma = 3', p, 2 * rho * e)
        cx.eq(tag + 'c^2 rho = gamma p with gamma = 3', c * c * rho, 3 * p)


class MaderEOS(Obligation):
    def __init__(self, gamma):
        self.gamma = gamma
        self.m = H.mod('exactpack.solvers.mader.rarefaction')
        self.id = 'C03.mader.gamma=%s' % gamma
        self.modules = [self.m]
        self.functions = [self.m.rare]
        self.bounds = 'time, x, dx, p_cj, d_cj, u_piston symbolic; gamma fixed; claims on the constant-state branch (fan values are cell averages)'
        self.max_paths = 50

    def build(self, mk):
        g = K(mk, self.gamma)
        r = self.m.rare(mk('time'), mk('xlab'), mk('dx'), mk('p_cj'), mk('d_cj'), g, mk('u_piston'))
        um = (g - 1) * (mk('d_cj') / (g + 1) - 2 * (g * mk('d_cj') / (g + 1)) / (g - 1)) / (g + 1)
        xp = (g + 1) / 2 * mk('time') * (mk('u_piston') - um)            # fan tail (lagrangian distance from the front)
        return {'u': r[0], 'p': r[1], 'c': r[2], 'rho': r[3], 'xdet': r[4], '_g': g, '_pcj': mk('p_cj'), '_dcj': mk('d_cj'),
                '_xp': xp, '_dx': mk('dx')}

    def domain(self, V):
        return [T.gt(V(n), T.ZERO) for n in ('time', 'dx', 'p_cj', 'd_cj')] + [T.ge(V('u_piston'), T.ZERO)]

    def claims(self, cx):
        g = cx['_g']
        # inside the fan the solver returns CELL AVERAGES of p and rho next to the cell-centre sound speed (documented grid
        # dependence): the pointwise closure then holds only to O(dx^2) and is outside the claim.  The constant state behind
        # the fan tail is exact.
        c_ = cx['xdet'] < cx['_xp'] - cx['_dx'] / 10
        burnt = c_ if cx.symbolic else bool(c_)
        cx.eq('c^2 rho = gamma p', cx['c'] * cx['c'] * cx['rho'], g * cx['p'], when=burnt)
        # the products expand isentropically from the CJ state: p / rho^gamma = p_cj / rho_cj^gamma,
        # rho_cj = (gamma+1)/gamma rho_0, rho_0 = (gamma+1) p_cj / d_cj^2   (integer powers: gamma = n/q)
        fr = Fraction(self.gamma)
        n, q = fr.numerator, fr.denominator
        rho0 = (g + 1) * cx['_pcj'] / (cx['_dcj'] * cx['_dcj'])
        rcj = (g + 1) / g * rho0
        cx.eq('isentrope through the CJ state: p^q rho_cj^n = p_cj^q rho^n', cx['p'] ** q * rcj ** n, cx['_pcj'] ** q * cx['rho'] ** n,
              when=burnt)


class SDRZEOS(Obligation):
    def __init__(self):
        self.m = H.mod('exactpack.solvers.sdrz.sdrz')
        self.id = 'C03.sdrz'
        self.modules = [self.m]
        self.extra_shim = {'ExactSolution': Recorder}
        self.functions = [self.m.SteadyDetonationReactionZone.__init__, self.m.SteadyDetonationReactionZone.run_tvec]
        self.bounds = 'D, rho_0, gamma and one particle time t > 0 symbolic (t <= 1 and t > 1 paths)'

    def build(self, mk):
        s = self.m.SteadyDetonationReactionZone(D=mk('D'), rho_0=mk('rho_0'), gamma=mk('gamma'))
        f = H.first(H.fields(s.run_tvec(H.arr([mk('t')]))))
        out = {k: f[k] for k in ('density', 'pressure', 'sound_speed', 'velocity', 'reaction_progress')}
        out['_g'], out['_D'], out['_rho0'] = mk('gamma'), mk('D'), mk('rho_0')
        return out

    def domain(self, V):
        return [T.gt(V('t'), T.ZERO), T.gt(V('gamma'), T.ONE), T.gt(V('D'), T.ZERO), T.gt(V('rho_0'), T.ZERO)]

    def claims(self, cx):
        g, D, rho0 = cx['_g'], cx['_D'], cx['_rho0']
        rho, p, c, u, lam = cx['density'], cx['pressure'], cx['sound_speed'], cx['velocity'], cx['reaction_progress']
        cx.eq('c^2 rho = gamma p', c * c * rho, g * p)
        # energy balance across the steady zone with the declared gamma-law + heat release lam*q, q = D^2/(2(gamma^2-1)):
        # e + p/rho + (D-u)^2/2 = D^2/2 + lam q  with e = p/((gamma-1) rho)
        q = D * D / (2 * (g * g - 1))
        cx.eq('Bernoulli with e = p/((gamma-1) rho) and heat release lambda q', p / ((g - 1) * rho) + p / rho + (D - u) * (D - u) / 2,
              D * D / 2 + lam * q)


class EPPistonEOS(Obligation):
    """elastic-plastic piston: both shocked states lie on the Mie-Gruneisen surface (stated independently here)"""

    def __init__(self, model):
        import scipy.optimize as so
        from symx import stubs
        self.model = model
        self.m = H.mod('exactpack.solvers.ep_piston.ep_piston')
        self.id = 'C03.eppiston.%s' % model
        self.modules = [self.m]
        self.extra_shim = {'sci_opt': H.ModProxy(so, fsolve=stubs.fsolve_stub)}
        self.functions = [self.m.EPpiston.__init__, self.m.EPpiston.Gruneisen, self.m.EPpiston.Plastic_Residual]
        self.bounds = 'material parameters and piston speed symbolic; elasticity model fixed; plastic wave speed = root of the real residual (fsolve contract)'
        self.skip_validation = True

    def build(self, mk):
        s = self.m.EPpiston(model=self.model, **{n: mk(n) for n in ('gamma', 'c0', 's0', 'G', 'Y', 'rho0', 'up')})
        out = {k: getattr(s, k) for k in ('rho_y', 'e_y', 'p_y', 'rho2', 'e2', 'p2')}
        out.update({'_' + n: mk(n) for n in ('gamma', 'c0', 's0', 'rho0')})
        return out

    def domain(self, V):
        return [T.gt(V(n), T.ZERO) for n in ('gamma', 'c0', 's0', 'G', 'Y', 'rho0', 'up')] + [T.lt(V('Y'), V('G'))]

    def claims(self, cx):
        G, c0, s0, rho0 = cx['_gamma'], cx['_c0'], cx['_s0'], cx['_rho0']

        def mg(rho, e):
            eta = 1 - rho0 / rho
            ph = rho0 * c0 * c0 * eta / ((1 - s0 * eta) * (1 - s0 * eta))
            return ph + G * rho * (e - eta * ph / (2 * rho0))
        cx.eq('yield state on the Mie-Gruneisen surface', cx['p_y'], mg(cx['rho_y'], cx['e_y']))
        cx.eq('plastic state on the Mie-Gruneisen surface', cx['p2'], mg(cx['rho2'], cx['e2']))


def obligations(tier):
    obs = []
    for g in (1, 2, 3):
        obs.append(NohEOS(g))
        obs.append(Noh2EOS(g, 'noh2'))
        obs.append(Noh2EOS(g, 'noh2cog'))
    for name, spec in H.COG.items():
        for g in spec['geoms']:
            obs.append(CogEOS(name, g))
    for n in (2, 3):
        for gam in ([Fraction(7, 5), Fraction(3)] if tier == 'quick' else H.G_FULL):
            obs.append(GuderleyEOS(n, gam))
    for g in (1, 2, 3):
        for gam in ([Fraction(7, 5)] if tier == 'quick' else H.G_FULL):
            obs.append(SedovEOS(g, gam))
    obs.append(RmtvEOS())
    from . import riemann_common as R
    for gl, gr in ([(Fraction(5, 3), Fraction(7, 5))] if tier == 'quick' else R.GAMMA_PAIRS_FULL):
        for pat in ('SCS', 'SCR', 'RCS', 'RCR'):
            obs.append(RiemannPointEOS(gl, gr, pat))
    obs.append(EHEPEOS())
    for gam in ([Fraction(3)] if tier == 'quick' else H.G_FULL):
        obs.append(MaderEOS(gam))
    obs.append(SDRZEOS())
    for model in ('hypo', 'hyperIfin', 'hyperFin'):
        obs.append(EPPistonEOS(model))
    # general-EOS Riemann driver (ideal-gas flag; JWL flag in the thorough tier): closure of the states it assembles at the
    # wave positions, with each side's own gamma
    from . import geos
    gobs = geos.obligations('C03', tier, patterns=('RCR', 'SCS') if tier == 'quick' else ('RCR', 'RCS', 'SCR', 'SCS'))
    if tier == 'quick':
        gobs = [o for o in gobs if 'ode_contract' in o.id or '.RCR.00.' in o.id or '.SCS.11.' in o.id]
    obs += gobs
    obs.append(GenEOSWrapper())
    return obs
