"""C13 -- burn times are causal first-arrival times of a front moving at speed D."""
from fractions import Fraction
import numpy as np

from symx import terms as T
from symx import diff as D_
from symx.framework import Obligation, V
from symx.engine import SymReal, SymBool, term_of
from symx.shim import Recorder
from . import common as H
from .common import K, Mode

EXPLANATION = ('Constructors and _run of Kenamond 1/2/3 and the DSD cylindrical expansion are executed with symbolic '
               'detonator data, speeds, radii and one symbolic evaluation point; on every feasible path z3 decides the '
               'eikonal equation |grad bt| = 1/D_local from the exact symbolic gradient, causality (bt >= earliest '
               'detonation time, bt at a detonator), and continuity across code branches (cross-path equality of the '
               'branch formulas on the switching surface), and first arrival (never earlier than the straight-line time, strictly later '
               'when the straight segment is blocked by the obstacle).')
BOUNDS = ['one evaluation point per run (two for the Lipschitz obligation)', 'geometry 2 and 3 enumerated']
OUTSIDE = ['Kenamond 2 continuity across |p|=R is structural (min/max of continuous candidates) and not separately encoded',
           'Kenamond 3 continuity at the shadow boundary theta=0 needs an arccos addition formula: attempted in the thorough tier only']
ASSUMPTIONS = ['arccos/log are atoms with the axioms listed in symx/smt.py; their derivatives are algebraic']
META = {
    'level_text': ('Bounded symbolic check of the real constructors and _run of the four burn-time solvers: all detonator '
                   'positions/times, radii and speeds admitted by the constructor and the evaluation point are symbolic reals; '
                   'z3 proves the eikonal equation with the local speed, causality and branch continuity on every path; '
                   'geometry enumerated. Not a proof: floats as reals; log/arccos as atoms.'),
    'level_note': ('Trusted: z3; symx proxies/shims/differentiation (validated per path against the unshimmed code); the '
                   'reading of first-arrival-field properties in harness/C13.py.'),
}

COORDS = ('x', 'y', 'z')


def point(mk, geom, prefix=''):
    return [mk(prefix + c) for c in COORDS[:geom]]


def grad2(cx, f, geom, prefix=''):
    tot = 0
    for c in COORDS[:geom]:
        g = cx.d(f, prefix + c)
        tot = tot + g * g
    return tot


class Ken1(Obligation):
    uses_derivatives = True

    def __init__(self, geom):
        self.geom = geom
        self.m = H.mod('exactpack.solvers.kenamond.kenamond1')
        self.id = 'C13.kenamond1.g%d' % geom
        self.modules = [self.m]
        self.extra_shim = {'ExactSolution': Recorder}
        self.functions = [self.m.Kenamond1.__init__, self.m.Kenamond1._run]
        self.bounds = 'D, detonator position and time, evaluation point symbolic'

    def build(self, mk):
        xd = tuple(mk('d' + c) for c in COORDS[:self.geom])
        s = self.m.Kenamond1(geometry=self.geom, D=mk('D'), x_d=xd, t_d=mk('t_d'))
        p = point(mk, self.geom)
        sol = s(H.mat([p]), 0.0)
        out = H.first(H.fields(sol))
        sol2 = s(H.mat([list(xd)]), 0.0)
        out['bt_at_det'] = H.first(H.fields(sol2))['burntime']
        out.update(_D=mk('D'), _td=mk('t_d'))
        return out

    def claims(self, cx):
        f = lambda c: c['burntime']
        D = cx['_D']
        cx.eq('eikonal |grad bt|^2=1/D^2', grad2(cx, f, self.geom) * D * D, 1, tol=1e-4)
        cx.ge('bt>=t_d', cx['burntime'], cx['_td'])
        cx.eq('bt(detonator)=t_d', cx['bt_at_det'], cx['_td'])


class Ken1Lipschitz(Obligation):
    def __init__(self, geom, quick=True):
        self.geom = geom
        self.quick = quick
        self.m = H.mod('exactpack.solvers.kenamond.kenamond1')
        self.id = 'C13.kenamond1.lipschitz.g%d' % geom
        self.modules = [self.m]
        self.extra_shim = {'ExactSolution': Recorder}
        self.functions = [self.m.Kenamond1._run]
        self.bounds = 'two symbolic points in one call'
        self.timeout_s = 40

    def build(self, mk):
        xd = tuple(mk('d' + c) for c in COORDS[:self.geom])
        s = self.m.Kenamond1(geometry=self.geom, D=mk('D'), x_d=xd, t_d=mk('t_d'))
        p = point(mk, self.geom, 'p')
        q = point(mk, self.geom, 'q')
        sol = s(H.mat([p, q]), 0.0)
        f = H.fields(sol)
        dist2 = 0
        for a, b in zip(p, q):
            dist2 = dist2 + (a - b) * (a - b)
        return {'btp': f['burntime'][0], 'btq': f['burntime'][1], 'dist2': dist2, '_D': mk('D')}

    def claims(self, cx):
        d = cx['btp'] - cx['btq']
        D = cx['_D']
        cx.le('|bt(p)-bt(q)|<=|p-q|/D', d * d * D * D, cx['dist2'])


class Ken2(Obligation):
    uses_derivatives = True

    def __init__(self, geom, at=None):
        self.geom = geom
        self.at = at            # None: generic point; 0..4: evaluate at detonator i
        self.m = H.mod('exactpack.solvers.kenamond.kenamond2')
        self.id = 'C13.kenamond2.g%d%s' % (geom, '' if at is None else '.det%d' % (at + 1))
        self.modules = [self.m]
        self.extra_shim = {'ExactSolution': Recorder}
        self.functions = [self.m.Kenamond2.__init__, self.m.Kenamond2._run]
        self.bounds = 'R, D1, D2, four axial detonator positions, five detonation times, evaluation point symbolic (constructor-admitted)'
        self.max_paths = 400
        self.timeout_s = 30

    def build(self, mk):
        dets = [mk('a1'), mk('a2'), mk('a4'), mk('a5')]
        td = [mk('t1'), mk('t2'), mk('t3'), mk('t4'), mk('t5')]
        s = self.m.Kenamond2(geometry=self.geom, R=mk('R'), D1=mk('D1'), D2=mk('D2'), dets=dets, t_d=td)
        if self.at is None:
            p = point(mk, self.geom)
        else:
            axial = [dets[0], dets[1], 0 * dets[0], dets[2], dets[3]][self.at]
            p = [0 * axial] * (self.geom - 1) + [axial]
        sol = s(H.mat([p]), 0.0)
        out = H.first(H.fields(sol))
        r2 = 0
        for c in p:
            r2 = r2 + c * c
        out.update(_r2=r2, _R=mk('R'), _D1=mk('D1'), _D2=mk('D2'))
        for i, t in enumerate(td):
            out['_t%d' % (i + 1)] = t
        return out

    def claims(self, cx):
        bt = cx['burntime']
        ts = [cx['_t%d' % i] for i in range(1, 6)]
        if self.at is not None:
            cx.le('bt(detonator %d)<=its detonation time' % (self.at + 1), bt, ts[self.at])
            if self.at == 2:
                cx.eq('bt(detonator 3)=t_d3', bt, ts[2])
            return
        f = lambda c: c['burntime']
        R, D1, D2, r2 = cx['_R'], cx['_D1'], cx['_D2'], cx['_r2']
        g2 = grad2(cx, f, self.geom)
        inside = r2 < R * R
        outside = r2 > R * R
        cx.eq('eikonal inside: |grad bt|^2=1/D1^2', g2 * D1 * D1, 1, when=inside, tol=1e-4)
        cx.eq('eikonal outside: |grad bt|^2=1/D2^2', g2 * D2 * D2, 1, when=outside, tol=1e-4)
        # causality: never earlier than the earliest detonation
        if cx.symbolic:
            cond = T.lor(*[T.ge(term_of(bt), term_of(t)) for t in ts])
            cx.true('bt>=min t_d', SymBool(cond))
        else:
            cx.true('bt>=min t_d', bt >= min(ts) - 1e-12 * max(1.0, abs(bt)))


class Ken3(Obligation):
    uses_derivatives = True

    def __init__(self, geom, quick=True, part='eikonal'):
        self.geom = geom
        self.quick = quick
        self.part = part        # 'eikonal' (gradient identities) / 'arrival' (first-arrival inequalities): separate budgets
        self.m = H.mod('exactpack.solvers.kenamond.kenamond3')
        self.id = 'C13.kenamond3.g%d' % geom if part == 'eikonal' else 'C13.kenamond3.arrival.g%d' % geom
        self.modules = [self.m]
        self.extra_shim = {'ExactSolution': Recorder}
        self.functions = [self.m.Kenamond3.__init__, self.m.Kenamond3._run]
        self.bounds = 'R, D, detonator position/time, evaluation point symbolic (constructor-admitted, point outside the obstacle)'
        self.timeout_s = 12
        self.congruence = True
        self.congruence_budget_s = 20
        self.timeout_thorough_s = 900
        if part == 'arrival':
            # the inequalities need MODELS of path conditions full of arccos atoms when they fail: give them time
            self.timeout_s = 60
            self.budget_s = 400
            self.hard_timeout_s = 900
            self.congruence = False

    def build(self, mk):
        xd = tuple(mk('d' + c) for c in COORDS[:self.geom])
        s = self.m.Kenamond3(geometry=self.geom, R=mk('R'), D=mk('D'), x_d=xd, t_d=mk('t_d'))
        p = point(mk, self.geom)
        sol = s(H.mat([p]), 0.0)
        out = H.first(H.fields(sol))
        out.update(_D=mk('D'), _td=mk('t_d'), _R=mk('R'))
        # straight-line geometry (harness side, algebraic): e = p - d
        de = 0
        ee = 0
        dd = 0
        for pc, dc in zip(p, xd):
            de = de + dc * (pc - dc)
            ee = ee + (pc - dc) * (pc - dc)
            dd = dd + dc * dc
        out.update(_de=de, _ee=ee, _dd=dd)
        return out

    def claims(self, cx):
        f = lambda c: c['burntime']
        D, R = cx['_D'], cx['_R']
        bt, td = cx['burntime'], cx['_td']
        de, ee, dd = cx['_de'], cx['_ee'], cx['_dd']
        # two geometric lemmas about the square roots that the derivative of arccos introduces (each proved by the solver
        # first, then available to the eikonal claim):  sin(beta) = l_bp/l_op  and  |grad cos(alpha)|^2 = sin^2(alpha)/l_op^2
        g = self.geom
        xs = [cx.p(c) for c in COORDS[:g]]
        ds = [cx.p('d' + c) for c in COORDS[:g]]
        lop2 = sum(x * x for x in xs[1:]) + xs[0] * xs[0] if False else None
        lop2 = xs[0] * xs[0]
        for x in xs[1:]:
            lop2 = lop2 + x * x
        lod2 = ds[0] * ds[0]
        for d_ in ds[1:]:
            lod2 = lod2 + d_ * d_
        lop, lod = cx.sqrt(lop2), cx.sqrt(lod2)
        outside = (lop2 > R * R) if cx.symbolic else bool(lop2 > R * R)
        if self.part == 'arrival':
            self._arrival(cx, bt, td, D, R, de, ee, dd)
            return
        if cx.symbolic or lop2 > R * R:
            lbp = cx.sqrt(lop2 - R * R)
            u = R / lop
            cx.lemma('sin(beta) = l_bp/l_op', cx.sqrt(1 - u * u) * lop, lbp)

            def cosa(c):
                xx = [c.p(k) for k in COORDS[:g]]
                dd_ = [c.p('d' + k) for k in COORDS[:g]]
                dot = xx[0] * dd_[0]
                l2, m2 = xx[0] * xx[0], dd_[0] * dd_[0]
                for a_, b_ in zip(xx[1:], dd_[1:]):
                    dot = dot + a_ * b_
                    l2 = l2 + a_ * a_
                    m2 = m2 + b_ * b_
                return -dot / (c.sqrt(m2) * c.sqrt(l2))
            gc2 = 0
            for k in COORDS[:g]:
                gk = cx.d(cosa, k)
                gc2 = gc2 + gk * gk
            ca = cosa(cx)
            cx.lemma('|grad cos(alpha)|^2 l_op^2 = 1 - cos^2(alpha)', gc2 * lop2, 1 - ca * ca)
            # cos(alpha) is homogeneous of degree 0 in the point: its radial derivative vanishes (the angular and the radial
            # part of grad bt are orthogonal)
            rad = 0
            for k, x in zip(COORDS[:g], xs):
                rad = rad + x * cx.d(cosa, k)
            cx.lemma('x . grad cos(alpha) = 0', rad, 0)
        cx.eq('eikonal |grad bt|^2=1/D^2', grad2(cx, f, self.geom) * D * D, 1, tol=1e-4)

    def _arrival(self, cx, bt, td, D, R, de, ee, dd):
        cx.ge('bt>=t_d', bt, td)
        # first arrival: never earlier than the straight-line time, and strictly later when the straight
        # segment detonator->point passes through the inert obstacle
        los = cx.sqrt(ee)
        cx.ge('bt>=straight-line arrival', (bt - td) * D, los)
        if cx.symbolic:
            blocked = (de < 0) & (-de < ee) & (dd * ee - de * de < R * R * ee)
        else:
            blocked = (de < 0) and (-de < ee) and (dd * ee - de * de < R * R * ee * (1 - 1e-9))
        cx.gt('segment through obstacle => bt > straight-line arrival', (bt - td) * D, los, when=blocked, tol=1e-9)

    def cross(self, paths, vals):
        if self.tier != 'thorough':
            return []
        from symx.framework import continuity_claims
        g = self.geom

        def ev(env):
            s = self.m.Kenamond3(geometry=g, R=env['R'], D=env['D'], x_d=tuple(env['d' + c] for c in COORDS[:g]), t_d=env['t_d'])
            return s(np.array([[env[c] for c in COORDS[:g]]]), 0.0)['burntime'][0]
        return continuity_claims(self, paths, 'burntime', list(COORDS[:g]), ev)


class DSD(Obligation):
    uses_derivatives = True

    def __init__(self):
        self.m = H.mod('exactpack.solvers.dsd.cylexpansion')
        self.id = 'C13.dsd.cylexpansion'
        self.modules = [self.m]
        self.extra_shim = {'ExactSolution': Recorder}
        self.functions = [self.m.CylindricalExpansion.__init__, self.m.CylindricalExpansion._run]
        self.bounds = 'r_1, r_2, D_CJ_i, alpha_i, t_d and the evaluation point symbolic (constructor-admitted, r_i > alpha_i/D_CJ_i as documented)'
        self.timeout_s = 40

    def build(self, mk):
        names = ['r_1', 'r_2', 'D_CJ_1', 'D_CJ_2', 'alpha_1', 'alpha_2', 't_d']
        s = self.m.CylindricalExpansion(geometry=2, **{n: mk(n) for n in names})
        p = point(mk, 2)
        sol = s(H.mat([p]), 0.0)
        out = H.first(H.fields(sol))
        out['_r2'] = p[0] * p[0] + p[1] * p[1]
        for n in names:
            out['_' + n] = mk(n)
        return out

    def domain(self, V):
        # documented: r_1 > alpha_1/D_CJ_1 and r_2 > alpha_2/D_CJ_2 (not enforced by the constructor: see C20)
        return [T.gt(T.mul(V('r_1'), V('D_CJ_1')), V('alpha_1')), T.gt(T.mul(V('r_2'), V('D_CJ_2')), V('alpha_2')),
                T.gt(V('D_CJ_1'), T.ZERO), T.gt(V('D_CJ_2'), T.ZERO)]

    def claims(self, cx):
        f = lambda c: c['burntime']
        r2 = cx['_r2']
        r = cx.sqrt(r2)
        g2 = grad2(cx, f, 2)
        r1, rr2 = cx['_r_1'], cx['_r_2']
        for i, cond in ((1, (r2 > r1 * r1) & (r2 < rr2 * rr2) if cx.symbolic else (r1 * r1 < r2 < rr2 * rr2)),
                        (2, r2 > rr2 * rr2)):
            Dn = cx['_D_CJ_%d' % i] - cx['_alpha_%d' % i] / r
            cx.eq('radial derivative in HE%d: |grad bt|^2=1/(D_CJ-alpha/r)^2' % i, g2 * Dn * Dn, 1, when=cond, tol=1e-4)
        cx.ge('bt>=t_d', cx['burntime'], cx['_t_d'])

    def cross(self, paths, vals):
        """continuity across every pair of code branches (the interfaces r_1, r_2)"""
        from symx.framework import continuity_claims
        names = ['r_1', 'r_2', 'D_CJ_1', 'D_CJ_2', 'alpha_1', 'alpha_2', 't_d']

        def ev(env):
            s = self.m.CylindricalExpansion(geometry=2, **{n: env[n] for n in names})
            return s(np.array([[env['x'], env['y']]]), 0.0)['burntime'][0]
        return continuity_claims(self, paths, 'burntime', ['x', 'y'], ev)


def obligations(tier):
    obs = []
    for g in (2, 3):
        obs.append(Ken1(g))
        if g == 2 or tier == 'thorough':
            obs.append(Ken1Lipschitz(g))
        obs.append(Ken2(g))
        for i in range(5):
            obs.append(Ken2(g, at=i))
        obs.append(Ken3(g))
        obs.append(Ken3(g, part='arrival'))
    obs.append(DSD())
    for o in obs:
        o.tier = tier
    return obs
