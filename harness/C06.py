"""C06 -- a value depends only on (parameters, point, time), not on history or batch."""
from fractions import Fraction
import numpy as np

from symx import terms as T
from symx.framework import Obligation, V
from symx.engine import SymReal, SymBool, term_of, sym
from symx.shim import Recorder
from . import common as H
from . import riemann_common as R
from . import sedov_common as S
from .common import K, Mode

EXPLANATION = ('2-safety by self-composition with SYMBOLIC PRE-STATE (one inductive step covers histories of any length): the '
               'hidden state a solver could carry over (module globals, class-level attributes, instance attributes written by '
               '_run) is set to fresh symbols, or an arbitrary earlier call / the construction and use of another solver object '
               'with arbitrary symbolic arguments is executed first; then the call under test runs and z3 decides that its '
               'outputs are equal to those of the same call made first on a fresh object (equivalently: do not depend on the '
               'pre-state symbols).  Batch independence (other points, order, duplicates) is decided on N = 2 symbolic points.  '
               'np.empty memory is an arbitrary value (fresh symbols): no output may be computed from it.  Class-level shared objects '
               '(black-box Noh Newton solver) are modelled as ONE shared contract stub installed on the class.')
BOUNDS = ['history of length one with symbolic arguments (inductive step); N = 2 points for the batch clause; gamma sliced for '
          'Riemann/Sedov/Guderley']
OUTSIDE = ['"vary only within documented resolution" for the grid-dependent solvers (Mader dx, Sedov max(r), SDRZ table, Riemann '
           'internal grid): a numerical-accuracy statement', 'thread interleavings (ExactPack is single-threaded; interleaving of '
           'calls is covered by the inductive step)', 'Su-Olson and radiative-shock module state: see C18 / C12 obligations and DESIGN.md']
ASSUMPTIONS = ['stub contracts: a root finder / integrator returns the same value when asked the same question twice on one path']
META = {
    'level_text': ('Bounded relational symbolic check on the real code: symbolic pre-state / arbitrary symbolic earlier call or other '
                   'solver object, then the call under test; z3 proves the outputs equal those of a fresh first call for all real '
                   'inputs on every path pair (one inductive step over histories); batch clause on N = 2 symbolic points. Not a '
                   'proof: floats as reals; numerically integrated parts behind stub contracts.'),
    'level_note': 'Trusted: z3; symx proxies/shims/stubs; the inventory of hidden state in harness/C06.py (from the property anchors).',
}


class Repeat(Obligation):
    """same object: an arbitrary earlier call (symbolic point and time) does not change the answer of the next call"""

    def __init__(self, key, modules, make, run, fields, dom, extra_shim=None, functions=(), max_paths=300):
        self.id = 'C06.repeat.%s' % key
        self.modules = [H.mod(m) if isinstance(m, str) else m for m in modules]
        self.make, self.run, self.fields, self.dom = make, run, fields, dom
        self.extra_shim = dict({'ExactSolution': Recorder, 'print': H.quiet_print}, **(extra_shim or {}))
        self.functions = list(functions)
        self.bounds = 'parameters, the earlier call (r_prev, t_prev) and the call under test (r, t) symbolic'
        self.skip_validation = True
        self.max_paths = max_paths
        self.timeout_s = 20

    def build(self, mk):
        used = self.make(mk)
        prev = H.Sub(mk, lambda n: mk(n + '_prev') if n in ('r', 't', 'x', 'y') else mk(n))
        self.run(used, prev)                      # arbitrary earlier history on this object
        b = self.run(used, mk)
        fresh = self.make(mk)
        a = self.run(fresh, mk)
        out = {}
        for k in self.fields:
            if k in a:
                out['a_' + k] = a[k]
                out['b_' + k] = b[k]
        return out

    def domain(self, V):
        return self.dom(V)

    def claims(self, cx):
        keys = sorted(k[2:] for k in (cx.out if cx.symbolic else cx._run()) if k.startswith('a_'))
        for k in keys:
            cx.eq('%s after an earlier call = %s of a fresh first call' % (k, k), cx['b_' + k], cx['a_' + k])


class Other(Obligation):
    """another solver object of the same family, constructed (and used) in between, does not change the answer"""

    def __init__(self, key, modules, make, make_other, run, fields, dom, extra_shim=None, functions=(), when='before-use'):
        self.id = 'C06.other.%s' % key
        self.modules = [H.mod(m) if isinstance(m, str) else m for m in modules]
        self.make, self.make_other, self.run, self.fields, self.dom = make, make_other, run, fields, dom
        self.extra_shim = dict({'ExactSolution': Recorder, 'print': H.quiet_print}, **(extra_shim or {}))
        self.functions = list(functions)
        self.bounds = 'parameters of both objects, points and times symbolic; order: construct A, construct (and use) B, use A'
        self.skip_validation = True
        self.max_paths = 300
        self.timeout_s = 20

    def build(self, mk):
        alone = self.run(self.make(mk), mk)
        A = self.make(mk)
        other = H.Sub(mk, lambda n: mk('o_' + n))
        Bo = self.make_other(other)
        self.run(Bo, other)
        b = self.run(A, mk)
        out = {}
        for k in self.fields:
            if k in alone:
                out['a_' + k] = alone[k]
                out['b_' + k] = b[k]
        return out

    def domain(self, V):
        return self.dom(V)

    def claims(self, cx):
        keys = sorted(k[2:] for k in (cx.out if cx.symbolic else cx._run()) if k.startswith('a_'))
        for k in keys:
            cx.eq('%s with another solver constructed and used in between = %s alone' % (k, k), cx['b_' + k], cx['a_' + k])


class PreState(Obligation):
    """module-level hidden state set to arbitrary symbols before the call: outputs (and captured right-hand sides) must not depend on it"""

    def __init__(self, n, gamma):
        from . import guderley_common as G
        self.G = G
        self.n, self.gamma = n, gamma
        self.id = 'C06.state.guderley.n%d.gamma=%s' % (n, gamma)
        self.m = H.mod(G.GM)
        self.modules = [self.m]
        self.extra_shim = G.shim_extra()
        self.functions = [self.m.state, self.m.g]
        self.bounds = 'module globals gamma, lambda_, nu, sigma, intno, V1 symbolic (arbitrary earlier evaluation); r, rho0, lambda, B, x symbolic; gamma fixed'
        self.skip_validation = True

    def build(self, mk):
        out = self.G.run_state(mk, self.n, self.gamma, prestate=True)
        if Mode.symbolic(mk):
            from symx.engine import current
            k = 0
            for rec in current().notes.get('ivp', []):
                for ypv in rec['yp']:
                    out['rhs%d' % k] = ypv
                    k += 1
        return out

    def domain(self, V):
        return [T.gt(V('r'), T.ZERO), T.gt(V('rho0'), T.ZERO), T.gt(V('lam'), T.ONE), T.gt(V('B'), T.ZERO), T.ne(V('x'), T.ZERO)]

    def claims(self, cx):
        if not cx.symbolic:
            return
        for k in sorted(cx.out):
            t = term_of(cx[k])
            sub = {T.var(nm): T.var(nm + '_alt') for nm in T.free_vars(t) if nm.startswith('pre_')}
            if sub:
                cx.eq('%s does not depend on the module globals left by earlier evaluations' % k, cx[k], SymReal(T.substitute(t, sub)))
            else:
                cx.true('%s does not mention the pre-state' % k, True)


class SDRZTable(Obligation):
    """the reaction-zone table (run_tvec) is a function of the parameters and the particle times alone: no entry is
    computed from memory the call has not written (np.empty is modelled as arbitrary values), and behind the end of the
    reaction zone (t > 1) a particle continues from its position at t = 1 with the constant CJ-state speed"""

    def __init__(self):
        self.m = H.mod('exactpack.solvers.sdrz.sdrz')
        self.id = 'C06.sdrz.table'
        self.modules = [self.m]
        self.extra_shim = {'ExactSolution': Recorder}
        self.functions = [self.m.SteadyDetonationReactionZone.run_tvec]
        self.bounds = 'D, rho_0, gamma and a table of three particle times 0, t_a, t_b with 0 < t_a < t_b symbolic (every t <= 1 / t > 1 combination)'
        self.max_paths = 100
        self.skip_validation = True        # uninitialised memory has no value to validate against

    def build(self, mk):
        s = self.m.SteadyDetonationReactionZone(D=mk('D'), rho_0=mk('rho_0'), gamma=mk('gamma'))
        f = H.fields(s.run_tvec(H.arr([0 * mk('ta'), mk('ta'), mk('tb')])))
        out = {}
        for k in ('position_relative', 'velocity', 'pressure', 'density'):
            for j, nm in ((1, 'a'), (2, 'b')):
                out['%s_%s' % (k, nm)] = f[k][j]
        out['_x1'] = s.rho_0 * s.Dj / s.rhoj * ((1 - 1 / s.gamma) + 1 / (2 * s.gamma))      # relative position at t = 1
        out['_D'] = mk('D')
        return out

    def domain(self, V):
        return [T.gt(V('ta'), T.ZERO), T.gt(V('tb'), V('ta')), T.gt(V('gamma'), T.ONE), T.gt(V('D'), T.ZERO), T.gt(V('rho_0'), T.ZERO)]

    def claims(self, cx):
        if cx.symbolic:
            for k, v in cx.out.items():
                if k.startswith('_'):
                    continue
                names = T.free_vars([term_of(v)]) if isinstance(v, SymReal) else []
                cx.true('%s is computed from the parameters and the times alone (no read of uninitialised memory)' % k,
                        not any(n.startswith('uninit') for n in names))
        for nm in ('a', 'b'):
            t = cx.p('t' + nm)
            late = (t > 1) if cx.symbolic else bool(t > 1)
            cx.eq('t_%s > 1: position_relative = x_rel(1) + (D - u)(t - 1)' % nm, cx['position_relative_' + nm],
                  cx['_x1'] + (cx['_D'] - cx['velocity_' + nm]) * (t - 1), when=late)


def obligations(tier):
    obs = [SDRZTable()]
    noh = H.mod('exactpack.solvers.noh.noh1')
    pos = lambda *ns: (lambda V: [T.gt(V(n), T.ZERO) for n in ns])
    f1 = lambda s, mk: H.first(H.run_1d(s, mk))
    FLD = ('density', 'velocity', 'pressure', 'specific_internal_energy', 'temperature')
    obs.append(Repeat('noh', [noh], lambda mk: noh.Noh(geometry=3, gamma=mk('gamma'), u0=mk('u0'), rho0=mk('rho0')), f1, FLD,
                      lambda V: [T.gt(V('gamma'), T.ONE), T.lt(V('u0'), T.ZERO), T.gt(V('rho0'), T.ZERO), T.gt(V('r'), T.ZERO), T.gt(V('t'), T.ZERO),
                                 T.gt(V('r_prev'), T.ZERO), T.gt(V('t_prev'), T.ZERO)], functions=[noh.Noh._run]))
    c1m, C1 = H.cog_class('Cog1')
    obs.append(Repeat('cog1', [c1m], lambda mk: C1(geometry=3, **{p: mk(p) for p in H.COG['Cog1']['params']}), f1, FLD,
                      pos('r', 't', 'r_prev', 't_prev', 'Gamma', 'rho0'), functions=[C1._run]))
    n2c = H.mod('exactpack.solvers.noh2.noh2_cog')
    obs.append(Repeat('noh2cog', [n2c, c1m], lambda mk: n2c.Noh2Cog(geometry=3, gamma=mk('gamma'), rho0=mk('rho0'), e0=mk('e0')), f1, FLD,
                      lambda V: [T.gt(V('gamma'), T.ONE), T.gt(V('rho0'), T.ZERO), T.gt(V('e0'), T.ZERO), T.gt(V('r'), T.ZERO), T.gt(V('t'), T.ZERO),
                                 T.lt(V('t'), T.ONE), T.gt(V('r_prev'), T.ZERO), T.gt(V('t_prev'), T.ZERO), T.lt(V('t_prev'), T.ONE)],
                      functions=[n2c.Noh2Cog._run]))
    # Sedov: attributes written by _run (r2, rho1, ..., rvv) -- jump block, cut after the LAST JumpCondition of the call
    from symx import stubs

    def sedov_run(s, mk):
        if Mode.symbolic(mk):
            cnt = {'n': 0}
            need = 2 if s.solution_type == 'vacuum' else 1
            m = H.mod(S.SM)
            old = m.__dict__['JumpCondition']

            def jc(*a, **k):
                cnt['n'] += 1
                if cnt['n'] >= need:
                    raise stubs.Cut({})
                return None
            m.__dict__['JumpCondition'] = jc
            try:
                s._run(H.arr([mk('r')]), mk('t'))
            except stubs.Cut:
                pass
            finally:
                m.__dict__['JumpCondition'] = old
        else:
            s(np.array([float(mk('r'))]), mk('t'))
        return {k: getattr(s, k) for k in ('r2', 'rho1', 'us', 'u2', 'rho2', 'p2', 'rvv')}
    for g in ((3,) if tier == 'quick' else (1, 2, 3)):
        obs.append(Repeat('sedov.g%d' % g, [S.SM], lambda mk, g=g: S.make(mk, g, Fraction(7, 5)), sedov_run,
                          ('r2', 'rho1', 'us', 'u2', 'rho2', 'p2', 'rvv'),
                          lambda V, g=g: S.domain(V, g) + [T.gt(V('t_prev'), T.ZERO), T.gt(V('r_prev'), T.ZERO)],
                          extra_shim=dict(S.shim_extra(cut_at_jump=False)), functions=[H.mod(S.SM).Sedov._run]))
    # ideal-gas Riemann wrapper: attributes overwritten per call (t, x, p, ..., Vregs)
    ep = H.mod(R.EP)
    for gl, gr in R.GAMMA_PAIRS_QUICK[:1]:
        def rmake(mk, gl=gl, gr=gr):
            kw = {k: mk(k) for k in R.STATE}
            kw.update(gl=K(mk, gl), gr=K(mk, gr), xd0=mk('xd0'), xmin=mk('xd0') - 1, xmax=mk('xd0') + 1, num_x_pts=2)
            return ep.IGEOS_Solver(**kw)

        def rrun(s, mk):
            m = H.mod(R.RM)
            xs = H.arr([mk('xd0')])
            if Mode.symbolic(mk):
                try:
                    s._run(xs, mk('t'))
                    raise RuntimeError('not cut')
                except stubs.Cut as c:
                    L = c.locals
            else:
                _, L = H.capture_locals(m.RiemannIGEOS.driver, lambda: s(xs, mk('t')))
            d = {k: L[k] for k in ('ux', 'rx1', 'rx2')}
            for i, v in enumerate(L['Xregs']):
                d['X%d' % i] = v
            d['px'] = L['px']
            return d
        o = Repeat('riemann.gl=%s.gr=%s' % (gl, gr), R.modules(), rmake, rrun, ('ux', 'rx1', 'rx2', 'X0', 'X1', 'X2', 'X3', 'X4'),
                   lambda V: R.domain(V) + [T.gt(V('t_prev'), T.ZERO)], extra_shim=R.shim_extra(), functions=[ep.IGEOS_Solver._run],
                   max_paths=600)
        obs.append(o)
    # Blake: class-level dict Blake.elas_param_values is updated by every constructor
    bl = H.mod('exactpack.solvers.blake.blake')
    BF = ('displacement', 'strain_rr', 'density', 'stress_rr', 'pressure')

    def bmake(mk, pre=''):
        return bl.Blake(lame_mod=mk('lame'), shear_mod=mk('G'), cavity_radius=mk('a'), ref_density=mk('rho0'), pressure_scale=mk('P0'))
    bdom = lambda V: [T.gt(V(p + n), T.ZERO) for p in ('', 'o_') for n in ('lame', 'G', 'a', 'rho0', 'P0', 't')] + \
        [T.ge(V('r'), V('a')), T.ge(V('o_r'), V('o_a'))]

    class _NoWarn(object):
        def warn(self, *a, **k):
            return None
    obs.append(Other('blake', [bl, H.mod('exactpack.solvers.blake.set_check_elastic_params')], bmake, bmake, f1, BF, bdom,
                     extra_shim={'warnings': _NoWarn()}, functions=[bl.Blake.__init__, bl.Blake._run]))
    # black-box Noh: class-level Newton solver object and default initial-condition dicts shared between instances
    from . import C16, C02
    bb = H.mod(C16.BBM)
    bbpk = H.mod('exactpack.solvers.nohblackboxeos')

    def bbmake(cls):
        def f(mk):
            eos = C16.make_eos('ideal_gas_eos', mk)
            if Mode.symbolic(mk):
                # the Newton solver is a CLASS attribute shared by every instance: one shared contract stub per path, installed
                # where the real one lives (not per instance), so that what one object leaves in it is seen by the next
                from symx.engine import current
                ex = current()
                if 'shared_newton' not in ex.notes:
                    ex.notes['shared_newton'] = C02._NewtonStub()
                bb.NohBlackBoxEos.solver = ex.notes['shared_newton']
            elif isinstance(bb.NohBlackBoxEos.solver, C02._NewtonStub):
                bb.NohBlackBoxEos.solver = H.mod(C16.NEWM).newton_solver()      # replay: the real shared solver again
            return cls(eos)
        return f

    def bbrun(s, mk):
        s.solve_jump_conditions()
        return {'shocked_density': s.shocked_density, 'shocked_energy': s.shocked_energy, 'shock_speed': s.shock_speed,
                'symmetry_used': s.residual_funciton.symmetry}
    for a, b in (('PlanarNohBlackBox', 'CylindricalNohBlackBox'), ('SphericalNohBlackBox', 'PlanarNohBlackBox')):
        o = Other('nohbb.%s-then-%s' % (a[:3], b[:3]), [bb, H.mod(C16.EOSM), H.mod(C16.RESM)], bbmake(getattr(bb, a)), bbmake(getattr(bb, b)),
                  bbrun, ('symmetry_used', 'shocked_density', 'shocked_energy', 'shock_speed'),
                  lambda V: [T.gt(V('gamma'), T.ONE), T.gt(V('o_gamma'), T.ONE)],
                  functions=[bb.NohBlackBoxEos.__init__, bb.NohBlackBoxEos.solve_jump_conditions])
        obs.append(o)
    # Guderley module globals
    for n in (2, 3):
        obs.append(PreState(n, Fraction(7, 5)))
    # RMTV module globals (aval ... sigma): the C03.rmtv obligation pre-sets them to arbitrary symbols and claims independence
    from . import C03
    o = C03.RmtvEOS()
    o.id = 'C06.state.rmtv'
    obs.append(o)
    # batch clause: reuse the C05 schema obligations on N = 2 points (independence of the other points, order kept)
    from . import C05
    for o in C05.obligations(tier):
        if getattr(o, "npts", None) == 2 and getattr(o, "independent", False):
            o.id = o.id.replace('C05.schema', 'C06.batch')
            obs.append(o)
    from .C03 import GenEOSWrapper
    obs.append(GenEOSWrapper("C06", repeat=True))      # general-EOS Riemann wrapper: result independent of an earlier call at another time
    return obs
