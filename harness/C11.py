"""C11 -- Sedov: energy behind the shock equals the blast energy; mass is conserved."""
from fractions import Fraction
import numpy as np

from symx import terms as T
from symx import diff as Df
from symx.framework import Obligation, V
from symx.engine import SymReal, SymBool, term_of
from . import common as H
from . import sedov_common as S
from .common import K, Mode

EXPLANATION = ('The Sedov constructor (energy integrals replaced by symbols: quad stub), the jump block of _run, physical() and '
               'the real similarity functions sedov_funcs_standard/singular, efun01, efun02 are executed symbolically.  z3 decides, '
               'for symbolic similarity variable v: (i) dlamdv is the derivative of l_fun; (ii) ENERGY: the volume-element-weighted '
               'energy density of the physical fields, written in v, equals (eblast/alpha) (w1 efun01 + w2 efun02) with exactly the '
               'weights w_i = d alpha/d eval_i with which the constructor assembles alpha -- integrating both sides over the same v '
               'range gives E(behind the shock) = eblast; (iii) MASS: d/dv [c_j r^j rho (1 - (k+2-omega) v/2)/(j-omega)] = c_j '
               'r^(j-1) rho dr/dv, the exact mass integral of self-similar flow, whose value at the shock is the swept-up mass; (iv) '
               'closed-form energy and mass of the singular solution; (v) LIMITS: the arguments the constructor really passes to '
               'scipy.integrate.quad are (efun01 | efun02, inner boundary of the disturbed flow, shock value v2) for every solution type; '
               '(vi) AHEAD: the whole _run on a 2-point internal table returns rho0 r^(-omega), u = p = e = c = 0 at a point ahead of the shock.')
BOUNDS = ['gamma sliced; geometry enumerated; omega symbolic on the generic branch, set to the exact special values for the '
          'omega2/omega3/singular branches']
OUTSIDE = ['quadrature error of scipy.integrate.quad; the fminbound/interp1d inversion back to user radii; the osmall switching band',
           'vanishing of the mass/energy integrands at the inner boundary (lambda -> 0 or the vacuum boundary)']
ASSUMPTIONS = ['quad stub: eval1, eval2 are the integrals of efun01, efun02 over [vmin, v2] (their values are free symbols)',
               'volume element c_j r^(j-1) dr with c_j = 1, 2 pi, 4 pi']
META = {
    'level_text': ('Bounded symbolic check on the real Sedov code: pointwise (in the similarity variable) energy-integrand and '
                   'mass-integral identities that are equivalent to E(behind shock) = eblast and M(behind shock) = swept-up mass, the '
                   'derivative dlamdv, the closed-form singular case, the quadrature limits and integrands really passed to quad, and the '
                   'undisturbed state ahead of the shock (whole _run, 2-point table); gamma sliced, omega symbolic or at the exact special values. '
                   'Not a proof: floats as reals; quadrature/inversion numerics outside.'),
    'level_note': 'Trusted: z3; symx proxies/shims/stubs/differentiation; the energy and mass oracles written in harness/C11.py.',
}


def cj(cx_or_mk, j, symbolic):
    if j == 1:
        return 1
    from symx.engine import sym
    pi = sym('PI') if symbolic else np.pi
    return (2 if j == 2 else 4) * pi


SPECIAL = {
    # exact omega values of the special branches, as functions of (j, gamma)
    'omega2': lambda j, g: (2 * (g - 1) + j) / g,
    'omega3': lambda j, g: j * (2 - g),
    'singular': lambda j, g: (3 * j - 2 + g * (2 - j)) / (g + 1),
}


class SedovIdentity(Obligation):
    uses_derivatives = True

    def __init__(self, geom, gamma, case):
        self.geom, self.gamma, self.case = geom, gamma, case
        self.id = 'C11.%s.g%d.gamma=%s' % (case, geom, gamma)
        self.modules = [H.mod(S.SM)]
        self.extra_shim = S.shim_extra()
        m = H.mod(S.SM).Sedov
        self.functions = [m.__init__, m._run, m.sedov_funcs_standard, m.efun01, m.efun02, m.physical]
        self.bounds = 'rho0, eblast, t, v symbolic; gamma fixed; omega %s' % ('symbolic (generic branch)' if case == 'generic' else 'at the exact %s value' % case)
        self.skip_validation = True
        self.max_paths = 60
        self.timeout_s = 30
        self.timeout_thorough_s = 900

    def omega(self):
        if self.case == 'generic':
            return None
        return SPECIAL[self.case](self.geom, Fraction(self.gamma))

    def build(self, mk):
        om = self.omega()
        if om is not None and not (0 <= om < self.geom):
            raise RuntimeError('special omega out of range')
        out, s = S.jump_block(mk, self.geom, self.gamma, om)
        if Mode.symbolic(mk):
            want = {'generic': 'none', 'omega2': 'omega2', 'omega3': 'omega3'}.get(self.case)
            if want is not None and (s.special_singularity != want or s.solution_type == 'singular'):
                from symx.engine import PathAbort
                raise PathAbort()
        v = mk('v')
        l, dl, f, g, h = s.sedov_funcs_standard(v)
        rho, u, p, _, _ = s.physical(f, g, h)
        res = {'l': l, 'dlamdv': dl, 'f': f, 'g': g, 'h': h, 'rho': rho, 'u': u, 'p': p,
               'efun01': s.efun01(v), 'efun02': s.efun02(v), 'alpha': s.alpha, 'r2': out['r2'],
               'eblast': mk('eblast'), 'rho1': out['rho1'], 'xg2': s.xg2, 'omega': s.omega if om is None else K(mk, om),
               'gamm1': s.gamm1, '_type': s.solution_type}
        if Mode.symbolic(mk):
            # weights with which the constructor assembles alpha from the two energy integrals (alpha is linear in them)
            at = term_of(s.alpha)
            qs = sorted(n for n in T.free_vars(at) if n.startswith('quad#'))
            res['_w'] = [SymReal(Df.d(at, q)) for q in qs]
            res['_q'] = [SymReal(T.var(q)) for q in qs]
        else:
            j = self.geom
            res['_w'] = [0.5, 1.0 / s.gamm1] if j == 1 else [(j - 1) * np.pi, (j - 1) * np.pi * 2.0 / s.gamm1]
            res['_q'] = [s.eval1, s.eval2]
        return res

    def domain(self, V):
        d = S.domain(V, self.geom, with_omega=(self.case == 'generic'))
        # admissible similarity variable: between the post-shock origin v0 = 2/((k+2-omega) gamma) and the vacuum value
        # vv = 2/(k+2-omega) (standard solutions use [v0, v2], vacuum solutions [v2, vv]); inside, the 1e-30 / 1e-12 clamps of
        # sedov_funcs_standard are inactive
        om = self.omega()
        xg2 = T.sub(T.const(self.geom + 2), V('omega') if om is None else T.const(om))
        g = T.const(Fraction(self.gamma))
        eps = Fraction(1, 10 ** 6)      # stay a relative 1e-6 inside: the numerical clamps act within 1e-30 / 1e-12 of the ends
        d.append(T.ge(T.mul(T.mul(V('v'), xg2), g), T.const(2 * (1 + eps))))
        d.append(T.le(T.mul(V('v'), xg2), T.const(2 * (1 - eps))))
        return d

    def claims(self, cx):
        j = self.geom
        c = cj(cx, j, cx.symbolic)
        l, dl, g = cx['l'], cx['dlamdv'], cx['g']
        fl = lambda cc: cc['l']
        cx.eq('dlamdv = d l_fun/dv', dl, cx.d(fl, 'v'))
        w, q = cx['_w'], cx['_q']
        if len(w) == 2:
            # alpha is exactly w1 eval1 + w2 eval2
            cx.eq('alpha = w1 eval1 + w2 eval2', cx['alpha'], w[0] * q[0] + w[1] * q[1])
            r = cx['r2'] * l
            dens = (cx['rho'] * cx['u'] * cx['u'] / 2 + cx['p'] / cx['gamm1']) * c * r ** (j - 1) * cx['r2'] * dl
            cx.eq('energy integrand = (eblast/alpha) (w1 efun01 + w2 efun02)', dens * cx['alpha'],
                  cx['eblast'] * (w[0] * cx['efun01'] + w[1] * cx['efun02']))
        # mass integral of self-similar flow: M(v) = c_j r^j rho (1 - xg2 v/2)/(j - omega);  dM/dv = c_j r^(j-1) rho dr/dv
        xg2, om = cx['xg2'], cx['omega']

        def M(cc):
            return (cc['r2'] * cc['l']) ** j * cc['rho'] * (1 - cc['xg2'] * cc.p('v') / 2)
        cx.eq('mass: d/dv [r^j rho (1 - (k+2-omega) v/2)] = (j-omega) r^(j-1) rho dr/dv', cx.d(M, 'v'),
              (j - om) * (cx['r2'] * l) ** (j - 1) * cx['rho'] * cx['r2'] * dl)


class SedovShockTotals(Obligation):
    """values of the mass integral at the shock and, for the singular solution, closed-form energy and mass"""

    def __init__(self, geom, gamma, singular):
        self.geom, self.gamma, self.singular = geom, gamma, singular
        self.id = 'C11.%s.g%d.gamma=%s' % ('singular' if singular else 'shockmass', geom, gamma)
        self.modules = [H.mod(S.SM)]
        self.extra_shim = S.shim_extra()
        m = H.mod(S.SM).Sedov
        self.functions = [m.__init__, m._run, m.sedov_funcs_singular, m.physical]
        self.bounds = 'rho0, eblast, t symbolic; gamma fixed; omega %s' % ('at the singular value' if singular else 'symbolic')
        self.skip_validation = True
        self.max_paths = 60

    def build(self, mk):
        om = SPECIAL['singular'](self.geom, Fraction(self.gamma)) if self.singular else None
        out, s = S.jump_block(mk, self.geom, self.gamma, om)
        res = {k: out[k] for k in ('r2', 'rho1', 'rho2', 'u2', 'p2')}
        res.update(eblast=mk('eblast'), gamm1=s.gamm1, xg2=s.xg2, omega=s.omega if om is None else K(mk, om), _type=s.solution_type,
                   v2=s.v2, gamp1=s.gamp1, rho0=mk('rho0'))
        if self.singular:
            lam = mk('lam')
            l, dl, f, g, h = s.sedov_funcs_singular(lam * out['r2'])
            rho, u, p, _, _ = s.physical(f, g, h)
            res.update(l=l, rho=rho, u=u, p=p, lam=lam)
        return res

    def domain(self, V):
        d = S.domain(V, self.geom, with_omega=not self.singular)
        if self.singular:
            d += [T.gt(V('lam'), T.ZERO), T.le(V('lam'), T.ONE)]
        return d

    def claims(self, cx):
        j = self.geom
        c = cj(cx, j, cx.symbolic)
        om = cx['omega']
        # mass integral evaluated at the shock (v = v2, lambda = 1, rho = rho2) equals the mass the ambient profile held inside r2
        M_shock = c * cx['r2'] ** j * cx['rho2'] * (1 - cx['xg2'] * cx['v2'] / 2) / (j - om)
        M_init = c * cx['rho0'] * cx['r2'] ** (j - om) / (j - om)
        cx.eq('mass integral at the shock = initial mass inside the shock radius', M_shock, M_init)
        if self.singular:
            if cx['_type'] != 'singular':
                cx.true('singular omega selects the singular solution type (got %s)' % cx['_type'], False if not cx.symbolic else SymBool(T.FALSE))
                return
            # closed forms: rho = rho2 lam^(j-2), u = u2 lam, p = p2 lam^j  ->  integrals over 0 < lam < 1 are elementary
            lam = cx['lam']
            cx.eq('singular: lambda = r/r2', cx['l'], lam)
            cx.eq('singular density profile', cx['rho'], cx['rho2'] * lam ** (j - 2))
            cx.eq('singular velocity profile', cx['u'], cx['u2'] * lam)
            cx.eq('singular pressure profile', cx['p'], cx['p2'] * lam ** j)
            E = c * cx['r2'] ** j * (cx['rho2'] * cx['u2'] * cx['u2'] / 2 + cx['p2'] / cx['gamm1']) / (2 * j)
            cx.eq('singular: energy behind the shock = eblast', E, cx['eblast'])
            Ms = c * cx['r2'] ** j * cx['rho2'] / (2 * j - 2) if j > 1 else None
            if Ms is not None:
                cx.eq('singular: mass behind the shock = initial mass', Ms, M_init)


class SedovQuadLimits(Obligation):
    """the two energy integrals that normalise alpha are taken over exactly the region behind the shock: from the inner boundary
    of the disturbed flow (origin lambda = 0 of a standard solution: v0 = 2/((k+2-omega) gamma); vacuum boundary of a vacuum
    solution: vv = 2/(k+2-omega)) to the shock v2 = 4/((k+2-omega)(gamma+1)), in this order, efun01 for eval1 and efun02 for
    eval2.  The limits are read from the arguments the constructor really passes to scipy.integrate.quad."""

    def __init__(self, geom, gamma):
        self.geom, self.gamma = geom, gamma
        self.id = 'C11.limits.g%d.gamma=%s' % (geom, gamma)
        self.modules = [H.mod(S.SM)]
        self.extra_shim = S.shim_extra()
        self.functions = [H.mod(S.SM).Sedov.__init__]
        self.bounds = 'rho0, eblast, omega symbolic; gamma fixed; every solution type / special singularity = path'
        self.skip_validation = True
        self.max_paths = 60

    def build(self, mk):
        m = H.mod(S.SM)
        if Mode.symbolic(mk):
            from symx.engine import current
            s = S.make(mk, self.geom, self.gamma)
            calls = [(c[0], c[1], c[2], c[3]) for c in current().notes.get('quad', [])]
        else:
            calls = []
            real = m.sci_int

            class Rec(object):
                def __getattr__(self, n):
                    return getattr(real, n)

                def quad(self, f, a, b, **kw):
                    r = real.quad(f, a, b, **kw)
                    calls.append((f.__name__, a, b, r[0]))
                    return r
            m.sci_int = Rec()
            try:
                s = S.make(mk, self.geom, self.gamma)
            finally:
                m.sci_int = real
        res = {'_type': s.solution_type, '_n': len(calls), '_names': [c[0] for c in calls], 'omega': mk('omega'), 'gamma': K(mk, self.gamma)}
        for i, c in enumerate(calls):
            res['a%d' % i], res['b%d' % i], res['q%d' % i] = c[1], c[2], c[3]
        if s.solution_type != 'singular':
            res['eval1'], res['eval2'] = s.eval1, s.eval2
        return res

    def domain(self, V):
        return [T.gt(V('rho0'), T.ZERO), T.gt(V('eblast'), T.ZERO), T.ge(V('omega'), T.ZERO), T.lt(V('omega'), T.const(self.geom))]

    def claims(self, cx):
        ty = cx['_type']
        ok = lambda b: (SymBool(T.TRUE if b else T.FALSE) if cx.symbolic else bool(b))
        if ty == 'singular':
            cx.true('singular solution: no quadrature', ok(cx['_n'] == 0))
            return
        cx.true('two energy integrals: efun01 then efun02 (got %s)' % (cx['_names'],), ok(cx['_names'] == ['efun01', 'efun02']))
        if cx['_names'] != ['efun01', 'efun02']:
            return
        xg2 = self.geom + 2 - cx['omega']
        g = cx['gamma']
        inner = 2 / (xg2 * g) if ty == 'standard' else 2 / xg2
        shock = 4 / (xg2 * (g + 1))
        for i in (0, 1):
            cx.eq('%s: lower limit of integral %d = inner boundary of the disturbed flow' % (ty, i + 1), cx['a%d' % i], inner)
            cx.eq('%s: upper limit of integral %d = shock value v2' % (ty, i + 1), cx['b%d' % i], shock)
        cx.eq('eval1 = integral of efun01', cx['eval1'], cx['q0'])
        cx.eq('eval2 = integral of efun02', cx['eval2'], cx['q1'])


class SedovAhead(Obligation):
    """a point ahead of the shock gets the undisturbed initial state rho0 r^(-omega), u = 0, p = 0 (e = 0, c = 0).  The whole _run
    is executed with an internal table of 2 points (npts=2: the user's largest radius and the origin); fminbound returns a fresh
    value; interp1d is exact at a table node (the user's point IS the first node) and a fresh value elsewhere."""

    def __init__(self, geom, gamma):
        self.geom, self.gamma = geom, gamma
        self.id = 'C11.ahead.g%d.gamma=%s' % (geom, gamma)
        self.modules = [H.mod(S.SM)]
        self.functions = [H.mod(S.SM).Sedov._run]
        self.bounds = 'rho0, eblast, omega, r, t symbolic; gamma fixed; internal table of 2 points; one user point'
        self.skip_validation = True
        self.max_paths = 120
        self.budget_s = 240

    def shim_extra(self):
        import scipy.optimize as so
        from symx.engine import current
        from symx.shim import Recorder

        def fminbound(f, a, b, **kw):
            return current().fresh('vwant')

        def interp1d(x, y, **kw):
            xs = [term_of(v) for v in np.asarray(x, dtype=object).ravel()]
            ys = list(np.asarray(y, dtype=object).ravel())

            def g(q):
                q = np.asarray(q, dtype=object)
                out = np.empty(q.shape, dtype=object)
                for i in range(out.size):
                    qt = term_of(q.flat[i])
                    hit = [k for k, xt in enumerate(xs) if xt is qt or xt == qt]
                    out.flat[i] = ys[hit[0]] if hit else current().fresh('interp')
                return out
            return g
        d = S.shim_extra(cut_at_jump=False)
        d.update({'sci_opt': H.ModProxy(so, fminbound=fminbound), 'interp1d': interp1d, 'ExactSolution': Recorder})
        return d

    def build(self, mk):
        s = S.make(mk, self.geom, self.gamma)
        r, t = mk('r'), mk('t')
        if Mode.symbolic(mk):
            # only the region ahead of the shock is of interest here: restrict the exploration to it with the shock radius
            # spelled as _run spells it (the claims are guarded by the r2 the code itself computed)
            from symx.engine import current
            r2_pre = (s.eblast / (s.alpha * s.rho0)) ** (1.0 / s.xg2) * t ** (2.0 / s.xg2)
            current().assume(T.gt(term_of(r), term_of(r2_pre)))
            sol = s._run(H.arr([r]), t, npts=2)
        else:
            sol = s(np.array([float(r)]), t)
        out = H.first(H.fields(sol))
        out.update(r2=s.r2, r=r, rho0=mk('rho0'), omega=mk('omega'))
        return out

    def domain(self, V):
        return S.domain(V, self.geom)

    def claims(self, cx):
        ahead = (cx['r'] > cx['r2'])
        if not cx.symbolic:
            ahead = bool(ahead)
        cx.eq('ahead of the shock: density = rho0 r^(-omega)', cx['density'], cx['rho0'] * cx['r'] ** (-cx['omega']), when=ahead)
        for f in ('velocity', 'pressure', 'specific_internal_energy', 'sound_speed'):
            cx.eq('ahead of the shock: %s = 0' % f, cx[f], 0 * cx['r'], when=ahead)


def obligations(tier):
    obs = []
    gams = [Fraction(7, 5)] if tier == 'quick' else [Fraction(7, 5), Fraction(5, 3), Fraction(2)]
    for j in (1, 2, 3):
        for gam in gams:
            obs.append(SedovIdentity(j, gam, 'generic'))
            obs.append(SedovShockTotals(j, gam, False))
            obs.append(SedovQuadLimits(j, gam))
            obs.append(SedovAhead(j, gam))
            for case in ('omega2', 'omega3'):
                om = SPECIAL[case](j, Fraction(gam))
                if 0 <= om < j:
                    obs.append(SedovIdentity(j, gam, case))
            om = SPECIAL['singular'](j, Fraction(gam))
            if 0 <= om < j:
                obs.append(SedovShockTotals(j, gam, True))
    return obs
