"""C17 -- solutions are admissible: positive, compressive shocks, monotone fans, bounded."""
from fractions import Fraction
import numpy as np

from symx import terms as T
from symx.framework import Obligation, V
from symx.engine import SymReal, SymBool, term_of
from symx.shim import Recorder
from . import common as H
from . import riemann_common as R
from . import sedov_common as S
from . import ehep_common as E
from .common import K, Mode

EXPLANATION = ('Sign, ordering and monotonicity assertions on the terms obtained by executing the real solver code symbolically: '
               'positivity of density / pressure / energy on every path, compressive jumps (with the pre-shock state tied to the '
               'ambient profile), monotone dependence inside fans (sign of the exact symbolic derivative), values of a transition '
               'cell between the two neighbouring states, ordering of wave speeds.  Riemann: the pattern the driver selects is the '
               'admissible one (sign of the increasing star function at the data pressures, root-free), and the assembled fields at a '
               'point inside a fan (public solver, unequal gammas) are positive and on the expansion side of the outer state.')
BOUNDS = ['geometry enumerated; gamma sliced for Riemann/Sedov/Mader; one evaluation point']
OUTSIDE = ['Su-Olson ordering/monotonicity and radiative-shock positivity (values of numerical integrals)',
           'Guderley (numerical ODE solution); Sedov interior profile (numerical inversion)']
ASSUMPTIONS = ['Riemann: strictly monotone wave curves (proved by the C17.riemann.mono obligations) are used as the instances '
               'F(a) <= F(b) -> a <= b for the star pressure and the two data pressures']
META = {
    'level_text': ('Bounded symbolic check of admissibility on the real code: positivity, compressive shocks, monotone fans, '
                   'transition-cell bounds and wave ordering decided by z3 for all real admissible inputs on every path; gamma '
                   'sliced where needed. Not a proof: floats as reals; numerically integrated solvers outside.'),
    'level_note': 'Trusted: z3; symx proxies/shims/stubs/differentiation; the admissible-input domains stated per obligation.',
}


class NohAdm(Obligation):
    def __init__(self, geom):
        self.geom = geom
        self.m = H.mod('exactpack.solvers.noh.noh1')
        self.id = 'C17.noh.g%d' % geom
        self.modules = [self.m]
        self.extra_shim = {'ExactSolution': Recorder}
        self.functions = [self.m.Noh._run]
        self.bounds = 'gamma>1, u0<0, rho0>0, r>0, t>0 symbolic'

    def build(self, mk):
        s = H.new_solver(self.m.Noh, dict(geometry=self.geom, gamma=mk('gamma'), u0=mk('u0'), rho0=mk('rho0')))
        out = H.first(H.run_1d(s, mk))
        # the two one-sided densities at the shock radius the solver reports
        rs = abs(mk('u0')) * mk('t') * (mk('gamma') - 1) / 2
        out['rho_behind'] = H.first(H.run_1d(s, H.Sub(mk, lambda n: rs / 2 if n == 'r' else mk(n))))['density']
        out['rho_ahead'] = H.first(H.run_1d(s, H.Sub(mk, lambda n: rs if n == 'r' else mk(n))))['density']
        return out

    def domain(self, V):
        return [T.gt(V('gamma'), T.ONE), T.lt(V('u0'), T.ZERO), T.gt(V('rho0'), T.ZERO), T.gt(V('r'), T.ZERO), T.gt(V('t'), T.ZERO)]

    def claims(self, cx):
        cx.gt('density > 0', cx['density'], 0)
        cx.ge('pressure >= 0', cx['pressure'], 0)
        cx.ge('specific internal energy >= 0', cx['specific_internal_energy'], 0)
        cx.gt('shock is compressive (density rises across it)', cx['rho_behind'], cx['rho_ahead'])


class SedovAdm(Obligation):
    def __init__(self, geom, gamma):
        self.geom, self.gamma = geom, gamma
        self.id = 'C17.sedov.g%d.gamma=%s' % (geom, gamma)
        self.modules = [H.mod(S.SM)]
        self.extra_shim = S.shim_extra()
        self.functions = [H.mod(S.SM).Sedov._run]
        self.bounds = 'rho0, eblast, omega, t symbolic; gamma fixed; alpha > 0 a free symbol'
        self.skip_validation = True
        self.max_paths = 100

    def build(self, mk):
        out, s = S.jump_block(mk, self.geom, self.gamma)
        r = {k: out[k] for k in ('r2', 'rho1', 'rho2', 'u2', 'p2', 'us', 'alpha')}
        r['ambient_at_shock'] = mk('rho0') * out['r2'] ** (-mk('omega'))
        return r

    def domain(self, V):
        return S.domain(V, self.geom)

    def claims(self, cx):
        pos = cx['alpha'] > 0 if cx.symbolic else True
        cx.eq('pre-shock density at the shock is the ambient profile rho0 r2^-omega', cx['rho1'], cx['ambient_at_shock'], when=pos)
        cx.gt('shock radius > 0', cx['r2'], 0, when=pos)
        cx.gt('shock is compressive', cx['rho2'], cx['ambient_at_shock'], when=pos)
        cx.gt('post-shock pressure > 0', cx['p2'], 0, when=pos)
        cx.gt('post-shock velocity outward', cx['u2'], 0, when=pos)
        cx.gt('shock faster than the gas behind it', cx['us'], cx['u2'], when=pos)


class EHEPAdm(Obligation):
    def __init__(self):
        self.m = H.mod(E.EM)
        self.id = 'C17.ehep'
        self.modules = [self.m]
        self.extra_shim = E.shim_extra()
        self.functions = [self.m.EscapeOfHEProducts._run, self.m.EscapeOfHEProducts.p_rho]
        self.bounds = 'D, rho_0, up, xtilde, xmax, tmax, x, t symbolic (constructor-admitted); every region = path'
        self.max_paths = 100

    def build(self, mk):
        out, s = E.run(mk)
        out.pop('_corners')
        return out

    def domain(self, V):
        # documented: xmax, tmax are the largest x, t for which the solution is requested; a sane window contains the
        # corner where boundaries B and D meet (t = 3 xtilde/(2 up + D))
        return E.domain(V) + [T.lt(V('t'), V('tmax')), T.lt(V('x'), V('xmax')),
                              T.gt(T.mul(V('tmax'), T.add(T.mul(T.const(2), V('up')), V('D'))), T.mul(T.const(3), V('xtilde')))]

    def claims(self, cx):
        reg = cx['_region']
        cx.ge('region %s: sound speed >= 0' % reg, cx['sound_speed'], 0)
        cx.ge('region %s: density >= 0' % reg, cx['density'], 0)
        cx.ge('region %s: pressure >= 0' % reg, cx['pressure'], 0)
        cx.ge('region %s: specific internal energy >= 0' % reg, cx['specific_internal_energy'], 0)


class SDRZAdm(Obligation):
    uses_derivatives = True

    def __init__(self):
        self.m = H.mod('exactpack.solvers.sdrz.sdrz')
        self.id = 'C17.sdrz'
        self.modules = [self.m]
        self.extra_shim = {'ExactSolution': Recorder}
        self.functions = [self.m.SteadyDetonationReactionZone.run_tvec]
        self.bounds = 'D, rho_0, gamma and two particle times 0 < t_a < t_b symbolic (every combination of t <= 1 / t > 1)'
        self.max_paths = 100

    def build(self, mk):
        s = self.m.SteadyDetonationReactionZone(D=mk('D'), rho_0=mk('rho_0'), gamma=mk('gamma'))
        sol = s.run_tvec(H.arr([0 * mk('ta'), mk('ta'), mk('tb')]))      # the table starts at t = 0 (as built by _run)
        f = H.fields(sol)
        out = {}
        for k in ('pressure', 'density', 'reaction_progress', 'velocity', 'sound_speed'):
            out[k + '_a'] = f[k][1]
            out[k + '_b'] = f[k][2]
        return out

    def domain(self, V):
        return [T.gt(V('ta'), T.ZERO), T.gt(V('tb'), V('ta')), T.gt(V('gamma'), T.ONE)]

    def claims(self, cx):
        for s in ('a', 'b'):
            cx.ge('0 <= reaction progress (%s)' % s, cx['reaction_progress_' + s], 0)
            cx.le('reaction progress <= 1 (%s)' % s, cx['reaction_progress_' + s], 1)
            cx.gt('density > 0 (%s)' % s, cx['density_' + s], 0)
            cx.gt('pressure > 0 (%s)' % s, cx['pressure_' + s], 0)
        cx.ge('reaction progress non-decreasing along the particle path', cx['reaction_progress_b'], cx['reaction_progress_a'])
        cx.le('pressure non-increasing behind the front', cx['pressure_b'], cx['pressure_a'])
        cx.le('density non-increasing behind the front', cx['density_b'], cx['density_a'])


class EPAdm(Obligation):
    def __init__(self, model):
        import scipy.optimize as so
        from symx import stubs
        self.model = model
        self.m = H.mod('exactpack.solvers.ep_piston.ep_piston')
        self.id = 'C17.eppiston.%s' % model
        self.modules = [self.m]
        self.extra_shim = {'sci_opt': H.ModProxy(so, fsolve=stubs.fsolve_stub)}
        self.functions = [self.m.EPpiston.__init__]
        self.bounds = 'material parameters and piston speed symbolic; elasticity model fixed; elastic precursor only (the plastic wave speed is a stubbed root)'
        self.skip_validation = True

    def build(self, mk):
        s = self.m.EPpiston(model=self.model, **{n: mk(n) for n in ('gamma', 'c0', 's0', 'G', 'Y', 'rho0', 'up')})
        return {'rho_y': s.rho_y, 'rho0': mk('rho0'), 'wv_el': s.wv_el, 'vel_y': s.vel_y, 'p_y': s.p_y, 'e_y': s.e_y}

    def domain(self, V):
        return [T.gt(V(n), T.ZERO) for n in ('gamma', 'c0', 's0', 'G', 'Y', 'rho0', 'up')] + [T.lt(V('Y'), V('G'))]

    def claims(self, cx):
        cx.gt('yield density > initial density (compressive elastic precursor)', cx['rho_y'], cx['rho0'])


class MaderAdm(Obligation):
    uses_derivatives = True

    def __init__(self, gamma):
        self.gamma = gamma
        self.m = H.mod('exactpack.solvers.mader.rarefaction')
        self.id = 'C17.mader.gamma=%s' % gamma
        self.modules = [self.m]
        self.functions = [self.m.rare]
        self.bounds = 'time, x, dx, p_cj, d_cj, u_piston symbolic; gamma fixed; fan, transition-cell and constant-state branches = paths'
        self.max_paths = 50
        self.timeout_s = 20
        self.skip_validation = False

    def build(self, mk):
        g = K(mk, self.gamma)
        args = (mk('time'), mk('xlab'), mk('dx'), mk('p_cj'), mk('d_cj'), g, mk('u_piston'))
        r = self.m.rare(*args)
        out = {'u': r[0], 'p': r[1], 'c': r[2], 'rho': r[3], 'xdet': r[4]}
        # neighbouring states: the constant (piston) state and the point value of the fan at the fan-side edge of this cell
        far = self.m.rare(mk('time'), mk('xlab') + 10 * mk('dx') + mk('d_cj') * mk('time'), mk('dx'), mk('p_cj'), mk('d_cj'), g, mk('u_piston')) \
            if False else None
        # constant state formulas are returned by the `else' branch: evaluate the same function at a point well behind the fan tail
        um = (g - 1) * (mk('d_cj') / (g + 1) - 2 * (g * mk('d_cj') / (g + 1)) / (g - 1)) / (g + 1)
        xp = (g + 1) / 2 * mk('time') * (mk('u_piston') - um)
        xback = mk('d_cj') * mk('time') - (xp - 2 * mk('dx'))       # xdet = xp - 2 dx: constant-state side
        cst = self.m.rare(mk('time'), xback, mk('dx'), mk('p_cj'), mk('d_cj'), g, mk('u_piston'))
        out.update(u_const=cst[0], p_const=cst[1], rho_const=cst[3], _xp=xp)
        # fan value at the fan-side cell edge (xdet + dx/2) computed from the point formulas u = dd x + ee
        return out

    def domain(self, V):
        # the cell [xlab - dx/2, xlab + dx/2] lies inside the burnt region 0 <= x <= d_cj t and is small compared with it
        return [T.gt(V(n), T.ZERO) for n in ('time', 'dx', 'p_cj', 'd_cj')] + [T.ge(V('u_piston'), T.ZERO),
                T.lt(T.mul(V('u_piston'), T.const(self.gamma + 1)), V('d_cj')),
                T.ge(V('xlab'), V('dx')), T.le(T.add(V('xlab'), V('dx')), T.mul(V('d_cj'), V('time'))),
                T.le(T.mul(T.const(20), V('dx')), T.mul(V('d_cj'), V('time')))]

    def claims(self, cx):
        # which branch are we on?  distinguish by the position relative to the fan tail xp
        xdet, xp, dx = cx['xdet'], cx['_xp'], cx.p('dx')
        in_cell = (cx.abs(xdet - xp) <= dx / 10) if not cx.symbolic else ((xdet - xp <= dx / 10) & (xp - xdet <= dx / 10))
        cx.gt('density > 0', cx['rho'], 0, when=(xdet > 0) if cx.symbolic else bool(xdet > 0))
        # transition cell: the reported value lies between the constant state and the fan (which has u >= u_piston, p >= p_const)
        cx.ge('transition cell: velocity not below the constant (piston) state', cx['u'], cx['u_const'], when=in_cell)
        cx.ge('transition cell: pressure not below the constant state', cx['p'], cx['p_const'], when=in_cell)
        cx.ge('transition cell: density not below the constant state', cx['rho'], cx['rho_const'], when=in_cell)


class RiemannMono(Obligation):
    """the two wave-curve functions are strictly monotone in the star pressure"""
    uses_derivatives = True

    def __init__(self, g):
        self.g = g
        self.id = 'C17.riemann.mono.gamma=%s' % g
        self.modules = R.modules()
        self.extra_shim = R.shim_extra(cut=False)
        u = H.mod(R.UM)
        self.functions = [u.shock, u.rarefaction]
        self.bounds = 'p, p0, r0, u0 > 0 symbolic; gamma fixed'
        self.skip_validation = True

    def build(self, mk):
        m, u = H.mod(R.RM), H.mod(R.UM)
        g = K(mk, self.g)
        inst = m.RiemannIGEOS(rl=mk('r0'), ul=mk('u0'), pl=mk('p0'), rr=mk('r0') * 2, ur=mk('u0') + 1, pr=mk('p0') * 3, gl=g, gr=g, num_x_pts=2)
        return {'shock': u.shock(mk('p'), mk('p0'), mk('r0'), mk('u0'), g, inst),
                'rare': u.rarefaction(mk('p'), mk('p0'), mk('r0'), mk('u0'), g, inst)}

    def domain(self, V):
        return [T.gt(V(n), T.ZERO) for n in ('p', 'p0', 'r0')]

    def claims(self, cx):
        cx.gt('d shock()/dp > 0', cx.d(lambda c: c['shock'], 'p'), 0)
        cx.lt('d rarefaction()/dp < 0', cx.d(lambda c: c['rare'], 'p'), 0)


class RiemannAdm(Obligation):
    def __init__(self, gl, gr, only):
        self.gl, self.gr, self.only = gl, gr, only
        self.id = 'C17.riemann.%s.gl=%s.gr=%s' % (only, gl, gr)
        self.modules = R.modules()
        self.extra_shim = R.shim_extra()
        u = H.mod(R.UM)
        self.functions = [H.mod(R.RM).RiemannIGEOS.driver, u.u_SCN, u.u_NCS, u.u_NCR, u.u_RCN, u.SCS_call, u.SCR_call, u.RCS_call, u.RCR_call]
        self.bounds = 'left/right states symbolic; gamma pair fixed; all four wave patterns = paths'
        self.max_paths = 200
        self.timeout_s = 25
        self.skip_validation = True

    def build(self, mk):
        out = R.run_driver(mk, self.gl, self.gr)
        u = H.mod(R.UM)
        pat = out['pattern']
        if Mode.symbolic(mk) and pat != self.only:
            from symx.engine import PathAbort
            raise PathAbort()           # one obligation per wave pattern (run in parallel)
        from .C09 import FORM
        call = getattr(u, pat + '_call')
        d = R.flat(out)
        # increasing form F(p) = (u_r - u_l) + f_R(p) + f_L(p) of the coded star-pressure function, at the two data pressures
        d['F_pl'] = FORM[pat] * call(out['pl'], out['inst'])
        d['F_pr'] = FORM[pat] * call(out['pr'], out['inst'])
        return d

    def domain(self, V):
        return R.domain(V)

    def claims(self, cx):
        pat = cx['_pattern']
        px, pl, pr = cx['px'], cx['pl'], cx['pr']
        if cx.symbolic:
            # F is strictly increasing (C17.riemann.mono) and F(px) = 0 (bisect contract): order of px and a data pressure
            mono = None
            for Fv, p0 in ((cx['F_pl'], pl), (cx['F_pr'], pr)):
                inst = ((Fv < 0) & (p0 < px)) | ((Fv > 0) & (p0 > px)) | ((Fv == 0) & (p0 == px))
                mono = inst if mono is None else (mono & inst)
            mono = mono & (px > 0)
        else:
            mono = px > 0
        if pat[0] == 'S':
            cx.ge(pat + ': star pressure not below the left pressure (left shock compressive)', px, pl, when=mono)
        else:
            cx.le(pat + ': star pressure not above the left pressure (left wave is a rarefaction)', px, pl, when=mono)
        if pat[2] == 'S':
            cx.ge(pat + ': star pressure not below the right pressure (right shock compressive)', px, pr, when=mono)
        else:
            cx.le(pat + ': star pressure not above the right pressure (right wave is a rarefaction)', px, pr, when=mono)
        cx.gt(pat + ': left star density > 0', cx['rx1'], 0, when=mono)
        cx.gt(pat + ': right star density > 0', cx['rx2'], 0, when=mono)


class RiemannSelect(Obligation):
    """the wave pattern the driver selects from the Gottlieb-Groth limiting velocities is the admissible one: decided without
    the root.  With F the increasing form of the selected pattern's star-pressure function (C17.riemann.mono), p* >= p0 iff
    F(p0) <= 0: a side treated as a shock needs F(p_side) <= 0, a side treated as a rarefaction F(p_side) >= 0."""

    def __init__(self, gl, gr):
        self.gl, self.gr = gl, gr
        self.id = 'C17.riemann.select.gl=%s.gr=%s' % (gl, gr)
        self.modules = R.modules()
        from symx import stubs
        d = R.shim_extra(cut=False)
        d['bisect'] = stubs.cut_here        # the driver is cut where it starts the root search: the pattern is chosen by then
        self.extra_shim = d
        u = H.mod(R.UM)
        self.functions = [H.mod(R.RM).RiemannIGEOS.driver, u.u_SCN, u.u_NCS, u.u_NCR, u.u_RCN, u.u_RCVR, u.SCS_call, u.SCR_call,
                          u.RCS_call, u.RCR_call]
        self.bounds = 'left/right states symbolic; gamma pair fixed; every branch of the pattern selection = a path'
        self.max_paths = 200
        self.timeout_s = 30
        self.skip_validation = True

    def build(self, mk):
        from symx import stubs
        from .C09 import FORM
        m, u = H.mod(R.RM), H.mod(R.UM)
        st = {k: mk(k) for k in R.STATE}
        kw = dict(st)
        kw.update(gl=K(mk, self.gl), gr=K(mk, self.gr), xd0=mk('xd0'), xmin=mk('xd0') - 1, xmax=mk('xd0') + 1, t=mk('t'),
                  num_x_pts=2)
        inst = m.RiemannIGEOS(**kw)
        if Mode.symbolic(mk):
            try:
                inst.driver()
                raise RuntimeError('driver was not cut')
            except stubs.Cut as c:
                pat = R.PATTERNS[c.locals['soln_type']]
        else:
            inst.driver()
            pat = R.PATTERNS[inst.soln_type]
        call = getattr(u, pat + '_call')
        return {'F_pl': FORM[pat] * call(st['pl'], inst), 'F_pr': FORM[pat] * call(st['pr'], inst), '_pattern': pat}

    def domain(self, V):
        return R.domain(V)

    def claims(self, cx):
        pat = cx['_pattern']
        for side, F, idx in (('left', cx['F_pl'], 0), ('right', cx['F_pr'], 2)):
            if pat[idx] == 'S':
                cx.le('%s selected: %s wave is a shock, so F(p_%s) <= 0 (p* >= p_%s: compressive)' % (pat, side, side, side), F, 0)
            else:
                cx.ge('%s selected: %s wave is a rarefaction, so F(p_%s) >= 0 (p* <= p_%s)' % (pat, side, side, side), F, 0)


class RiemannFanPoint(Obligation):
    """assembled ideal-gas Riemann fields at a user point INSIDE a rarefaction fan (through the public solver, so with the
    arguments the driver really passes): positive, and on the expansion side of the fan's outer state -- pressure and density
    not above it, velocity on the side the fan accelerates the gas to"""

    def __init__(self, gl, gr, only):
        self.gl, self.gr, self.only = gl, gr, only
        self.id = 'C17.riemann.fanpoint.%s.gl=%s.gr=%s' % (only, gl, gr)
        self.modules = R.modules()
        self.extra_shim = dict(R.shim_extra_point(), bisect=R.bisect_only(only))
        self.functions = [H.mod(R.RM).RiemannIGEOS.driver, H.mod(R.EP).IGEOS_Solver._run, H.mod(R.UM).rho_p_u_rarefaction]
        self.bounds = 'left/right states, membrane position, time and ONE user point symbolic; gamma pair fixed (unequal); wave pattern %s; every region = path' % only
        self.skip_validation = True
        self.max_paths = 1500
        self.timeout_s = 20
        self.budget_s = 300
        self.cost = 5

    def build(self, mk):
        out = R.run_point(mk, self.gl, self.gr)
        if Mode.symbolic(mk) and out['pattern'] != self.only:
            from symx.engine import PathAbort
            raise PathAbort()
        pat = out['pattern']
        d = {k: out[k] for k in ('density', 'pressure', 'velocity', 'pl', 'rl', 'ul', 'pr', 'rr', 'ur')}
        V = out['Vregs']
        xd0, t = out['xd0'], out['t']
        d['x'] = mk('x')
        d['_pattern'] = pat
        if pat[0] == 'R':
            d['L_head'], d['L_tail'] = xd0 + t * V[0], xd0 + t * V[1]
        if pat[2] == 'R':
            d['R_tail'], d['R_head'] = xd0 + t * V[-2], xd0 + t * V[-1]
        if Mode.symbolic(mk):
            # only the paths on which the point lies inside a fan carry claims: the others are dropped here (one more
            # branch decision, mostly implied by the driver's own region decisions) instead of costing solver time later
            x = d['x']
            inside = None
            if pat[0] == 'R':
                inside = (x > d['L_head']) & (x < d['L_tail'])
            if pat[2] == 'R':
                c = (x > d['R_tail']) & (x < d['R_head'])
                inside = c if inside is None else (inside | c)
            if not bool(inside):
                from symx.engine import PathAbort
                raise PathAbort()
        return d

    def domain(self, V):
        # generic position of the data (the equal-pressure / equal-density aliases only multiply the paths)
        return R.domain(V) + [T.ne(V('pl'), V('pr')), T.ne(V('rl'), V('rr'))]

    def claims(self, cx):
        pat = cx['_pattern']
        x, p, rho, u = cx['x'], cx['pressure'], cx['density'], cx['velocity']
        if pat[0] == 'R':
            w = ((x > cx['L_head']) & (x < cx['L_tail'])) if cx.symbolic else bool(cx['L_head'] < x < cx['L_tail'])
            cx.gt('left fan: density > 0', rho, 0, when=w)
            cx.gt('left fan: pressure > 0', p, 0, when=w)
            cx.le('left fan: pressure not above the left state', p, cx['pl'], when=w)
            cx.le('left fan: density not above the left state', rho, cx['rl'], when=w)
            cx.ge('left fan: velocity not below the left state', u, cx['ul'], when=w)
        if pat[2] == 'R':
            w = ((x > cx['R_tail']) & (x < cx['R_head'])) if cx.symbolic else bool(cx['R_tail'] < x < cx['R_head'])
            cx.gt('right fan: density > 0', rho, 0, when=w)
            cx.gt('right fan: pressure > 0', p, 0, when=w)
            cx.le('right fan: pressure not above the right state', p, cx['pr'], when=w)
            cx.le('right fan: density not above the right state', rho, cx['rr'], when=w)
            cx.le('right fan: velocity not above the right state', u, cx['ur'], when=w)


def obligations(tier):
    obs = []
    for g in (1, 2, 3):
        obs.append(NohAdm(g))
    gams = [Fraction(7, 5)] if tier == 'quick' else H.G_FULL
    for g in (1, 2, 3):
        for gam in gams:
            obs.append(SedovAdm(g, gam))
    obs.append(EHEPAdm())
    obs.append(SDRZAdm())
    for model in ('hypo', 'hyperIfin', 'hyperFin'):
        obs.append(EPAdm(model))
    for gam in ([Fraction(3)] if tier == 'quick' else H.G_FULL):
        obs.append(MaderAdm(gam))
    for gam in (H.G_QUICK if tier == 'quick' else H.G_FULL):
        obs.append(RiemannMono(gam))
    for gl, gr in (R.GAMMA_PAIRS_QUICK if tier == 'quick' else R.GAMMA_PAIRS_FULL):
        obs.append(RiemannSelect(gl, gr))
        if gl != gr:
            for pat in ('RCR', 'SCR', 'RCS'):
                obs.append(RiemannFanPoint(gl, gr, pat))
        for pat in ('SCS', 'SCR', 'RCS', 'RCR'):
            obs.append(RiemannAdm(gl, gr, pat))
    return obs
