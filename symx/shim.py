"""Shims: numpy / math / scipy names in the globals of the module under analysis.

`shimmed(modules, extra)` replaces, for the duration of a `with' block and *only in the
given modules' globals*:
  * names bound to the numpy module      -> NumpyProxy (delegates to real numpy unless
                                            overridden below),
  * names bound to the math module       -> MathProxy,
  * names bound to functions we override (np.sqrt imported with `from numpy import sqrt',
    math.sqrt, scipy root finders ...)   -> the override,
  * anything in `extra' (name -> object) -> that object (e.g. ExactSolution -> Recorder,
    float -> passthrough).
Nothing in /repo is edited.
"""
import math as _math
import builtins as _builtins
import contextlib
from fractions import Fraction

import numpy as _np

from . import terms as T
from .terms import NotEncodable
from .engine import SymReal, SymBool, lift, current, sym

# ------------------------------------------------------------------ helpers


def is_sym(x):
    if isinstance(x, (SymReal, SymBool)):
        return True
    if isinstance(x, _np.ndarray) and x.dtype == object:
        return True
    if isinstance(x, (list, tuple)):
        return any(is_sym(y) for y in x)
    return False


def _elementwise(fsym, freal, name):
    """unary function over scalars / arrays, symbolic where needed"""
    def f(x, *a, **k):
        if isinstance(x, SymReal):
            return fsym(x)
        if isinstance(x, (list, tuple)) and is_sym(x):
            x = _np.array(x, dtype=object)
        if isinstance(x, _np.ndarray) and x.dtype == object:
            out = _np.empty(x.shape, dtype=object)
            for idx in _np.ndindex(x.shape):
                v = x[idx]
                out[idx] = fsym(v) if isinstance(v, SymReal) else _scalar(freal(v))
            return out
        return freal(x, *a, **k)
    f.__name__ = name
    return f


def _scalar(v):
    if isinstance(v, _np.generic):
        return v.item()
    return v


def _S(x):
    return x if isinstance(x, SymReal) else SymReal(T.const(_scalar(x)))


def _fn1(name):
    return lambda x: SymReal(T.func(name, x.t))


sym_sqrt = _elementwise(lambda x: x.sqrt(), _np.sqrt, 'sqrt')
sym_exp = _elementwise(lambda x: x.exp(), _np.exp, 'exp')
sym_log = _elementwise(lambda x: x.log(), _np.log, 'log')
sym_log10 = _elementwise(lambda x: x.log10(), _np.log10, 'log10')
sym_sin = _elementwise(lambda x: x.sin(), _np.sin, 'sin')
sym_cos = _elementwise(lambda x: x.cos(), _np.cos, 'cos')
sym_tan = _elementwise(lambda x: x.tan(), _np.tan, 'tan')
sym_arctan = _elementwise(lambda x: x.arctan(), _np.arctan, 'arctan')
sym_arccos = _elementwise(lambda x: x.arccos(), _np.arccos, 'arccos')
sym_arcsin = _elementwise(lambda x: x.arcsin(), _np.arcsin, 'arcsin')
sym_sinh = _elementwise(lambda x: x.sinh(), _np.sinh, 'sinh')
sym_cosh = _elementwise(lambda x: x.cosh(), _np.cosh, 'cosh')
sym_tanh = _elementwise(lambda x: x.tanh(), _np.tanh, 'tanh')
sym_abs = _elementwise(lambda x: abs(x), _np.abs, 'abs')
sym_square = _elementwise(lambda x: x * x, _np.square, 'square')
sym_sign = _elementwise(lambda x: x.sign(), _np.sign, 'sign')
sym_cbrt = _elementwise(lambda x: x.cbrt(), _np.cbrt, 'cbrt')


def _binary(fsym, freal, name):
    def f(a, b, *args, **kw):
        if not (is_sym(a) or is_sym(b)):
            return freal(a, b, *args, **kw)
        if isinstance(a, (list, tuple)):
            a = _np.array(a, dtype=object)
        if isinstance(b, (list, tuple)):
            b = _np.array(b, dtype=object)
        if isinstance(a, _np.ndarray) or isinstance(b, _np.ndarray):
            aa, bb = _np.broadcast_arrays(_np.asarray(a, dtype=object), _np.asarray(b, dtype=object))
            out = _np.empty(aa.shape, dtype=object)
            for idx in _np.ndindex(aa.shape):
                out[idx] = fsym(aa[idx], bb[idx])
            return out
        return fsym(a, b)
    f.__name__ = name
    return f


def _smax(a, b):
    if isinstance(a, SymReal) or isinstance(b, SymReal):
        return SymReal(T.tmax(lift(a), lift(b)))
    return max(a, b)


def _smin(a, b):
    if isinstance(a, SymReal) or isinstance(b, SymReal):
        return SymReal(T.tmin(lift(a), lift(b)))
    return min(a, b)


class _UfuncLike(object):
    """binary ufunc stand-in with .accumulate / .reduce (np.maximum.accumulate, ...)"""

    def __init__(self, f, real, name):
        self._f = f
        self._real = real
        self.__name__ = name

    def __call__(self, a, b, *args, **kw):
        return self._f(a, b, *args, **kw)

    def accumulate(self, a, axis=0, **kw):
        if not is_sym(a):
            return self._real.accumulate(a, axis=axis, **kw)
        a = _np.asarray(a, dtype=object)
        if a.ndim != 1:
            raise NotEncodable('accumulate on %d-d symbolic array' % a.ndim)
        out = _np.empty(a.shape, dtype=object)
        acc = None
        for i in range(a.shape[0]):
            acc = a[i] if acc is None else self._f(acc, a[i])
            out[i] = acc
        return out

    def reduce(self, a, axis=0, **kw):
        if not is_sym(a):
            return self._real.reduce(a, axis=axis, **kw)
        return self.accumulate(a)[-1]


sym_maximum = _UfuncLike(_binary(_smax, _np.maximum, 'maximum'), _np.maximum, 'maximum')
sym_minimum = _UfuncLike(_binary(_smin, _np.minimum, 'minimum'), _np.minimum, 'minimum')
sym_power = _binary(lambda a, b: _S(a) ** b if isinstance(a, SymReal) or isinstance(b, SymReal) else a ** b,
                    _np.power, 'power')
sym_arctan2 = _binary(lambda y, x: SymReal(T.func('arctan2', lift(y), lift(x))), _np.arctan2, 'arctan2')


def sym_hypot(a, b):
    return sym_sqrt(a * a + b * b)


def sym_where(c, *ab):
    """np.where: symbolic conditions become branch decisions (one per element), so each
    explored path sees plain region formulas."""
    if not ab:
        if is_sym(c):
            c = _concrete_bools(c)
        return _np.where(c)
    a, b = ab
    if isinstance(c, SymBool):
        c = bool(c)
    elif isinstance(c, _np.ndarray) and c.dtype == object:
        c = _concrete_bools(c)
    elif isinstance(c, (list, tuple)) and is_sym(c):
        c = _concrete_bools(_np.array(c, dtype=object))
    if is_sym(a) or is_sym(b):
        a = _np.asarray(a, dtype=object) if not isinstance(a, SymReal) else a
        b = _np.asarray(b, dtype=object) if not isinstance(b, SymReal) else b
        cc, aa, bb = _np.broadcast_arrays(_np.asarray(c), _np.asarray(a, dtype=object),
                                          _np.asarray(b, dtype=object))
        out = _np.empty(cc.shape, dtype=object)
        for idx in _np.ndindex(cc.shape):
            out[idx] = aa[idx] if cc[idx] else bb[idx]
        if out.ndim == 0:
            return out.item()
        return out
    return _np.where(c, a, b)


def _concrete_bools(c):
    out = _np.empty(c.shape, dtype=bool)
    for idx in _np.ndindex(c.shape):
        out[idx] = bool(c[idx])
    return out


def sym_isclose(a, b, rtol=1e-05, atol=1e-08, equal_nan=False):
    if not (is_sym(a) or is_sym(b)):
        return _np.isclose(a, b, rtol=rtol, atol=atol, equal_nan=equal_nan)
    if isinstance(a, _np.ndarray) or isinstance(b, _np.ndarray):
        raise NotEncodable('isclose on symbolic arrays')
    a, b = _S(a), _S(b)
    return abs(a - b) <= (atol + rtol * abs(b))


def sym_norm(x, ord=None, axis=None, keepdims=False):
    if not is_sym(x):
        return _np.linalg.norm(x, ord=ord, axis=axis, keepdims=keepdims)
    if ord not in (None, 2):
        raise NotEncodable('norm ord=%r' % (ord,))
    x = _np.asarray(x, dtype=object)
    sq = x * x
    s = sq.sum(axis=axis, keepdims=keepdims)
    return sym_sqrt(s)


def sym_det(m):
    if not is_sym(m):
        return _np.linalg.det(m)
    m = _np.asarray(m, dtype=object)
    n = m.shape[0]
    if m.shape != (n, n):
        raise NotEncodable('det of non-square')
    if n == 1:
        return m[0, 0]
    if n == 2:
        return m[0, 0] * m[1, 1] - m[0, 1] * m[1, 0]
    if n == 3:
        return (m[0, 0] * (m[1, 1] * m[2, 2] - m[1, 2] * m[2, 1])
                - m[0, 1] * (m[1, 0] * m[2, 2] - m[1, 2] * m[2, 0])
                + m[0, 2] * (m[1, 0] * m[2, 1] - m[1, 1] * m[2, 0]))
    raise NotEncodable('det n=%d' % n)



def sym_array(obj, dtype=None, **kw):
    if is_sym(obj) or isinstance(obj, SymReal):
        kw.pop('copy', None)
        if isinstance(obj, SymReal):
            a = _np.empty((), dtype=object)
            a[()] = obj
            return a
        return _np.array(obj, dtype=object, **kw)
    return _np.array(obj, dtype=dtype, **kw)


def sym_asarray(obj, dtype=None, **kw):
    if isinstance(obj, _np.ndarray):
        return obj
    return sym_array(obj, dtype=dtype, **kw)


def sym_float(x=0.0):
    if isinstance(x, SymReal):
        return x
    return float(x)


def sym_isnan(x):
    if is_sym(x):
        if isinstance(x, _np.ndarray):
            return _np.zeros(x.shape, dtype=bool)
        return False
    return _np.isnan(x)


def sym_isfinite(x):
    if is_sym(x):
        if isinstance(x, _np.ndarray):
            return _np.ones(x.shape, dtype=bool)
        return True
    return _np.isfinite(x)


def sym_isreal(x):
    if is_sym(x):
        return True
    return _np.isreal(x)


def sym_interp(x, xp, fp, left=None, right=None, period=None):
    """Exact piecewise-linear interpolation for small tables (knots may be symbolic).
    Sortedness of the knots is *not* assumed: it is recorded for the harness to assert."""
    if not (is_sym(x) or is_sym(xp) or is_sym(fp)):
        return _np.interp(x, xp, fp, left=left, right=right, period=period)
    xp = list(xp)
    fp = list(fp)
    if len(xp) > 12:
        raise NotEncodable('interp on a table of %d knots' % len(xp))
    ex = current()
    ex.note('interp_knots', [lift(k) for k in xp])

    def one(xv):
        xv = _S(xv)
        if xv <= xp[0]:
            return fp[0] if left is None else left
        for i in range(1, len(xp)):
            if xv <= xp[i]:
                if lift(xv) is lift(xp[i]):
                    return fp[i]                # evaluated AT a knot (same term): the knot value, as np.interp returns
                return fp[i - 1] + (fp[i] - fp[i - 1]) * (xv - xp[i - 1]) / (xp[i] - xp[i - 1])
        return fp[-1] if right is None else right
    if isinstance(x, _np.ndarray):
        out = _np.empty(x.shape, dtype=object)
        for idx in _np.ndindex(x.shape):
            out[idx] = one(x[idx])
        return out
    return one(x)


def sym_linspace(start, stop, num=50, endpoint=True, **kw):
    if not (is_sym(start) or is_sym(stop)):
        return _np.linspace(start, stop, num, endpoint=endpoint, **kw)
    num = int(num)
    out = _np.empty(num, dtype=object)
    div = (num - 1) if endpoint else num
    for i in range(num):
        if div == 0:
            out[i] = _S(start)
        else:
            out[i] = _S(start) + (_S(stop) - _S(start)) * Fraction(i, div)
    return out


def sym_sum(a, axis=None, **kw):
    if is_sym(a):
        a = _np.asarray(a, dtype=object)
        return a.sum(axis=axis)
    return _np.sum(a, axis=axis, **kw)


def sym_dot(a, b):
    if is_sym(a) or is_sym(b):
        return _np.dot(_np.asarray(a, dtype=object), _np.asarray(b, dtype=object))
    return _np.dot(a, b)


def sym_amax(a, axis=None, **kw):
    if is_sym(a):
        a = _np.asarray(a, dtype=object)
        if axis is not None:
            raise NotEncodable('amax with axis on symbolic array')
        it = iter(a.flat)
        m = next(it)
        for v in it:
            m = _smax(m, v)
        return m
    return _np.amax(a, axis=axis, **kw)


def sym_amin(a, axis=None, **kw):
    if is_sym(a):
        a = _np.asarray(a, dtype=object)
        if axis is not None:
            raise NotEncodable('amin with axis on symbolic array')
        it = iter(a.flat)
        m = next(it)
        for v in it:
            m = _smin(m, v)
        return m
    return _np.amin(a, axis=axis, **kw)


def sym_any(a, *args, **kw):
    if is_sym(a):
        a = _np.asarray(a, dtype=object)
        return any(bool(v) for v in a.flat)
    return _np.any(a, *args, **kw)


def sym_all(a, *args, **kw):
    if is_sym(a):
        a = _np.asarray(a, dtype=object)
        return all(bool(v) for v in a.flat)
    return _np.all(a, *args, **kw)


def sym_logical_and(a, b):
    if is_sym(a) or is_sym(b):
        return _binary(lambda x, y: _asbool(x) & _asbool(y), None, 'logical_and')(a, b)
    return _np.logical_and(a, b)


def sym_logical_or(a, b):
    if is_sym(a) or is_sym(b):
        return _binary(lambda x, y: _asbool(x) | _asbool(y), None, 'logical_or')(a, b)
    return _np.logical_or(a, b)


def sym_logical_not(a):
    if is_sym(a):
        if isinstance(a, SymBool):
            return ~a
        return _elementwise(lambda x: x, None, 'not')(a) if False else _np.array(
            [~_asbool(v) for v in _np.asarray(a, dtype=object).flat], dtype=object).reshape(_np.shape(a))
    return _np.logical_not(a)


def _asbool(x):
    if isinstance(x, SymBool):
        return x
    if isinstance(x, SymReal):
        return SymBool(T.ne(x.t, T.ZERO))
    return SymBool(T.boolc(bool(x)))


def _obj_filled(val):
    def mkarr(shape=None, dtype=None, **kw):
        if shape is None:
            shape = kw.pop('shape')
        a = _np.empty(shape, dtype=object)
        if a.ndim == 0:
            a[()] = val
        else:
            a.fill(val)
        return a
    return mkarr


sym_zeros = _obj_filled(0.0)
sym_ones = _obj_filled(1.0)


def _uninit(shape):
    """np.empty / np.empty_like: uninitialised memory is an ARBITRARY value, not zero -- every element is a fresh symbol
    (`uninit#k'), so a read before the first write shows up in whatever is computed from it.  Large arrays (never read
    element-wise by the code paths the harnesses drive) and calls outside an exploration keep the old zero filling."""
    a = _np.empty(shape, dtype=object)
    try:
        ex = current()
    except RuntimeError:
        ex = None
    if ex is None or a.size > 64:
        if a.ndim == 0:
            a[()] = 0.0
        else:
            a.fill(0.0)
        return a
    for idx in _np.ndindex(a.shape):
        a[idx] = ex.fresh('uninit')
    if a.ndim == 0:
        a[()] = ex.fresh('uninit')
    return a


def sym_empty(shape=None, dtype=None, **kw):
    if shape is None:
        shape = kw.pop('shape')
    return _uninit(shape)


def sym_empty_like(a, dtype=None, **kw):
    return _uninit(_np.shape(a))


def _like(val):
    def f(a, dtype=None, **kw):
        out = _np.empty(_np.shape(a), dtype=object)
        if out.ndim == 0:
            out[()] = val
        else:
            out.fill(val)
        return out
    return f


def sym_full(shape, fill_value, dtype=None, **kw):
    a = _np.empty(shape, dtype=object)
    a.fill(fill_value)
    return a


def sym_inv(m):
    if not is_sym(m):
        m2 = _np.asarray(m)
        if m2.dtype == object:
            m2 = m2.astype(float)
        return _np.linalg.inv(m2)
    m = _np.asarray(m, dtype=object)
    n = m.shape[0]
    det = sym_det(m)
    out = _np.empty((n, n), dtype=object)
    if n == 1:
        out[0, 0] = 1 / m[0, 0]
        return out
    if n == 2:
        out[0, 0] = m[1, 1] / det
        out[0, 1] = -m[0, 1] / det
        out[1, 0] = -m[1, 0] / det
        out[1, 1] = m[0, 0] / det
        return out
    if n == 3:
        for i in range(3):
            for j in range(3):
                # cofactor of (j, i)
                rows = [r for r in range(3) if r != j]
                cols = [c for c in range(3) if c != i]
                minor = m[rows[0], cols[0]] * m[rows[1], cols[1]] - m[rows[0], cols[1]] * m[rows[1], cols[0]]
                sign = -1 if (i + j) % 2 else 1
                out[i, j] = sign * minor / det
        return out
    raise NotEncodable('inv n=%d' % n)


def _cmpfn(op, real):
    import operator
    f = getattr(operator, op)
    return _binary(lambda a, b: f(_S(a), b) if isinstance(a, SymReal) or isinstance(b, SymReal) else f(a, b), real, op)


OVERRIDES = {
    'greater': _cmpfn('gt', _np.greater), 'greater_equal': _cmpfn('ge', _np.greater_equal),
    'less': _cmpfn('lt', _np.less), 'less_equal': _cmpfn('le', _np.less_equal),
    'zeros': sym_zeros, 'ones': sym_ones, 'empty': sym_empty, 'full': sym_full,
    'finfo': (lambda t=float: _np.finfo(float if t is sym_float else t)),
    'zeros_like': _like(0.0), 'ones_like': _like(1.0), 'empty_like': sym_empty_like,
    'sqrt': sym_sqrt, 'exp': sym_exp, 'log': sym_log, 'log10': sym_log10,
    'sin': sym_sin, 'cos': sym_cos, 'tan': sym_tan,
    'arctan': sym_arctan, 'arccos': sym_arccos, 'arcsin': sym_arcsin, 'arctan2': sym_arctan2,
    'sinh': sym_sinh, 'cosh': sym_cosh, 'tanh': sym_tanh, 'cbrt': sym_cbrt,
    'abs': sym_abs, 'absolute': sym_abs, 'fabs': sym_abs, 'square': sym_square, 'sign': sym_sign,
    'maximum': sym_maximum, 'minimum': sym_minimum, 'power': sym_power, 'hypot': sym_hypot,
    'where': sym_where, 'isclose': sym_isclose, 'interp': sym_interp, 'linspace': sym_linspace,
    'array': sym_array, 'asarray': sym_asarray, 'asanyarray': sym_asarray,
    'isnan': sym_isnan, 'isfinite': sym_isfinite, 'isreal': sym_isreal,
    'sum': sym_sum, 'dot': sym_dot, 'amax': sym_amax, 'amin': sym_amin, 'max': sym_amax, 'min': sym_amin,
    'any': sym_any, 'all': sym_all,
    'logical_and': sym_logical_and, 'logical_or': sym_logical_or, 'logical_not': sym_logical_not,
    'float64': sym_float, 'double': sym_float,
}


class _LinalgProxy(object):
    norm = staticmethod(sym_norm)
    det = staticmethod(sym_det)
    inv = staticmethod(sym_inv)

    def __getattr__(self, name):
        return getattr(_np.linalg, name)


class NumpyProxy(object):
    """Stands in for the numpy module inside the module under analysis."""

    def __init__(self, symbolic_pi=True):
        self._symbolic_pi = symbolic_pi
        self.linalg = _LinalgProxy()

    def __getattr__(self, name):
        if name == 'pi' and self._symbolic_pi:
            return sym('PI')
        if name == 'e':
            return sym('EULER')
        o = OVERRIDES.get(name)
        if o is not None:
            return o
        return getattr(_np, name)


class MathProxy(object):
    def __init__(self, symbolic_pi=True):
        self._symbolic_pi = symbolic_pi

    def __getattr__(self, name):
        if name == 'pi' and self._symbolic_pi:
            return sym('PI')
        if name == 'e':
            return sym('EULER')
        if name in ('sqrt', 'exp', 'log', 'sin', 'cos', 'tan', 'sinh', 'cosh', 'tanh', 'fabs',
                    'log10', 'hypot'):
            return OVERRIDES[name]
        if name == 'atan':
            return sym_arctan
        if name == 'acos':
            return sym_arccos
        if name == 'asin':
            return sym_arcsin
        if name == 'atan2':
            return sym_arctan2
        if name == 'pow':
            return sym_power
        if name == 'isnan':
            return sym_isnan
        if name == 'isfinite':
            return sym_isfinite
        return getattr(_math, name)


# identity map: real function object -> override (for `from numpy import sqrt' style)
def _identity_map():
    m = {}
    for name, o in OVERRIDES.items():
        r = getattr(_np, name, None)
        if r is not None:
            m[id(r)] = o
    for mname, oname in (('sqrt', 'sqrt'), ('exp', 'exp'), ('log', 'log'), ('sin', 'sin'),
                         ('cos', 'cos'), ('tan', 'tan'), ('sinh', 'sinh'), ('cosh', 'cosh'),
                         ('tanh', 'tanh'), ('fabs', 'abs'), ('log10', 'log10'), ('hypot', 'hypot')):
        m[id(getattr(_math, mname))] = OVERRIDES[oname]
    m[id(_math.atan)] = sym_arctan
    m[id(_math.acos)] = sym_arccos
    m[id(_math.asin)] = sym_arcsin
    m[id(_math.atan2)] = sym_arctan2
    m[id(_math.pow)] = sym_power
    return m


_IDMAP = _identity_map()
STUB_IDMAP = {}     # filled by symx.stubs: id(real scipy function) -> stub


@contextlib.contextmanager
def shimmed(modules, extra=None, symbolic_pi=True, builtins_shadow=('float',)):
    """Patch the given modules' globals; restore on exit."""
    saved = []
    npx = NumpyProxy(symbolic_pi)
    mx = MathProxy(symbolic_pi)
    missing = object()
    try:
        for mod in modules:
            g = mod.__dict__
            for name, val in list(g.items()):
                new = None
                if val is _np:
                    new = npx
                elif val is _math:
                    new = mx
                elif val is _np.linalg:
                    new = npx.linalg
                elif id(val) in _IDMAP and callable(val):
                    new = _IDMAP[id(val)]
                elif id(val) in STUB_IDMAP:
                    new = STUB_IDMAP[id(val)]
                elif symbolic_pi and isinstance(val, float) and val == _math.pi and name.lower() in ('pi',):
                    new = sym('PI')
                if new is not None:
                    saved.append((g, name, val))
                    g[name] = new
            for b in builtins_shadow:
                if b == 'float' and 'float' not in g:
                    saved.append((g, 'float', missing))
                    g['float'] = sym_float
            for name, val in (extra or {}).items():
                saved.append((g, name, g.get(name, missing)))
                g[name] = val
        yield
    finally:
        for g, name, val in reversed(saved):
            if val is missing:
                g.pop(name, None)
            else:
                g[name] = val


class Recorder(object):
    """Stands in for exactpack.base.ExactSolution: records what the solver returns."""

    def __init__(self, data, names, jumps=None):
        object.__setattr__(self, 'data', list(data))
        object.__setattr__(self, 'names', list(names))
        object.__setattr__(self, 'jumps', jumps)

    def __getattr__(self, name):
        names = self.__dict__.get('names', [])
        if name in names:
            return self.__dict__['data'][names.index(name)]
        raise AttributeError(name)

    def __setattr__(self, name, value):
        names = self.__dict__.get('names', [])
        if name in names:
            self.__dict__['data'][names.index(name)] = value
        else:
            object.__setattr__(self, name, value)

    def __len__(self):
        return len(self.data[0])

    def __getitem__(self, name):
        return self.data[self.names.index(name)]

    def get(self, name, default=None):
        return self.data[self.names.index(name)] if name in self.names else default

    def field(self, name, i=0):
        a = self.data[self.names.index(name)]
        if isinstance(a, _np.ndarray):
            return a[i]
        return a
