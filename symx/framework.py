"""Obligations, claim contexts (symbolic / numeric), the per-obligation decision procedure
and the parallel runner.

An Obligation describes one bounded verification task:

    modules   : ExactPack modules whose globals are shimmed while the code runs
    build(mk) : runs the REAL code; mk(name) yields the input called `name' (a SymReal when
                executed symbolically, a float when replayed); returns {output name: value}
    domain(V) : admissible-input assumptions, list of bool Terms (V(name) -> var Term)
    claims(cx): the property, written once over a claim context `cx' and used both
                symbolically (terms -> z3) and numerically (floats + finite differences,
                for replaying solver witnesses against the unshimmed code)

Decision per path of build(): z3 is asked for  domain & path-condition & stub-contracts &
definedness & NOT claim.  unsat = claim holds for every real input on that path; sat =
witness, replayed on the real code before it is reported; unknown = inconclusive.
"""
import os
import sys
import json
import time
import math
import hashlib
import inspect
import traceback
import multiprocessing as mp
from fractions import Fraction

import numpy as np

from . import terms as T
from . import smt
from . import diff as D
from .terms import NotEncodable
from .engine import SymReal, SymBool, Explorer, sym, lift, term_of
from .shim import shimmed, Recorder


# =============================================================================== claims

class Claim(object):
    __slots__ = ('label', 'kind', 'a', 'b', 'when', 'scale', 'tol', 'note', 'lemma')

    def __init__(self, label, kind, a, b=None, when=None, scale=None, tol=None, note=''):
        self.label = label
        self.kind = kind          # 'eq' | 'ge' | 'gt' | 'le' | 'lt' | 'true'
        self.a = a
        self.b = b
        self.when = when
        self.scale = scale
        self.tol = tol
        self.note = note
        self.lemma = False


class BaseCtx(object):
    """What claims() sees.  Subclasses: SymCtx, NumCtx."""
    symbolic = False

    def __init__(self):
        self.claims = []

    # -- claim constructors
    def eq(self, label, a, b, when=None, tol=None, scale=None):
        self.claims.append(Claim(label, 'eq', a, b, when, scale, tol))

    def zero(self, label, addends, when=None, tol=None, scale_extra=()):
        tot = 0
        for x in addends:
            tot = tot + x
        sc = list(addends) + (list(scale_extra) if not self.symbolic else [])
        self.claims.append(Claim(label, 'eq', tot, 0, when, sc, tol))

    def ge(self, label, a, b, when=None, tol=None):
        self.claims.append(Claim(label, 'ge', a, b, when, None, tol))

    def gt(self, label, a, b, when=None, tol=None):
        self.claims.append(Claim(label, 'gt', a, b, when, None, tol))

    def le(self, label, a, b, when=None, tol=None):
        self.claims.append(Claim(label, 'ge', b, a, when, None, tol))

    def lt(self, label, a, b, when=None, tol=None):
        self.claims.append(Claim(label, 'gt', b, a, when, None, tol))

    def true(self, label, cond, when=None):
        self.claims.append(Claim(label, 'true', cond, None, when))

    def lemma(self, label, a, b, kind='eq'):
        """an auxiliary fact: decided like any claim; once the solver has proved it (unsat) it is added to the assumptions
        of the LATER claims of the same path (a two-step proof, each step discharged by the solver)"""
        c = Claim(label, kind, a, b)
        c.lemma = True
        self.claims.append(c)

    def defined(self, label, value, when=None):
        """the value is produced without any undefined operation (division by zero, root/log of a negative,
        ...): its definedness side conditions are ASSERTED here instead of assumed"""
        self.claims.append(Claim(label, 'defined', value, None, when))


class SymCtx(BaseCtx):
    symbolic = True

    def __init__(self, out, inputs, rules=None, path=None):
        BaseCtx.__init__(self)
        self.out = out
        self.inputs = inputs          # name -> SymReal
        self.rules = rules or {}      # Term -> {var: Term}  (derivatives of opaque nodes)
        self.path = path

    def __getitem__(self, k):
        return self.out[k]

    def __contains__(self, k):
        return k in self.out

    def p(self, name):
        return self.inputs[name]

    def d(self, f, x, order=1):
        """derivative of f (a value, or a function of ctx) w.r.t. input named x"""
        v = f(self) if callable(f) else f
        if isinstance(v, np.ndarray):
            return np.array([self.d(e, x, order) for e in v.flat], dtype=object).reshape(v.shape)
        t = term_of(v)
        r = {k: dv[x] for k, dv in self.rules.items() if x in dv}
        for _ in range(order):
            t = D.d(t, x, r)
        return SymReal(t)

    def dlog(self, f, x):
        """logarithmic derivative (d f/dx)/f, computed structurally (power-law factors drop out)"""
        v = f(self) if callable(f) else f
        r = {k: dv[x] for k, dv in self.rules.items() if x in dv}
        return SymReal(D.logd(term_of(v), x, r))

    def sqrt(self, v):
        return SymReal(T.pw(term_of(v), T.HALF))

    def abs(self, v):
        return abs(v) if isinstance(v, SymReal) else abs(v)

    def fn(self, name, *args):
        return SymReal(T.func(name, *[term_of(a) for a in args]))

    def const(self, name):
        if name == 'PI':
            return sym('PI')
        raise KeyError(name)

    def ite(self, c, a, b):
        if isinstance(c, SymBool):
            return SymReal(T.ite(c.t, term_of(a), term_of(b)))
        return a if c else b


class NumCtx(BaseCtx):
    """Numeric twin: evaluates build() on the real, unshimmed code with floats."""

    def __init__(self, ob, env, cache=None):
        BaseCtx.__init__(self)
        self.ob = ob
        self.env = dict(env)
        self._cache = cache if cache is not None else {}
        self._out = None

    def _run(self):
        if self._out is None:
            key = tuple(sorted(self.env.items()))
            if key not in self._cache:
                self._cache[key] = self.ob.run_concrete(self.env)
            self._out = self._cache[key]
        return self._out

    def __getitem__(self, k):
        return self._run()[k]

    def __contains__(self, k):
        return k in self._run()

    def p(self, name):
        return self.env[name]

    def at(self, **changes):
        e = dict(self.env)
        e.update(changes)
        return NumCtx(self.ob, e, self._cache)

    def d(self, f, x, order=1):
        if order == 2:
            return self.d(lambda c: c.d(f, x), x)
        if not callable(f):
            raise TypeError('numeric derivative needs a function of the context: pass lambda c: ...')
        x0 = self.env[x]
        h = max(abs(x0), 1e-3) * 1e-3

        def cd(hh):
            return (np.asarray(f(self.at(**{x: x0 + hh})), dtype=float)
                    - np.asarray(f(self.at(**{x: x0 - hh})), dtype=float)) / (2 * hh)
        a1 = cd(h)
        a2 = cd(h / 2)
        r = (4 * a2 - a1) / 3
        return float(r) if np.ndim(r) == 0 else r

    def dlog(self, f, x):
        return self.d(f, x) / f(self)

    def sqrt(self, v):
        return math.sqrt(v)

    def abs(self, v):
        return abs(v)

    def fn(self, name, *args):
        return T._FN[name](*args)

    def const(self, name):
        if name == 'PI':
            return math.pi
        raise KeyError(name)

    def ite(self, c, a, b):
        return a if c else b


# =============================================================================== obligation

class Obligation(object):
    """Base class; harness modules subclass or instantiate with callables."""
    id = ''
    prop = ''
    quick = True
    modules = ()
    extra_shim = None
    max_paths = 64
    timeout_s = 30            # per solver query (quick tier)
    timeout_thorough_s = 300  # per solver query (thorough tier)
    hard_timeout_s = 600      # whole obligation (wall), enforced by the runner
    symbolic_pi = True
    bounds = ''               # text: what is bounded for this obligation
    functions = ()            # real functions executed (for evidence: qualified names + hashes)
    replay_tol = 1e-6         # relative residual that counts as a reproduced violation
    deriv_tol = 1e-4          # same, for claims involving numeric derivatives
    approx_ok = False         # encoding may over-approximate (free atoms)

    def __init__(self, **kw):
        for k, v in kw.items():
            setattr(self, k, v)

    # --- to be provided
    def build(self, mk):
        raise NotImplementedError

    def domain(self, V):
        return []

    def claims(self, cx):
        raise NotImplementedError

    # --- optional hooks
    def shim_extra(self):
        return self.extra_shim or {}

    def rules(self, out):
        """{Term: {var: Term}} derivative rules for opaque nodes of this path."""
        return {}

    def run_concrete(self, env):
        """Run build() on the real code with floats (no shim)."""
        import io
        import contextlib
        import warnings
        with contextlib.redirect_stdout(io.StringIO()), warnings.catch_warnings():
            warnings.simplefilter('ignore')
            with np.errstate(all='ignore'):
                try:
                    return self.build(lambda name: env[name])
                except Exception as e:
                    handler = getattr(self, 'on_exception', None)
                    if handler is None:
                        raise
                    out = handler(e)
                    if out is None:
                        raise
                    return out

    def input_names(self):
        return None


class _Mk(object):
    def __init__(self):
        self.names = []
        self.vals = {}

    def __call__(self, name):
        if name not in self.vals:
            self.vals[name] = sym(name)
            self.names.append(name)
        return self.vals[name]


def V(name):
    return T.var(name)


# ------------------------------------------------------------------ helpers on claims

def _claim_term(c):
    """bool Term of a claim (symbolic), and the list of Terms whose definedness it needs."""
    if c.kind == 'defined':
        t = T.TRUE
        w = None
        if c.when is not None:
            w = c.when.t if isinstance(c.when, SymBool) else (c.when if isinstance(c.when, T.Term) else T.boolc(bool(c.when)))
        return t, w
    if c.kind == 'true':
        t = c.a.t if isinstance(c.a, SymBool) else (T.boolc(bool(c.a)) if not isinstance(c.a, T.Term) else c.a)
    else:
        a = term_of(c.a)
        b = term_of(c.b)
        t = {'eq': T.eq, 'ge': T.ge, 'gt': T.gt}[c.kind](a, b)
    w = None
    if c.when is not None:
        w = c.when.t if isinstance(c.when, SymBool) else (c.when if isinstance(c.when, T.Term) else T.boolc(bool(c.when)))
    return t, w


def _num_claim_violated(c, tol):
    """(violated?, rel residual, detail) for a numeric claim."""
    if c.when is not None and not bool(c.when):
        return (False, 0.0, 'precondition false at the witness')
    if c.kind == 'true':
        return ((not bool(c.a)), 1.0 if not bool(c.a) else 0.0, 'boolean claim')
    if c.kind == 'defined':
        try:
            v = float(c.a)
        except Exception as e:
            return (True, float('inf'), 'value not a real number: %s' % e)
        bad = not math.isfinite(v)
        return (bad, float('inf') if bad else 0.0, 'value=%r' % v)
    a = float(c.a)
    b = float(c.b)
    if c.scale is not None:
        sc = max([abs(float(s)) for s in c.scale] + [1e-300])
    else:
        sc = max(abs(a), abs(b), 1e-300)
    if not (math.isfinite(a) and math.isfinite(b)):
        return (True, float('inf'), 'non-finite value a=%r b=%r' % (a, b))
    if c.kind == 'eq':
        rel = abs(a - b) / sc
        return (rel > tol, rel, 'lhs=%.17g rhs=%.17g scale=%.3g' % (a, b, sc))
    if c.kind == 'ge':
        rel = (b - a) / sc
        return (rel > tol, rel, 'a=%.17g b=%.17g' % (a, b))
    if c.kind == 'gt':
        rel = (b - a) / sc
        return (rel > -tol * 1e-3 and a <= b, rel, 'a=%.17g b=%.17g' % (a, b))
    raise AssertionError(c.kind)


def frac_env(model):
    return {k: (float(v) if isinstance(v, Fraction) else v) for k, v in model.items()}


def func_fingerprint(f):
    try:
        src = inspect.getsource(f)
    except (OSError, TypeError):
        src = repr(f)
    name = getattr(f, '__module__', '?') + '.' + getattr(f, '__qualname__', getattr(f, '__name__', '?'))
    return {'function': name, 'sha1': hashlib.sha1(src.encode()).hexdigest()[:12]}


# =============================================================================== deciding one obligation

def decide(ob, tier='quick', seed=0):
    """Run one obligation; returns a JSON-able result dict."""
    t_start = time.time()
    res = {
        'id': ob.id, 'prop': ob.prop, 'status': 'discharged', 'paths': 0, 'claims': 0,
        'queries': 0, 'solver_s': 0.0, 'discharged': 0, 'inconclusive': [], 'violations': [],
        'validated': 0, 'validation_skipped': 0, 'bounds': ob.bounds, 'notes': [],
        'functions': [func_fingerprint(f) for f in ob.functions],
        'samples': [], 'raising_paths': 0, 'error': None, 'distinct_claims': [],
    }
    smt.QUERY_LOG[:] = []
    try:
        _decide(ob, tier, res)
    except NotEncodable as e:
        res['status'] = 'inconclusive'
        res['inconclusive'].append({'label': '*', 'reason': 'not encodable: %s' % e})
    except Exception as e:
        res['status'] = 'error'
        res['error'] = '%s: %s\n%s' % (type(e).__name__, e, traceback.format_exc()[-3000:])
    res['queries'] = len(smt.QUERY_LOG)
    res['solver_s'] = round(sum(q[2] for q in smt.QUERY_LOG), 3)
    res['wall_s'] = round(time.time() - t_start, 3)
    if res['status'] == 'discharged' and res['inconclusive']:
        res['status'] = 'inconclusive'
    if res['violations']:
        res['status'] = 'violated'
    return res


def _decide(ob, tier, res):
    t_begin = time.time()
    budget = getattr(ob, 'budget_s', 100)
    if tier == 'thorough':
        # the thorough tier is sized by total wall time: per-query and per-obligation caps (raise them through the
        # environment for a longer run; what is not decided within them is reported inconclusive)
        qcap = float(os.environ.get('SYMX_THOROUGH_QUERY_CAP_S', '150'))
        bcap = float(os.environ.get('SYMX_THOROUGH_BUDGET_S', '360'))
        ob.timeout_s = max(ob.timeout_s, min(ob.timeout_thorough_s, qcap))
        budget = max(budget, min(getattr(ob, 'budget_thorough_s', 1200), bcap))
    smt.TRIG_SIGN_AXIOMS = bool(getattr(ob, 'trig_sign_axioms', False))
    mk = _Mk()
    explorer = Explorer(domain=[], max_paths=ob.max_paths, budget_s=budget / 2.0)
    # domain needs variable names: run build once lazily -> we collect names as mk is called.
    # Domain terms may mention any names, so compute after a dry pass is unnecessary: domain(V)
    # only uses V(name) constructors.
    dom = list(ob.domain(V))
    explorer.domain = dom
    explorer.enc.domain_terms = dom
    enc = explorer.enc

    def fn():
        return ob.build(mk)

    with shimmed(list(ob.modules), ob.shim_extra(), symbolic_pi=ob.symbolic_pi):
        paths = explorer.run(fn)
    res['paths'] = len(paths)
    res['explorer'] = dict(explorer.stats)
    ob._input_names = list(mk.vals)
    if explorer.stats['capped']:
        res['inconclusive'].append({'label': '*', 'reason': 'path cap %d reached' % ob.max_paths})
    if not paths:
        raise RuntimeError('no path explored')
    cache = {}
    any_reachable = False
    for pi, p in enumerate(paths):
        pc = list(p.pc)
        if p.exc is not None:
            res['raising_paths'] += 1
            handler = getattr(ob, 'on_exception', None)
            if handler is None:
                # an exception on an admissible path: only NotEncodable matters here
                if isinstance(p.exc, NotEncodable):
                    res['inconclusive'].append({'label': 'path%d' % pi, 'reason': 'not encodable: %s' % p.exc})
                else:
                    res['notes'].append('path %d raises %s: %s' % (pi, type(p.exc).__name__, str(p.exc)[:120]))
                continue
            out = handler(p.exc)
            if out is None:
                continue
        else:
            out = p.value
        rules_ = ob.rules(out) if p.exc is None else {}
        if getattr(ob, 'implicit_roots', False) and p.exc is None:
            rules_ = dict(rules_)
            rules_.update(implicit_rules(p, list(mk.vals)))
        cx = SymCtx(out, mk.vals, rules=rules_, path=p)
        ob.claims(cx)
        # reachability twin
        base = dom + pc
        zbase = [enc.tr(t) for t in base] + [enc.defined(t) for t in base]
        zout = []
        try:
            for k_, v_ in out.items():
                for e_ in np.asarray(v_, dtype=object).ravel():
                    t_ = lift(e_)
                    if t_ is not None:
                        zout.append(enc.defined(t_))
        except NotEncodable:
            zout = []
        tw_to = getattr(ob, 'twin_timeout_s', 5)
        tw = smt.solve(enc, zbase + zout + _nice(enc), tw_to, label=ob.id + ':twin')
        if tw.status == 'unsat':
            tw = smt.solve(enc, zbase + zout, tw_to, label=ob.id + ':twin')
        if tw.status == 'unsat':
            tw = smt.solve(enc, zbase, tw_to, label=ob.id + ':twin')
        if tw.status == 'unsat':
            res['notes'].append('path %d infeasible under definedness (skipped)' % pi)
            continue
        if tw.status == 'sat':
            any_reachable = True
            _validate(ob, enc, out, tw.model, res, cache, p)
        else:
            res['notes'].append('path %d: reachability twin unknown' % pi)
            any_reachable = True
        if getattr(ob, 'congruence', False):
            # translate every claim first (creates the atoms), then let the solver identify atoms whose
            # arguments it can prove equal on this path; the proven equalities are lemmas for the claims
            for c in cx.claims:
                try:
                    ct_, w_ = _claim_term(c)
                    enc.tr(ct_)
                    if w_ is not None:
                        enc.tr(w_)
                except NotEncodable:
                    pass
            lem, nq = _congruence(enc, zbase, getattr(ob, 'congruence_budget_s', 60))
            zbase = zbase + lem
            res['congruence_lemmas'] = res.get('congruence_lemmas', 0) + len(lem)
        for c in cx.claims:
            res['claims'] += 1
            label = '%s[path%d]' % (c.label, pi) if len(paths) > 1 else c.label
            if time.time() - t_begin > budget:
                res['inconclusive'].append({'label': label, 'reason': 'not attempted: the obligation used up its %ds budget for this tier' % budget})
                continue
            try:
                ct, when = _claim_term(c)
                if c.kind == 'defined':
                    vt = lift(c.a)
                    if vt is None:
                        # a plain Python value: defined iff it is a finite number
                        ok = isinstance(c.a, (int, float, np.floating, np.integer)) and math.isfinite(float(c.a))
                        if ok:
                            res['discharged'] += 1
                        else:
                            res['violations'].append({'obligation': ob.id, 'label': c.label, 'claim': label,
                                                      'assertion': 'value is %r on this path' % (c.a,), 'witness': {}, 'witness_float': {},
                                                      'replay': {'reproduced': True, 'detail': 'non-finite constant output'}})
                        continue
                    zdef = enc.defined(vt)
                    zb2 = [enc.tr(t_) for t_ in base]      # path condition WITHOUT its own definedness assumptions
                    ex2 = [enc.tr(when)] if when is not None else []
                    res['distinct_claims'].append(hashlib.sha1(str(zdef).encode()).hexdigest()[:10])
                    v = smt.solve(enc, zb2 + ex2 + [z3not(zdef)], ob.timeout_s, label=ob.id + ':' + label)
                    if v.status == 'unsat':
                        res['discharged'] += 1
                    elif v.status == 'unknown':
                        res['inconclusive'].append({'label': label, 'reason': 'solver: unknown (%s) after %.0fs' % (v.reason, v.seconds)})
                    else:
                        _handle_witness(ob, enc, c, T.TRUE, zdef, zb2 + ex2, v, label, res, cache)
                    continue
                if ct is T.TRUE:
                    res['discharged'] += 1
                    res['notes'].append('%s: constant-folded to true by the encoder' % label)
                    continue
                zc = enc.tr(ct)
                extra = [enc.defined(ct)]
                if when is not None:
                    extra += [enc.tr(when), enc.defined(when)]
                res['distinct_claims'].append(hashlib.sha1(str(zc).encode()).hexdigest()[:10])
                # stage A: try to prove the claim from the domain and the simple (non-equational) stub
                # bounds alone -- a stronger statement that spares the solver the path condition
                if getattr(ob, 'stage_a', True) and (pc or p.assumes):
                    simple = [a for a in p.assumes if a.op != 'eq']
                    zA = [enc.tr(t) for t in dom + simple] + [enc.defined(t) for t in dom + simple]
                    va = smt.solve(enc, zA + extra + [z3not(zc)], max(3, min(10, ob.timeout_s / 3.0)),
                                   label=ob.id + ':' + label + ':stageA', want_model=False)
                    if va.status == 'unsat':
                        res['discharged'] += 1
                        res['stage_a'] = res.get('stage_a', 0) + 1
                        if getattr(c, 'lemma', False):
                            zbase = zbase + [zc]
                            res['lemmas_used'] = res.get('lemmas_used', 0) + 1
                        if len(res['samples']) < 3:
                            res['samples'].append({'obligation': ob.id, 'claim': label, 'path_condition': '(not needed: proved from the domain alone)',
                                                   'assertion': T.show(ct, 300), 'verdict': 'unsat', 'seconds': round(va.seconds, 3)})
                        continue
                if when is not None:
                    # cheap pre-check: is the claim's precondition reachable on this path at all?
                    pre = smt.solve(enc, zbase + extra[1:], getattr(ob, 'when_timeout_s', 2), label=ob.id + ':' + label + ':when', want_model=False)
                    if pre.status == 'unsat':
                        res['discharged'] += 1
                        res['vacuous_when'] = res.get('vacuous_when', 0) + 1
                        continue
                v = smt.solve(enc, zbase + extra + [z3not(zc)], ob.timeout_s, label=ob.id + ':' + label)
            except NotEncodable as e:
                res['inconclusive'].append({'label': label, 'reason': 'not encodable: %s' % e})
                continue
            if len(res['samples']) < 3:
                res['samples'].append({'obligation': ob.id, 'claim': label,
                                       'path_condition': [T.show(t, 160) for t in pc][:6],
                                       'assertion': T.show(ct, 300), 'verdict': v.status,
                                       'seconds': round(v.seconds, 3)})
            if v.status == 'unsat':
                res['discharged'] += 1
                if getattr(c, 'lemma', False):
                    zbase = zbase + [zc]
                    res['lemmas_used'] = res.get('lemmas_used', 0) + 1
            elif v.status == 'unknown':
                found = False
                if any(t.op == 'eq' for t in base) and not getattr(c, 'lemma', False) and time.time() - t_begin < budget:
                    # the full query did not finish.  Models of path conditions with stub equations are what z3 is worst at:
                    # ask for a CANDIDATE instead -- a model of the same query without the equations (the solver's own
                    # value for a root is not needed: the replay computes the real one) -- and let the replay on the real
                    # code decide.  Reproduced = a violation like any other; not reproduced = still inconclusive.
                    try:
                        keep = [t for t in base if t.op != 'eq']
                        zrel = [enc.tr(t) for t in keep] + [enc.defined(t) for t in keep]
                        v3 = smt.solve(enc, zrel + extra + [z3not(zc)] + _nice(enc), min(10, ob.timeout_s),
                                       label=ob.id + ':' + label + ':candidate')
                        if v3.status == 'sat':
                            tmp = {'violations': [], 'inconclusive': []}
                            _handle_witness(ob, enc, c, ct, zc, zrel + extra, v3, label, tmp, cache,
                                            refine=(keep + ([when] if when is not None else []), ct))
                            if tmp['violations']:
                                for e_ in tmp['violations']:
                                    e_['replay']['note'] = ('candidate from the query without the stub equations (full query: unknown); '
                                                            + e_['replay'].get('note', '')).strip()
                                res['violations'] += tmp['violations']
                                found = True
                    except NotEncodable:
                        pass
                if not found:
                    res['inconclusive'].append({'label': label, 'reason': 'solver: unknown (%s) after %.0fs' % (v.reason, v.seconds)})
            else:
                _handle_witness(ob, enc, c, ct, zc, zbase + extra, v, label, res, cache,
                                refine=(list(base) + ([when] if when is not None else []), ct))
    if not any_reachable:
        if getattr(ob, 'allow_vacuous', False):
            # a case split whose case cannot occur under the domain (stated by the harness): nothing to decide
            res['vacuous_case'] = True
            return
        raise RuntimeError('vacuous obligation: no path is reachable under the domain')
    # cross-path claims (e.g. continuity across a branch): the harness gets every returning
    # path's (condition, outputs) and yields (label, [assumption Terms], claim Term, numeric_check)
    cross = getattr(ob, 'cross', None)
    if cross is not None:
        good = [(T.land(*p.pc) if p.pc else T.TRUE, p.value) for p in paths if p.exc is None]
        for label, assume, ct, numcheck in cross(good, mk.vals):
            res['claims'] += 1
            try:
                zb = [enc.tr(t) for t in dom + list(assume)] + [enc.defined(t) for t in dom + list(assume)]
                zc = enc.tr(ct)
                res['distinct_claims'].append(hashlib.sha1(str(zc).encode()).hexdigest()[:10])
                v = smt.solve(enc, zb + [enc.defined(ct), z3not(zc)], ob.timeout_s, label=ob.id + ':' + label)
            except NotEncodable as e:
                res['inconclusive'].append({'label': label, 'reason': 'not encodable: %s' % e})
                continue
            if len(res['samples']) < 4:
                res['samples'].append({'obligation': ob.id, 'claim': label, 'assertion': T.show(ct, 300),
                                       'assuming': [T.show(a, 120) for a in assume][:4],
                                       'verdict': v.status, 'seconds': round(v.seconds, 3)})
            if v.status == 'unsat':
                res['discharged'] += 1
            elif v.status == 'unknown':
                res['inconclusive'].append({'label': label, 'reason': 'solver: unknown (%s) after %.0fs' % (v.reason, v.seconds)})
            else:
                env = {k: val for k, val in frac_env(v.model).items() if '!' not in k and '#' not in k}
                try:
                    rep = numcheck(env) if numcheck is not None else {'reproduced': False, 'detail': 'no numeric replay for this cross-path claim'}
                except Exception as e:
                    rep = {'reproduced': False, 'detail': 'replay raised %s: %s' % (type(e).__name__, e)}
                entry = {'obligation': ob.id, 'label': label, 'claim': label, 'assertion': T.show(ct, 400),
                         'witness': {k: str(val) for k, val in v.model.items() if '!' not in k},
                         'witness_float': env, 'replay': rep}
                if rep.get('reproduced'):
                    res['violations'].append(entry)
                else:
                    res['inconclusive'].append({'label': label, 'reason': 'solver witness did not reproduce on the real code: %s' % rep.get('detail', '')})


def _congruence(enc, zbase, budget_s=60, per_query_s=2):
    """Solver-proved congruence: two root variables (same index) or two atoms of the same function whose
    arguments are provably equal under zbase are equal.  Returns ([z3 lemmas], queries).  Each lemma is
    justified by an `unsat' answer; later proofs may use earlier lemmas (inner atoms come first)."""
    import z3
    items = []
    for key, w in enc.roots.items():
        if isinstance(key[0], T.Term):
            items.append((('root', key[1]), w, [enc.memo[key[0]]]))
    for key, v in enc.fn_atoms.items():
        if str(key.args[0]).startswith('uf:'):
            continue
        items.append((('fn', key.args[0], len(key.args)), v, [enc.memo[a] for a in key.args[1:]]))

    def idx(v):
        try:
            return int(str(v).split('!')[-1])
        except ValueError:
            return 0
    items.sort(key=lambda it: idx(it[1]))
    lemmas = []
    t0 = time.time()
    nq = 0
    for j in range(len(items)):
        for i in range(j):
            if items[i][0] != items[j][0]:
                continue
            if time.time() - t0 > budget_s:
                return lemmas, nq
            same = z3.And(*[a == b for a, b in zip(items[i][2], items[j][2])])
            s = z3.Solver()
            s.set('timeout', int(per_query_s * 1000))
            for z in zbase + lemmas:
                s.add(z)
            for ax in enc.axioms:
                s.add(ax)
            s.add(z3.Not(same))
            nq += 1
            t1 = time.time()
            r = str(s.check())
            smt.QUERY_LOG.append(('congruence', r, time.time() - t1))
            if r == 'unsat':
                lemmas.append(items[i][1] == items[j][1])
    return lemmas, nq


def z3not(z):
    import z3
    return z3.Not(z)


def _nice(enc, allow_zero=True):
    """soft preference for moderate witness values (tried first, dropped if unsat)"""
    import z3
    out = []
    for name, v in list(enc.vars.items()):
        if name in ('PI', 'EULER') or '!' in name:
            continue
        nz = z3.Or(v >= z3.RealVal('1/64'), v <= z3.RealVal('-1/64'))
        out.append(z3.And(v <= 64, v >= -64, z3.Or(nz, v == 0) if allow_zero else nz))
    return out


def _nice_soft(enc, s_assert, timeout_s):
    """a model of s_assert in which as many variables as possible are moderate and non-zero (greedy)"""
    import z3
    vs = [(n, v) for n, v in enc.vars.items() if n not in ('PI', 'EULER') and '!' not in n]
    s = z3.Solver()
    s.set('timeout', int(timeout_s * 1000))
    for a in s_assert:
        s.add(a)
    for ax in enc.axioms:
        s.add(ax)
    if str(s.check()) != 'sat':
        return None
    t0 = time.time()
    for n, v in vs:
        if time.time() - t0 > timeout_s:
            break
        s.push()
        s.add(z3.And(v <= 64, v >= -64, z3.Or(v >= z3.RealVal('1/64'), v <= z3.RealVal('-1/64'))))
        if str(s.check()) != 'sat':
            s.pop()
    if str(s.check()) != 'sat':
        return None
    m = s.model()
    return {name: smt.z3val_to_fraction(m.eval(v, model_completion=True)) for name, v in enc.vars.items()}


def _robust_pc(p):
    return True


def _validate(ob, enc, out, model, res, cache, p):
    """Encoding validation: terms evaluated at the twin's model == real code run on floats."""
    if getattr(ob, 'skip_validation', False):
        res['validation_skipped'] += 1
        return
    env = frac_env(model)
    try:
        # is the model robustly inside the path (no branch atom sitting on its boundary)?
        for t in p.pc:
            if not _robust(t, env, getattr(ob, 'validate_negated', False)):
                res['validation_skipped'] += 1
                return
        import signal

        def _alarm(sig, frm):
            raise _ReplayTimeout()
        try:
            old_h = signal.signal(signal.SIGALRM, _alarm)
            signal.alarm(30)
        except (ValueError, AttributeError):
            old_h = None
        try:
            conc = NumCtx(ob, {k: v for k, v in env.items() if '!' not in k}, cache)._run()
        finally:
            try:
                signal.alarm(0)
                if old_h is not None:
                    signal.signal(signal.SIGALRM, old_h)
            except (ValueError, AttributeError):
                pass
    except Exception as e:
        res['validation_skipped'] += 1
        res['notes'].append('validation: concrete run failed (%s: %s)' % (type(e).__name__, str(e)[:100]))
        return
    bad = []
    n = 0
    gscale = 0.0
    for k, v in conc.items():
        try:
            for b in np.asarray(v, dtype=float).ravel():
                if b == b and abs(b) != float('inf'):
                    gscale = max(gscale, abs(b))
        except (TypeError, ValueError):
            pass
    for k, v in out.items():
        if k not in conc:
            continue
        sv = np.asarray(v, dtype=object).ravel()
        cv = np.asarray(conc[k]).ravel()
        if sv.shape != cv.shape:
            bad.append('%s: shape %s vs %s' % (k, sv.shape, cv.shape))
            continue
        for a, b in zip(sv, cv):
            ta = lift(a)
            if ta is None:
                continue
            try:
                fa = T.evalf(ta, env)
                fb = float(b)
            except Exception:
                continue
            n += 1
            if not (abs(fa - fb) <= 1e-7 * max(abs(fa), abs(fb), 1e-300) + 1e-11 * gscale) and not (fa != fa and fb != fb):
                bad.append('%s: term=%.15g real=%.15g' % (k, fa, fb))
    if bad and not p.assumes:
        raise RuntimeError('encoding validation mismatch at %s: %s' % (
            {k: v for k, v in env.items() if '!' not in k}, '; '.join(bad[:4])))
    if bad:
        res['validation_skipped'] += 1
        res['notes'].append('validation: stubbed path differs from real numerics at twin (%s)' % bad[0])
        return
    if n:
        res['validated'] += 1


def _robust(t, env, neg_ok=True):
    """the branch condition t is TRUE at env under the true transcendental functions (a model may realise
    free atoms inconsistently with the real functions) and none of its comparison atoms sits within 1e-9 of
    its boundary (so that the float run takes the same branch)"""
    if not _margin(t, env):
        return False
    try:
        return bool(T.evalf(t, env))
    except Exception:
        return False


def _margin(t, env, truth=True):
    if t.op == 'not':
        return _margin(t.args[0], env)
    if t.op in ('and', 'or'):
        return all(_margin(a, env) for a in t.args)
    if t.op in ('lt', 'le', 'eq'):
        try:
            a = T.evalf(t.args[0], env)
            b = T.evalf(t.args[1], env)
        except Exception:
            return False
        return abs(a - b) > 1e-9 * max(abs(a), abs(b), 1e-12)
    return True


def _handle_witness(ob, enc, c, ct, zc, zbase, v, label, res, cache, refine=None):
    """sat: try to get a robust witness, replay on the real code, classify."""
    import z3
    model = v.model
    # strengthen: ask for a witness with a relative gap and moderate values
    if c.kind == 'eq':
        a = enc.tr(term_of(c.a))
        b = enc.tr(term_of(c.b))
        gap = a - b
        absgap = z3.If(gap >= 0, gap, -gap)
        sc = z3.If(a >= 0, a, -a) + z3.If(b >= 0, b, -b)
        strong = [absgap * 1000 > sc, sc > z3.RealVal('1/1000')]
        v2 = smt.solve(enc, zbase + [z3.Not(zc)] + strong + _nice(enc), min(ob.timeout_s, 10), label=ob.id + ':' + label + ':robust')
        if v2.status == 'sat':
            model = v2.model
    else:
        v2 = smt.solve(enc, zbase + [z3.Not(zc)] + _nice(enc, False), min(ob.timeout_s, 10), label=ob.id + ':' + label + ':robust')
        if v2.status == 'sat':
            model = v2.model
        else:
            m2 = _nice_soft(enc, zbase + [z3.Not(zc)], min(ob.timeout_s, 5))
            if m2 is not None:
                model = m2
    env = {k: val for k, val in frac_env(model).items() if '!' not in k and '#' not in k}
    for nm in getattr(ob, '_input_names', ()):
        env.setdefault(nm, 1.0)         # inputs the violated formula does not mention: any value
    rep = None
    env2 = _repair_atoms(enc, model, env)
    if env2 is not None:
        # the model gave values to sin/cos/... atoms of an input variable: make that input consistent with them
        # (the encoding does not tie the atom to its argument); the replay on the real code remains the arbiter
        rep2 = replay_claim(ob, env2, c.label, {})
        if rep2['reproduced']:
            rep, env = rep2, env2
    if rep is None:
        rep = replay_claim(ob, env, c.label, cache)
    if not rep['reproduced'] and refine is not None and (enc.atom_groups or enc.fn_atoms):
        # the encoding over-approximates transcendental atoms: the solver's counterexample is abstract.  Concretise it:
        # search near the witness for inputs at which path condition and negated claim hold under the TRUE functions
        # (numeric evaluation of the same terms), then replay those on the real code -- which stays the arbiter.
        env3 = _refine_witness(refine[0], refine[1], env)
        if env3 is not None:
            rep3 = replay_claim(ob, env3, c.label, {})
            if rep3['reproduced']:
                rep, env = rep3, env3
                rep['note'] = 'abstract solver witness concretised by numeric refinement of the same terms'
    if not rep['reproduced'] and refine is not None and any('#' in n for n in T.free_vars(list(refine[0]) + [refine[1]])):
        # the path contains stub outputs (a root, a quadrature): the solver chose its own value for them, the real
        # numerics return another, so the witness inputs land on a different path.  Look near the witness for inputs at
        # which the REAL code reproduces the violation (a handful of replays, bounded in time).
        got = _refine_by_replay(ob, env, c.label)
        if got is not None:
            env, rep = got
            rep['note'] = 'solver witness (stub values chosen by the solver) concretised by replays near it on the real code'
    entry = {'obligation': ob.id, 'label': c.label, 'claim': label, 'assertion': T.show(ct, 400),
             'witness': {k: str(val) for k, val in model.items() if '!' not in k},
             'witness_float': env, 'replay': rep}
    if rep['reproduced']:
        res['violations'].append(entry)
    else:
        approx = bool(enc.atom_groups or enc.fn_atoms) or ob.approx_ok
        entry['reason'] = 'solver witness did not reproduce on the real code: ' + rep.get('detail', '')
        if approx:
            res['inconclusive'].append({'label': label, 'reason': entry['reason'] + ' (encoding over-approximates transcendental atoms)'})
        else:
            # exact encoding but the float replay disagrees (different branch at a boundary witness, a different
            # root returned by the real root finder, or cancellation): reported, never counted as discharged
            res['inconclusive'].append({'label': label, 'reason': entry['reason'], 'unreproduced_exact': True})


def _refine_by_replay(ob, env, label, budget_s=30.0, tries=400):
    import random
    rnd = random.Random(20260927)
    t0 = time.time()
    for i in range(tries):
        if time.time() - t0 > budget_s:
            break
        sc = (0.1, 0.3, 0.8, 1.5)[i % 4]
        e = {}
        for k, v in env.items():
            if isinstance(v, float) and v != 0 and k not in ('PI', 'EULER') and rnd.random() < 0.5:
                e[k] = v * math.exp(rnd.gauss(0.0, sc))
            else:
                e[k] = v
        t1 = time.time()
        rep = replay_claim(ob, e, label, {})
        if rep.get('reproduced'):
            return e, rep
        if time.time() - t1 > 5.0:
            break                       # slow real numerics: not worth a search
    return None


def _refine_witness(terms, ct, env, budget_s=10.0, tries=6000):
    names = T.free_vars(list(terms) + [ct])
    if any('#' in n or '!' in n for n in names):
        return None                     # stub outputs (roots, quadratures) cannot be re-evaluated
    import random
    rnd = random.Random(20260926)
    fixed = {'PI': math.pi, 'EULER': math.e}
    free = [n for n in names if n not in fixed]
    start = {n: float(env.get(n, 1.0)) for n in free}

    def good(e):
        e = dict(e)
        e.update(fixed)
        try:
            for t in terms:
                if T.evalf(t, e) is not True:
                    return False
            if ct.op == 'eq':
                a, b = T.evalf(ct.args[0], e), T.evalf(ct.args[1], e)
                if not (math.isfinite(a) and math.isfinite(b)):
                    return False
                return abs(a - b) > 1e-5 * max(abs(a), abs(b), 1e-300) and max(abs(a), abs(b)) > 1e-9
            return T.evalf(ct, e) is False
        except Exception:
            return False
    t0 = time.time()
    if good(start):
        return start
    for i in range(tries):
        if time.time() - t0 > budget_s:
            break
        sc = (0.05, 0.2, 0.7, 2.0)[i % 4]
        e = {}
        for n, v0 in start.items():
            v = v0 if v0 != 0 else rnd.choice((-1.0, 1.0)) * 0.5
            v = v * math.exp(rnd.gauss(0.0, sc))
            if rnd.random() < 0.05:
                v = -v
            e[n] = v
        if any(abs(v) > 1e6 or abs(v) < 1e-6 for v in e.values()):
            continue                    # stay where floating point is well conditioned
        if good(e):
            return e
    return None


def _repair_atoms(enc, model, env):
    """inputs made consistent with the model values of transcendental atoms whose argument is a single input variable"""
    by_var = {}
    for key, zv in enc.fn_atoms.items():
        name, args = key.args[0], key.args[1:]
        if len(args) == 1 and args[0].op == 'var' and name in ('sin', 'cos', 'tan', 'log', 'arccos', 'arcsin', 'arctan', 'tanh'):
            val = model.get(str(zv))
            if val is None:
                continue
            try:
                by_var.setdefault(args[0].args[0], {})[name] = float(val)
            except (TypeError, ValueError):
                continue
    out = dict(env)
    changed = False
    clamp = lambda v: max(-1.0, min(1.0, v))
    for x, d in by_var.items():
        if '!' in x or '#' in x:
            continue
        try:
            if 'sin' in d and 'cos' in d:
                new = math.atan2(d['sin'], d['cos'])
            elif 'cos' in d:
                new = math.acos(clamp(d['cos']))
            elif 'sin' in d:
                new = math.asin(clamp(d['sin']))
            elif 'tan' in d:
                new = math.atan(d['tan'])
            elif 'log' in d:
                new = math.exp(d['log'])
            elif 'arccos' in d:
                new = math.cos(d['arccos'])
            elif 'arcsin' in d:
                new = math.sin(d['arcsin'])
            elif 'arctan' in d:
                new = math.tan(d['arctan'])
            elif 'tanh' in d:
                new = math.atanh(max(-0.999999, min(0.999999, d['tanh'])))
            else:
                continue
        except (ValueError, OverflowError):
            continue
        old = env.get(x)
        if old is not None and old > 0 and new < 0 and ('sin' in d or 'cos' in d or 'tan' in d):
            new += 2 * math.pi if 'tan' not in d else math.pi
        if old is None or abs(new - old) > 1e-12 * max(1.0, abs(new)):
            out[x] = new
            changed = True
    return out if changed else None


class _ReplayTimeout(Exception):
    pass


def replay_claim(ob, env, label, cache=None):
    """Evaluate the claim `label' numerically on the real code at env (under a wall-clock limit: a witness can drive
    the real numerics -- root finders, ODE integrators -- into very long loops)."""
    import signal
    limit = int(getattr(ob, 'replay_limit_s', 60))

    def _alarm(sig, frm):
        raise _ReplayTimeout()
    old = None
    try:
        old = signal.signal(signal.SIGALRM, _alarm)
        signal.alarm(limit)
    except (ValueError, AttributeError):
        old = None
    try:
        return _replay_claim(ob, env, label, cache)
    except _ReplayTimeout:
        return {'reproduced': False, 'detail': 'replay on the real code did not finish within %ds' % limit}
    finally:
        try:
            signal.alarm(0)
            if old is not None:
                signal.signal(signal.SIGALRM, old)
        except (ValueError, AttributeError):
            pass


def _replay_claim(ob, env, label, cache=None):
    cache = cache if cache is not None else {}
    try:
        cx = NumCtx(ob, env, cache)
        ob.claims(cx)
    except _ReplayTimeout:
        raise
    except Exception as e:
        handler = getattr(ob, 'replay_exception', None)
        if handler is not None:
            return handler(e, env, label)
        return {'reproduced': False, 'detail': 'replay raised %s: %s' % (type(e).__name__, str(e)[:200])}
    worst = None
    for c in cx.claims:
        if c.label != label:
            continue
        deriv = getattr(ob, 'uses_derivatives', False)
        tol = c.tol if c.tol is not None else (ob.deriv_tol if deriv else ob.replay_tol)
        try:
            viol, rel, detail = _num_claim_violated(c, tol)
        except Exception as e:
            return {'reproduced': False, 'detail': 'replay evaluation raised %s: %s' % (type(e).__name__, e)}
        if worst is None or rel > worst[1]:
            worst = (viol, rel, detail)
    if worst is None:
        if getattr(ob, 'replay_any_violation', False):
            # the float run took another route (e.g. an exception where the real-arithmetic path continued):
            # any violated claim of the same obligation at this input confirms the witness
            for c in cx.claims:
                try:
                    viol, rel, detail = _num_claim_violated(c, c.tol if c.tol is not None else ob.replay_tol)
                except Exception:
                    continue
                if viol:
                    return {'reproduced': True, 'rel_residual': rel, 'detail': 'on the real code this input gives: %s (%s)' % (c.label, detail)}
        return {'reproduced': False, 'detail': 'claim %s not produced on the concrete path' % label}
    return {'reproduced': bool(worst[0]), 'rel_residual': worst[1], 'detail': worst[2]}


# =============================================================================== continuity helper

def closure(t):
    """topological closure of a path condition: strict comparisons become non-strict"""
    op = t.op
    if op == 'lt':
        return T.le(*t.args)
    if op in ('le', 'eq', 'true', 'false', 'bvar'):
        return t
    if op == 'and':
        return T.land(*[closure(a) for a in t.args])
    if op == 'or':
        return T.lor(*[closure(a) for a in t.args])
    if op == 'not':
        a = t.args[0]
        if a.op == 'le':            # not (x <= y) == x > y  ->  x >= y
            return T.le(a.args[1], a.args[0])
        if a.op == 'lt':            # not (x < y) == x >= y
            return T.le(a.args[1], a.args[0])
        if a.op == 'eq':
            return T.TRUE
        if a.op == 'and':
            return T.lor(*[closure(T.lnot(x)) for x in a.args])
        if a.op == 'or':
            return T.land(*[closure(T.lnot(x)) for x in a.args])
        if a.op == 'not':
            return closure(a.args[0])
        return t
    return t


def continuity_claims(ob, paths, field, point_vars, numeric_eval, extra_assume=()):
    """For every pair of returning paths: wherever the closures of the two path conditions
    meet, the two branch formulas of `field' agree.  numeric_eval(env) -> float evaluates the
    public API (used to replay a witness: values at points displaced by +-1e-7 around it)."""
    out = []
    terms = []
    for cond, o in paths:
        v = o[field] if not hasattr(o, 'get') or field in o else None
        terms.append(term_of(v))
    for i in range(len(paths)):
        for j in range(i + 1, len(paths)):
            if terms[i] is terms[j]:
                continue
            assume = [closure(paths[i][0]), closure(paths[j][0])] + list(extra_assume)

            def chk(env, point_vars=point_vars):
                vals = []
                for pv in point_vars:
                    for sgn in (-1.0, 1.0):
                        e2 = dict(env)
                        e2[pv] = env[pv] + sgn * 1e-7 * max(1.0, abs(env[pv]))
                        try:
                            vals.append(float(numeric_eval(e2)))
                        except Exception:
                            pass
                if len(vals) < 2:
                    return {'reproduced': False, 'detail': 'could not evaluate near the witness'}
                jump = max(vals) - min(vals)
                sc = max(max(abs(v) for v in vals), 1e-12)
                return {'reproduced': bool(jump > 1e-4 * sc), 'detail': 'values within 1e-7 of the witness span [%.12g, %.12g]' % (min(vals), max(vals))}
            out.append(('continuity of %s across branches %d|%d' % (field, i, j), assume, T.eq(terms[i], terms[j]), chk))
    return out


# =============================================================================== implicit differentiation of stub roots

def implicit_rules(p, input_names):
    """Stub roots are defined by their contracts F(root, inputs) == 0 (PathResult.assumes).  Their derivatives
    w.r.t. the inputs follow by implicit differentiation, processed in creation order so that a later root may
    depend on earlier ones:  d r/dx = -(dF/dx)_total / (dF/dr).  Returns {Term(var r): {x: Term}}."""
    rules = {}
    defined = set()
    for a in p.assumes:
        if a.op != 'eq' or a.args[1] is not T.ZERO:
            continue
        F = a.args[0]
        new = [n for n in T.free_vars(F) if '#' in n and n not in defined]
        if len(new) != 1:
            continue
        r = new[0]
        rv = T.var(r)
        dFdr = D.d(F, r)
        if dFdr is T.ZERO:
            continue
        entry = {}
        for x in input_names:
            sub = {k: v[x] for k, v in rules.items() if x in v}
            dFdx = D.d(F, x, sub)
            entry[x] = T.neg(T.div(dFdx, dFdr)) if dFdx is not T.ZERO else T.ZERO
        rules[rv] = entry
        defined.add(r)
    return rules
