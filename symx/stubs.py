"""Contract stubs for SciPy numerics (DESIGN.md 2.3).  Every stub is part of the claim."""
import sys
import builtins as _b

import numpy as _np
import scipy.optimize as _so

from . import terms as T
from .engine import SymReal, SymBool, current, EngineSignal, lift
from . import shim as _shim


def _sym_args(*xs):
    return any(_shim.is_sym(x) or isinstance(x, SymReal) for x in xs)


def bisect_stub(f, a, b, args=(), xtol=2e-12, rtol=8.881784197001252e-16, maxiter=100,
                full_output=False, disp=True):
    """scipy.optimize.bisect/brentq contract: returns x* in [a, b] with f(x*) == 0.
    (existence of a root in the bracket is assumed: the real call raises otherwise)"""
    ex = current()
    # the same equation on the same bracket asked again on this path (second object with identical data, repeated call) has
    # the same answer: recognise it by the term of f at a probe symbol
    from .engine import sym
    probe = sym('__bisect_probe')
    key = (lift(f(probe, *args)), lift(a), lift(b))
    cache = ex.notes.setdefault('bisectcache', {})
    if key in cache:
        return cache[key]
    x = ex.fresh('root')
    cache[key] = x
    ex.assume(T.le(lift(a), x.t))
    ex.assume(T.le(x.t, lift(b)))
    fx = f(x, *args)
    ex.assume(T.eq(lift(fx), T.ZERO))
    ex.note('roots', x.t)
    return x


def fsolve_stub(func, x0, args=(), **kw):
    """scipy.optimize.fsolve contract: returns x* (same shape as x0) with func(x*) == 0."""
    ex = current()
    x0a = _np.atleast_1d(_np.asarray(x0, dtype=object))
    xs = _np.empty(x0a.shape, dtype=object)
    for i in range(xs.size):
        xs.flat[i] = ex.fresh('root')
    arg = xs if xs.size > 1 else xs
    fx = func(arg if xs.size > 1 else xs[0] if _np.ndim(x0) == 0 else xs, *args)
    for v in _np.atleast_1d(_np.asarray(fx, dtype=object)).flat:
        ex.assume(T.eq(lift(v), T.ZERO))
    return xs


class Cut(EngineSignal):
    """raised by a cutting stub: carries the local variables of the function that was cut"""

    def __init__(self, loc):
        EngineSignal.__init__(self)
        self.locals = loc


def cut_here(*a, **k):
    fr = sys._getframe(1)
    raise Cut(dict(fr.f_locals))


def sym_min(*args, **kw):
    if len(args) == 1:
        args = list(args[0])
    if not _sym_args(*args):
        return _b.min(*args, **kw)
    m = args[0]
    for v in args[1:]:
        m = _shim._smin(m, v)
    return m


def sym_max(*args, **kw):
    if len(args) == 1:
        args = list(args[0])
    if not _sym_args(*args):
        return _b.max(*args, **kw)
    m = args[0]
    for v in args[1:]:
        m = _shim._smax(m, v)
    return m


def sym_abs(x):
    return abs(x)


_shim.STUB_IDMAP[id(_so.bisect)] = bisect_stub
_shim.STUB_IDMAP[id(_so.brentq)] = bisect_stub
_shim.STUB_IDMAP[id(_so.fsolve)] = fsolve_stub
