"""Proxies (SymReal / SymBool) and the path explorer.

The real ExactPack functions are called by CPython with SymReal objects (scalars, or the
elements of numpy object arrays) in place of floats.  Arithmetic builds terms; a branch on
a symbolic condition (SymBool.__bool__) asks the explorer, which follows a decision prefix
and uses z3 to pick feasible branches -- CrossHair-style re-execution.
"""
import time
from fractions import Fraction
import numbers

import numpy as _np
import z3

from . import terms as T
from .terms import NotEncodable
from . import smt


class EngineSignal(BaseException):
    """Control flow of the engine (never caught by `except Exception' in code under test)."""


class PathAbort(EngineSignal):
    pass


_CUR = [None]      # current Explorer
_E = 2.718281828459045
_PI = 3.141592653589793


def current():
    ex = _CUR[0]
    if ex is None:
        raise RuntimeError('no active explorer')
    return ex


# ------------------------------------------------------------------ SymBool

class SymBool(object):
    __slots__ = ('t',)

    def __init__(self, t):
        self.t = t

    def __bool__(self):
        t = self.t
        if t is T.TRUE:
            return True
        if t is T.FALSE:
            return False
        return current().decide(t)

    def __and__(self, o):
        return SymBool(T.land(self.t, _bt(o)))

    __rand__ = __and__

    def __or__(self, o):
        return SymBool(T.lor(self.t, _bt(o)))

    __ror__ = __or__

    def __invert__(self):
        return SymBool(T.lnot(self.t))

    def __eq__(self, o):
        a, b = self.t, _bt(o)
        return SymBool(T.lor(T.land(a, b), T.land(T.lnot(a), T.lnot(b))))

    def __ne__(self, o):
        return ~(self == o)

    __hash__ = None

    def __repr__(self):
        return 'SymBool(%s)' % T.show(self.t, 200)

    # numpy calls these on object arrays
    def logical_not(self):
        return ~self

    def logical_and(self, o):
        return self & o

    def logical_or(self, o):
        return self | o


def _bt(o):
    if isinstance(o, SymBool):
        return o.t
    if isinstance(o, (bool, _np.bool_)):
        return T.boolc(bool(o))
    if isinstance(o, SymReal):
        return T.ne(o.t, T.ZERO)
    raise TypeError('not a boolean: %r' % (o,))


# ------------------------------------------------------------------ SymReal

def lift(x):
    """Term of a number-like object, or None."""
    if isinstance(x, SymReal):
        return x.t
    if isinstance(x, (bool, _np.bool_)):
        return T.const(int(x))
    if isinstance(x, (int, _np.integer)):
        return T.const(int(x))
    if isinstance(x, (float, _np.floating)):
        x = float(x)
        if x == _E:
            return T.var('EULER')
        if x == _PI:
            return T.var('PI')
        return T.const(x)
    if isinstance(x, Fraction):
        return T.const(x)
    if isinstance(x, _np.ndarray) and x.ndim == 0:
        return lift(x.item())
    return None


class SymReal(object):
    __slots__ = ('t',)
    __array_priority__ = 10000

    def __init__(self, t):
        if not isinstance(t, T.Term):
            t = T.const(t)
        self.t = t

    # ---- arithmetic
    def _bin(self, o, f, swap=False):
        ot = lift(o)
        if ot is None:
            if isinstance(o, _np.ndarray):
                out = _np.empty(o.shape, dtype=object)
                for idx in _np.ndindex(o.shape):
                    out[idx] = self._bin(o[idx], f, swap)
                return out
            return NotImplemented
        return SymReal(f(ot, self.t) if swap else f(self.t, ot))

    def __add__(self, o):
        return self._bin(o, T.add)

    def __radd__(self, o):
        return self._bin(o, T.add, True)

    def __sub__(self, o):
        return self._bin(o, T.sub)

    def __rsub__(self, o):
        return self._bin(o, T.sub, True)

    def __mul__(self, o):
        return self._bin(o, T.mul)

    def __rmul__(self, o):
        return self._bin(o, T.mul, True)

    def __truediv__(self, o):
        return self._bin(o, T.div)

    def __rtruediv__(self, o):
        return self._bin(o, T.div, True)

    def __pow__(self, o, mod=None):
        return self._bin(o, T.pw)

    def __rpow__(self, o, mod=None):
        return self._bin(o, T.pw, True)

    def __neg__(self):
        return SymReal(T.neg(self.t))

    def __pos__(self):
        return self

    def __abs__(self):
        return SymReal(T.absval(self.t))

    def __floordiv__(self, o):
        raise NotEncodable('floor division of a symbolic real')

    __rfloordiv__ = __floordiv__

    def __mod__(self, o):
        raise NotEncodable('modulo of a symbolic real')

    __rmod__ = __mod__

    # ---- comparisons
    def _cmp(self, o, f):
        ot = lift(o)
        if ot is None:
            if isinstance(o, _np.ndarray):
                # like numpy's own object-array comparisons (which call bool() on every element): a concrete
                # boolean array, each entry decided by the explorer (one branch decision per element)
                out = _np.empty(o.shape, dtype=bool)
                for idx in _np.ndindex(o.shape):
                    out[idx] = bool(self._cmp(o[idx], f))
                return out
            return NotImplemented
        return SymBool(f(self.t, ot))

    def __lt__(self, o):
        return self._cmp(o, T.lt)

    def __le__(self, o):
        return self._cmp(o, T.le)

    def __gt__(self, o):
        return self._cmp(o, T.gt)

    def __ge__(self, o):
        return self._cmp(o, T.ge)

    def __eq__(self, o):
        if o is None or isinstance(o, str):
            return False
        return self._cmp(o, T.eq)

    def __ne__(self, o):
        if o is None or isinstance(o, str):
            return True
        return self._cmp(o, T.ne)

    __hash__ = None

    def __bool__(self):
        return bool(SymBool(T.ne(self.t, T.ZERO)))

    # ---- conversions that would lose the symbol
    def __float__(self):
        if self.t.op == 'const':
            return float(self.t.args[0])
        raise NotEncodable('float() of a symbolic real')

    def __int__(self):
        if self.t.op == 'const' and self.t.args[0].denominator == 1:
            return int(self.t.args[0])
        raise NotEncodable('int() of a symbolic real')

    __index__ = __int__

    def __complex__(self):
        raise NotEncodable('complex() of a symbolic real')

    def __round__(self, n=None):
        raise NotEncodable('round() of a symbolic real')

    def __repr__(self):
        return 'Sym(%s)' % T.show(self.t, 200)

    def __str__(self):
        return '<sym>'

    def __format__(self, spec):
        return '<sym>'

    # ---- attributes numpy / user code expect from numbers
    @property
    def real(self):
        return self

    @property
    def imag(self):
        return SymReal(T.ZERO)

    @property
    def shape(self):
        return ()

    @property
    def ndim(self):
        return 0

    @property
    def size(self):
        return 1

    @property
    def dtype(self):
        return _np.dtype(object)

    def conjugate(self):
        return self

    conj = conjugate

    def item(self):
        return self

    def copy(self):
        return self

    # ---- methods numpy ufuncs look up on object-array elements
    def sqrt(self):
        return SymReal(T.pw(self.t, T.HALF))

    def cbrt(self):
        return SymReal(T.pw(self.t, T.const(Fraction(1, 3))))

    def square(self):
        return SymReal(T.mul(self.t, self.t))

    def exp(self):
        return SymReal(T.func('exp', self.t))

    def log(self):
        return SymReal(T.func('log', self.t))

    def log10(self):
        return SymReal(T.func('log10', self.t))

    def sin(self):
        return SymReal(T.func('sin', self.t))

    def cos(self):
        return SymReal(T.func('cos', self.t))

    def tan(self):
        return SymReal(T.func('tan', self.t))

    def arctan(self):
        return SymReal(T.func('arctan', self.t))

    def arccos(self):
        return SymReal(T.func('arccos', self.t))

    def arcsin(self):
        return SymReal(T.func('arcsin', self.t))

    def sinh(self):
        return SymReal(T.func('sinh', self.t))

    def cosh(self):
        return SymReal(T.func('cosh', self.t))

    def tanh(self):
        return SymReal(T.func('tanh', self.t))

    def fabs(self):
        return abs(self)

    def absolute(self):
        return abs(self)

    def reciprocal(self):
        return SymReal(T.div(T.ONE, self.t))

    def sign(self):
        return SymReal(T.ite(T.gt(self.t, T.ZERO), T.ONE,
                             T.ite(T.lt(self.t, T.ZERO), T.MONE, T.ZERO)))

    def isnan(self):
        return False

    def isfinite(self):
        return True

    def isinf(self):
        return False


class SymArr(_np.ndarray):
    """object array of SymReal whose COMPARISONS give concrete boolean arrays (one branch decision per element), as float
    arrays do -- so that boolean-mask indexing and masked in-place assignment in the code under test (`r[r == 0] = eps')
    run instead of dying on an object-dtype index.  Arithmetic stays element-wise on the proxies."""

    def _cmpa(self, o, op):
        a = _np.asarray(self, dtype=object)
        ob = _np.broadcast_to(_np.asarray(o, dtype=object), a.shape) if not _np.isscalar(o) and not isinstance(o, SymReal) else None
        out = _np.empty(a.shape, dtype=bool)
        for idx in _np.ndindex(a.shape):
            x = a[idx]
            y = o if ob is None else ob[idx]
            r = op(x, y)
            out[idx] = bool(r)
        return out

    def __eq__(self, o):
        return self._cmpa(o, lambda x, y: x == y)

    def __ne__(self, o):
        return self._cmpa(o, lambda x, y: x != y)

    def __lt__(self, o):
        return self._cmpa(o, lambda x, y: x < y)

    def __le__(self, o):
        return self._cmpa(o, lambda x, y: x <= y)

    def __gt__(self, o):
        return self._cmpa(o, lambda x, y: x > y)

    def __ge__(self, o):
        return self._cmpa(o, lambda x, y: x >= y)

    __hash__ = None


def sym(name):
    return SymReal(T.var(name))


def term_of(x):
    t = lift(x)
    if t is None:
        raise NotEncodable('not a real number: %r' % (type(x),))
    return t


def symarray(names):
    """1-D numpy object array of fresh symbolic reals."""
    a = _np.empty(len(names), dtype=object)
    for i, n in enumerate(names):
        a[i] = sym(n)
    return a


def symmatrix(rows):
    n = len(rows)
    m = len(rows[0])
    a = _np.empty((n, m), dtype=object)
    for i in range(n):
        for j in range(m):
            a[i, j] = sym(rows[i][j])
    return a


# ------------------------------------------------------------------ explorer

class PathResult(object):
    def __init__(self, pc, assumes, value=None, exc=None, capped=False, notes=None):
        self.pc = pc              # list[Term] path condition (branch decisions + stub constraints)
        self.assumes = assumes    # list[Term] stub constraints only (subset of pc, for reporting)
        self.value = value
        self.exc = exc            # Exception instance raised by the code under test, or None
        self.capped = capped
        self.notes = notes or {}

    @property
    def ok(self):
        return self.exc is None

    def cond(self):
        return T.land(*self.pc) if self.pc else T.TRUE


class Explorer(object):
    """Exhaustive (up to max_paths) exploration of fn() over symbolic branches."""

    def __init__(self, domain=(), max_paths=64, branch_timeout_s=5.0, enc=None, budget_s=None):
        self.domain = list(domain)              # Terms assumed throughout
        self.enc = enc or smt.Encoder(self.domain)
        self.max_paths = max_paths
        self.branch_timeout_s = branch_timeout_s
        self.budget_s = budget_s
        self.stats = {'paths': 0, 'branch_queries': 0, 'branch_time': 0.0,
                      'infeasible_flips': 0, 'unknown_branches': 0, 'capped': False}
        self._prefix = []
        self._trace = []
        self._fresh = 0
        self.notes = {}

    # -- called from SymBool.__bool__
    def decide(self, cond):
        for k in self._trace:
            if k[0] == 'b':
                if k[1] is cond:
                    return k[2]
                if k[1].op == 'not' and k[1].args[0] is cond:
                    return not k[2]
                if cond.op == 'not' and cond.args[0] is k[1]:
                    return not k[2]
        nb = self._nbranch
        if nb < len(self._prefix):
            pcond, taken = self._prefix[nb]
            if pcond is not cond:
                raise RuntimeError('non-deterministic re-execution: branch %d differs\n  %s\n  %s'
                                   % (nb, T.show(pcond, 200), T.show(cond, 200)))
            self._nbranch += 1
            self._trace.append(('b', cond, taken, True))
            return taken
        # new decision: is it implied by what we know?  the linear abstraction settles order-chain consequences at once
        pcs = self._pc_terms()
        for check in (self._abstractly_unsat, self._relaxed_unsat):
            for val in (True, False):
                if check(pcs + [T.lnot(cond) if val else cond]):
                    self.stats['cheaply_implied'] = self.stats.get('cheaply_implied', 0) + 1
                    self._nbranch += 1
                    self._trace.append(('b', cond, val, True))
                    return val
        # try True first.
        st = self._feasible(pcs + [cond])
        if st == 'unsat':
            taken = False
            explored_other = True       # True branch infeasible: nothing to flip
        else:
            taken = True
            explored_other = False
            if st == 'unknown':
                self.stats['unknown_branches'] += 1
        self._nbranch += 1
        self._trace.append(('b', cond, taken, explored_other))
        return taken

    def assume(self, cond):
        """Stub contract: constrain the current path."""
        if isinstance(cond, SymBool):
            cond = cond.t
        if cond is T.TRUE:
            return
        self._trace.append(('a', cond))

    def fresh(self, prefix):
        self._fresh += 1
        return sym('%s#%d' % (prefix, self._fresh))

    def note(self, key, value):
        self.notes.setdefault(key, []).append(value)

    def _pc_terms(self, upto=None):
        out = []
        tr = self._trace if upto is None else self._trace[:upto]
        for k in tr:
            if k[0] == 'b':
                out.append(k[1] if k[2] else T.lnot(k[1]))
            else:
                out.append(k[1])
        return out

    # -- linear abstraction: every non-linear subterm is an opaque real (same term, same variable).  Unsatisfiable in the
    # abstraction => unsatisfiable.  Settles the order-chain consequences (a < b, b < c |- a < c over compound terms) that
    # nlsat spends seconds on; anything else falls through to the exact query.
    def _abs(self, t):
        c = self.__dict__.setdefault('_abs_cache', {})
        r = c.get(t)
        if r is not None:
            return r
        op, a = t.op, t.args
        A = self._abs
        if op == 'const':
            v = Fraction(a[0])
            r = z3.RealVal('%d/%d' % (v.numerator, v.denominator))
        elif op == 'var':
            r = z3.Real('v!' + a[0])
        elif op == 'bvar':
            r = z3.Bool('b!' + a[0])
        elif op == 'add':
            r = A(a[0]) + A(a[1])
        elif op == 'sub':
            r = A(a[0]) - A(a[1])
        elif op == 'neg':
            r = -A(a[0])
        elif op == 'mul' and (a[0].op == 'const' or a[1].op == 'const'):
            r = A(a[0]) * A(a[1])
        elif op == 'div' and a[1].op == 'const' and a[1].args[0] != 0:
            r = A(a[0]) / A(a[1])
        elif op == 'abs':
            x = A(a[0])
            r = z3.If(x >= 0, x, -x)
        elif op == 'ite':
            r = z3.If(A(a[0]), A(a[1]), A(a[2]))
        elif op == 'lt':
            r = A(a[0]) < A(a[1])
        elif op == 'le':
            r = A(a[0]) <= A(a[1])
        elif op == 'eq':
            r = A(a[0]) == A(a[1])
        elif op == 'not':
            r = z3.Not(A(a[0]))
        elif op == 'and':
            r = z3.And(*[A(x) for x in a])
        elif op == 'or':
            r = z3.Or(*[A(x) for x in a])
        elif op == 'true':
            r = z3.BoolVal(True)
        elif op == 'false':
            r = z3.BoolVal(False)
        elif T.is_bool(t):
            r = z3.Bool('ob!%d' % t.id)
        else:
            r = z3.Real('o!%d' % t.id)
        c[t] = r
        return r

    def _abstractly_unsat(self, terms):
        try:
            s = z3.Solver()
            s.set('timeout', 1000)
            for t in self.domain + terms:
                s.add(self._abs(t))
            return str(s.check()) == 'unsat'
        except Exception:
            return False

    def _relaxed_unsat(self, terms):
        """exact query without the equations (stub contracts f(x*) = 0 and the like): an over-approximation that keeps the
        inequalities, for paths whose equations stall nlsat"""
        keep = [t for t in terms if t.op != 'eq']
        if len(keep) == len(terms):
            return False
        enc = self.enc
        try:
            s = z3.Solver()
            s.set('timeout', 1500)
            for t in self.domain + keep:
                s.add(enc.tr(t))
                s.add(enc.defined(t))
            for ax in enc.axioms:
                s.add(ax)
            return str(s.check()) == 'unsat'
        except Exception:
            return False

    def _over_unsat(self, terms):
        return self._abstractly_unsat(terms) or self._relaxed_unsat(terms)

    def _feasible(self, terms):
        t0 = time.time()
        if self._over_unsat(terms):
            self.stats['branch_queries'] += 1
            self.stats['abstract_unsat'] = self.stats.get('abstract_unsat', 0) + 1
            self.stats['branch_time'] += time.time() - t0
            return 'unsat'
        s = z3.Solver()
        s.set('timeout', int(self.branch_timeout_s * 1000))
        enc = self.enc
        try:
            zs = [enc.tr(t) for t in self.domain + terms]
            for t in self.domain + terms:
                zs.append(enc.defined(t))
        except NotEncodable:
            self.stats['unknown_branches'] += 1
            return 'unknown'
        for z in zs:
            s.add(z)
        for ax in enc.axioms:
            s.add(ax)
        r = str(s.check())
        self.stats['branch_queries'] += 1
        self.stats['branch_time'] += time.time() - t0
        return r

    def run(self, fn):
        results = []
        work = [[]]
        t_start = time.time()
        while work:
            if self.stats['paths'] >= self.max_paths or \
                    (self.budget_s is not None and time.time() - t_start > self.budget_s):
                self.stats['capped'] = True
                break
            self._prefix = work.pop()
            self._trace = []
            self._nbranch = 0
            self._fresh = 0
            self.notes = {}
            prev = _CUR[0]
            _CUR[0] = self
            value = None
            exc = None
            aborted = False
            try:
                value = fn()
            except PathAbort:
                aborted = True              # harness is not interested in this path; its siblings still are
            except Exception as e:          # outcome of the code under test
                exc = e
            finally:
                _CUR[0] = prev
            self.stats['paths'] += 1
            pc = self._pc_terms()
            assumes = [k[1] for k in self._trace if k[0] == 'a']
            if aborted:
                self.stats['aborted'] = self.stats.get('aborted', 0) + 1
            else:
                results.append(PathResult(pc, assumes, value, exc, notes=self.notes))
            # schedule flips of the new decisions
            nb = 0
            for idx, k in enumerate(self._trace):
                if k[0] != 'b':
                    continue
                nb += 1
                if nb <= len(self._prefix):
                    continue
                _, cond, taken, explored_other = k
                if explored_other:
                    continue
                other = T.lnot(cond) if taken else cond
                st = self._feasible(self._pc_terms(idx) + [other])
                if st == 'unsat':
                    self.stats['infeasible_flips'] += 1
                    continue
                if st == 'unknown':
                    self.stats['unknown_branches'] += 1
                newprefix = [(kk[1], kk[2]) for kk in self._trace[:idx] if kk[0] == 'b']
                newprefix.append((cond, not taken))
                work.append(newprefix)
        return results
