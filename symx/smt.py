"""Translation of symx terms to z3 and the solver front end.

Encoding rules (DESIGN.md 2.4):
* constants are exact rationals, variables are z3 Reals (floats are treated as reals);
* x ** (p/q) with a constant rational exponent -> fresh root variable w with the
  conditional axiom  x >= 0  ->  (w >= 0 and w**q == x), value w**p, side condition x >= 0
  (x > 0 when p < 0);
* x ** e with a symbolic exponent, exp, log, sin, ... -> *atoms*: fresh real variables keyed
  by (atomic base, exponent class).  The base is split multiplicatively into atomic
  factors; two exponents e, e0 over the same atomic base are put in one class when the
  solver proves e == q*e0 + d for small rationals q, d (guessed numerically, proved by z3),
  so that b**e == (b**e0)**q * b**d holds by construction.  Unrelated atoms are free
  positive variables, a sound over-approximation for `unsat' verdicts; `sat' verdicts are
  replayed on the real code before being reported;
* every partial operation emits a definedness side condition (denominator != 0, root/log
  argument sign, power base > 0) retrievable per term with Encoder.defined().
"""
import time
import random
from fractions import Fraction

import z3

from . import terms as T
from .terms import NotEncodable

PI_LO = Fraction(31415926535, 10 ** 10)
PI_HI = Fraction(31415926536, 10 ** 10)
E_LO = Fraction(27182818284, 10 ** 10)
E_HI = Fraction(27182818285, 10 ** 10)


def q2z(fr):
    return z3.RealVal(str(fr))  # "a/b" accepted


TRIG_SIGN_AXIOMS = False


class Encoder(object):
    def __init__(self, domain_terms=()):
        self.vars = {}
        self.bvars = {}
        self.memo = {}
        self.defmemo = {}
        self.own_side = {}      # Term -> list[(z3 bool, text)]
        self.axioms = []        # z3 bools, always true by construction (conditional)
        self.roots = {}         # (Term base, q) -> z3 var
        self.atom_groups = {}   # atomic base Term -> list[(rep exponent Term, z3 var)]
        self.fn_atoms = {}      # ('fn', name, arg Terms) -> z3 var
        self.ufs = {}
        self.n_aux = 0
        self.domain_terms = list(domain_terms)   # Terms usable when proving exponent relations
        self.stats = {'exp_relation_queries': 0, 'exp_relation_time': 0.0}
        self._rng = random.Random(12345)

    # ---- variables
    def var(self, name):
        v = self.vars.get(name)
        if v is None:
            v = z3.Real(name)
            self.vars[name] = v
            if name == 'PI':
                self.axioms.append(z3.And(v > q2z(PI_LO), v < q2z(PI_HI)))
            if name == 'EULER':
                self.axioms.append(z3.And(v > q2z(E_LO), v < q2z(E_HI)))
        return v

    def aux(self, prefix):
        self.n_aux += 1
        return z3.Real('%s!%d' % (prefix, self.n_aux))

    # ---- main translation
    def tr(self, t):
        memo = self.memo
        if t in memo:
            return memo[t]
        for n in T.postorder(t):
            if n in memo:
                continue
            memo[n] = self._tr1(n)
        return memo[t]

    def _side(self, n, cond, text):
        self.own_side.setdefault(n, []).append((cond, text))

    def _tr1(self, n):
        op = n.op
        m = self.memo
        if op == 'const':
            return q2z(n.args[0])
        if op == 'var':
            return self.var(n.args[0])
        if op == 'bvar':
            b = self.bvars.get(n.args[0])
            if b is None:
                b = z3.Bool(n.args[0])
                self.bvars[n.args[0]] = b
            return b
        if op == 'true':
            return z3.BoolVal(True)
        if op == 'false':
            return z3.BoolVal(False)
        if op == 'add':
            return m[n.args[0]] + m[n.args[1]]
        if op == 'sub':
            return m[n.args[0]] - m[n.args[1]]
        if op == 'mul':
            return m[n.args[0]] * m[n.args[1]]
        if op == 'neg':
            return -m[n.args[0]]
        if op == 'div':
            d = m[n.args[1]]
            self._side(n, d != 0, 'denominator != 0: %s' % T.show(n.args[1], 120))
            return m[n.args[0]] / d
        if op == 'abs':
            a = m[n.args[0]]
            return z3.If(a >= 0, a, -a)
        if op == 'ite':
            return z3.If(m[n.args[0]], m[n.args[1]], m[n.args[2]])
        if op == 'lt':
            return m[n.args[0]] < m[n.args[1]]
        if op == 'le':
            return m[n.args[0]] <= m[n.args[1]]
        if op == 'eq':
            return m[n.args[0]] == m[n.args[1]]
        if op == 'not':
            return z3.Not(m[n.args[0]])
        if op == 'and':
            return z3.And(*[m[a] for a in n.args])
        if op == 'or':
            return z3.Or(*[m[a] for a in n.args])
        if op == 'pow':
            return self._tr_pow(n)
        if op == 'fn':
            return self._tr_fn(n)
        raise NotEncodable('op %s' % op)

    # ---- powers
    def _ipow(self, zb, k):
        if k == 0:
            return z3.RealVal(1)
        if k < 0:
            return z3.RealVal(1) / self._ipow(zb, -k)
        r = zb
        for _ in range(k - 1):
            r = r * zb
        return r

    def _root(self, base, q):
        """z3 var w with base >= 0 -> w >= 0 and w**q == base."""
        key = (base, q)
        w = self.roots.get(key)
        if w is None:
            w = self.aux('root%d' % q)
            self.roots[key] = w
            zb = self.tr(base)
            self.axioms.append(z3.Implies(zb >= 0, z3.And(w >= 0, self._ipow(w, q) == zb)))
        return w

    def _tr_pow(self, n):
        b, e = n.args
        zb = self.memo[b]
        if e.op == 'const':
            ev = e.args[0]
            p, q = ev.numerator, ev.denominator
            if q == 1:
                if p < 0:
                    self._side(n, zb != 0, 'base of negative power != 0: %s' % T.show(b, 120))
                if abs(p) > 40:
                    raise NotEncodable('integer power %d too large' % p)
                return self._ipow(zb, p)
            if q > 24 or abs(p) > 60:
                raise NotEncodable('rational exponent %s out of range' % ev)
            w = self._root(b, q)
            if p < 0:
                self._side(n, zb > 0, 'base of negative fractional power > 0: %s' % T.show(b, 120))
            else:
                self._side(n, zb >= 0, 'base of fractional power >= 0: %s' % T.show(b, 120))
            return self._ipow(w, p)
        # symbolic exponent
        self._side(n, zb > 0, 'base of symbolic power > 0: %s' % T.show(b, 120))
        coeff, facs = split_factors(b)
        res = None
        if coeff <= 0:
            # negative (or zero) base under a real symbolic power: undefined (complex / nan)
            self._side(n, z3.BoolVal(False), 'constant factor %s of symbolic-power base > 0' % coeff)
            return self.aux('undef')
        if coeff != 1:
            for prime, mult in _small_factorisation(coeff):
                a = self._atom(T.const(prime), T.mul(T.const(mult), e))
                res = a if res is None else res * a
        for fb, fe in facs:
            zfb = self.tr(fb)
            if len(facs) > 1 or coeff != 1:
                self._side(n, zfb > 0, 'factor of symbolic-power base > 0: %s' % T.show(fb, 120))
            a = self._atom(fb, T.mul(fe, e))
            res = a if res is None else res * a
        if res is None:
            return z3.RealVal(1)
        return res

    def _atom(self, base, expo):
        """z3 expression equal to base**expo for atomic base > 0.

        Exponents over one base form a vector space over Q spanned by representative
        exponents (each with its own positive variable) and the constant 1.  A new exponent
        that the solver proves to be a rational combination  sum q_i e_i + d  of the
        representatives is expressed through their variables; otherwise it becomes a new
        representative."""
        groups = self.atom_groups.setdefault(base, [])
        self.tr(expo)
        if expo.op == 'const':
            return self._const_rational_power(base, expo.args[0])
        rel = self._relate_lin(expo, [g[0] for g in groups])
        if rel is not None:
            qs, d = rel
            out = None
            for (rep_e, rep_v), q in zip(groups, qs):
                if q == 0:
                    continue
                f = self._rational_power_of_z3(rep_v, ('atom', base, rep_e), q)
                out = f if out is None else out * f
            if d != 0:
                f = self._const_rational_power(base, d)
                out = f if out is None else out * f
            if out is None:
                out = z3.RealVal(1)
            return out
        v = self.aux('pw')
        self.axioms.append(v > 0)
        # functional consistency with the power atoms of OTHER bases: equal base and equal exponent -> equal value
        # (keeps the solver from realising t**e and t_prev**e differently when t == t_prev)
        zb, ze = self.tr(base), self.memo[expo]
        n_ax = 0
        for b2, gs in self.atom_groups.items():
            if b2 is base or b2.op == 'const' or base.op == 'const':
                continue
            zb2 = self.tr(b2)
            for e2, v2 in gs:
                if n_ax > 40:
                    break
                self.axioms.append(z3.Implies(z3.And(zb == zb2, ze == self.memo[e2]), v == v2))
                n_ax += 1
        groups.append((expo, v))
        return v

    def _relate_lin(self, e, reps):
        """rationals (q_1..q_m, d) with  e == sum q_i reps_i + d  for all values (proved by
        z3), or None."""
        for i, r in enumerate(reps):
            if e is r:
                return ([Fraction(int(j == i)) for j in range(len(reps))], Fraction(0))
        names = T.free_vars([e] + list(reps))
        if not names:
            return None
        import numpy as _np
        m = len(reps)
        rows = []
        rhs = []
        tries = 0
        while len(rows) < m + 4 and tries < 60:
            tries += 1
            env = {nm: self._rng.uniform(1.1, 2.9) for nm in names}
            if 'PI' in env:
                env['PI'] = 3.141592653589793
            if 'EULER' in env:
                env['EULER'] = 2.718281828459045
            try:
                a = T.evalf(e, env)
                bs = [T.evalf(r, env) for r in reps]
            except Exception:
                continue
            if abs(a) > 1e6 or any(abs(b) > 1e6 for b in bs):
                continue
            rows.append(bs + [1.0])
            rhs.append(a)
        if len(rows) < m + 4:
            return None
        A = _np.array(rows)
        y = _np.array(rhs)
        sol, res, rank, sv = _np.linalg.lstsq(A, y, rcond=None)
        if rank < m + 1:
            return None
        if _np.max(_np.abs(A.dot(sol) - y)) > 1e-8 * (1 + _np.max(_np.abs(y))):
            return None
        fr = [Fraction(float(c)).limit_denominator(24) for c in sol]
        if any(abs(float(f) - c) > 1e-7 for f, c in zip(fr, sol)):
            return None
        if any(abs(f.numerator) > 48 for f in fr):
            return None
        qs, d = fr[:-1], fr[-1]
        # prove it
        t0 = time.time()
        comb = T.const(d)
        for q, r in zip(qs, reps):
            if q != 0:
                comb = T.add(comb, T.mul(T.const(q), r))
        claim = T.eq(e, comb)
        s = z3.Solver()
        s.set('timeout', 5000)
        zc = self.tr(claim)
        for dt in self.domain_terms:
            s.add(self.tr(dt))
        s.add(self.defined(claim))
        for ax in self.axioms:
            s.add(ax)
        s.add(z3.Not(zc))
        r = s.check()
        self.stats['exp_relation_queries'] += 1
        self.stats['exp_relation_time'] += time.time() - t0
        if str(r) == 'unsat':
            return (qs, d)
        return None

    def _const_rational_power(self, base, d):
        p, q = d.numerator, d.denominator
        if q == 1:
            return self._ipow(self.tr(base), p)
        if base.op == 'const':
            r = T._exact_root(base.args[0], d)
            if r is not None:
                return q2z(r)
        w = self._root(base, q)
        return self._ipow(w, p)

    def _rational_power_of_z3(self, zv, key, qq):
        p, q = qq.numerator, qq.denominator
        if q == 1:
            return self._ipow(zv, p)
        k = ('zroot', key, q)
        w = self.roots.get(k)
        if w is None:
            w = self.aux('aroot%d' % q)
            self.roots[k] = w
            self.axioms.append(z3.And(w > 0, self._ipow(w, q) == zv))
        return self._ipow(w, p)

    def _relate(self, e, e0):
        """Find small rationals (q, d) with e == q*e0 + d for all values, proved by z3."""
        if e is e0:
            return (Fraction(1), Fraction(0))
        names = T.free_vars([e, e0])
        if not names:
            return None
        pts = []
        tries = 0
        while len(pts) < 3 and tries < 40:
            tries += 1
            env = {nm: self._rng.uniform(1.1, 2.9) for nm in names}
            if 'PI' in env:
                env['PI'] = 3.141592653589793
            try:
                a = T.evalf(e, env)
                b = T.evalf(e0, env)
            except Exception:
                continue
            if abs(a) > 1e6 or abs(b) > 1e6:
                continue
            pts.append((a, b))
        if len(pts) < 3:
            return None
        (a1, b1), (a2, b2), (a3, b3) = pts
        if abs(b1 - b2) < 1e-9:
            return None
        q = (a1 - a2) / (b1 - b2)
        d = a1 - q * b1
        if abs(a3 - (q * b3 + d)) > 1e-7 * (1 + abs(a3)):
            return None
        qf = Fraction(q).limit_denominator(24)
        df = Fraction(d).limit_denominator(24)
        if abs(float(qf) - q) > 1e-7 or abs(float(df) - d) > 1e-7 or qf == 0:
            return None
        if abs(qf.numerator) > 12 or abs(df.numerator) > 48:
            return None
        # prove it
        t0 = time.time()
        s = z3.Solver()
        s.set('timeout', 5000)
        claim = T.eq(e, T.add(T.mul(T.const(qf), e0), T.const(df)))
        zc = self.tr(claim)
        for dt in self.domain_terms:
            s.add(self.tr(dt))
        s.add(self.defined(e))
        s.add(self.defined(e0))
        for ax in self.axioms:
            s.add(ax)
        s.add(z3.Not(zc))
        r = s.check()
        self.stats['exp_relation_queries'] += 1
        self.stats['exp_relation_time'] += time.time() - t0
        if str(r) == 'unsat':
            return (qf, df)
        return None

    # ---- function atoms
    def _tr_fn(self, n):
        name = n.args[0]
        args = n.args[1:]
        if name == 'exp':
            self.var('EULER')
            a_ = self._atom(T.var('EULER'), args[0])
            # convexity bound, true for every real argument: exp(y) >= 1 + y  (lets the solver see that a mode with a
            # small decay exponent is NOT negligible when it searches a witness)
            self.axioms.append(a_ >= 1 + self.memo[args[0]])
            return a_
        key = n
        v = self.fn_atoms.get(key)
        if v is not None:
            return v
        zargs = [self.memo[a] for a in args]
        if name.startswith('uf:'):
            f = self.ufs.get((name, len(args)))
            if f is None:
                f = z3.Function(name, *([z3.RealSort()] * (len(args) + 1)))
                self.ufs[(name, len(args))] = f
            v = f(*zargs)
            self.fn_atoms[key] = v
            return v
        v = self.aux(name)
        # functional consistency with the atoms of the same function already present
        for k2, v2 in self.fn_atoms.items():
            if k2.args[0] == name and len(k2.args) == len(n.args) and not name.startswith('uf:'):
                same = z3.And(*[self.memo[x] == y for x, y in zip(k2.args[1:], zargs)])
                self.axioms.append(z3.Implies(same, v == v2))
        self.fn_atoms[key] = v
        a = zargs[0] if zargs else None
        if name == 'log':
            self._side(n, a > 0, 'log argument > 0: %s' % T.show(args[0], 120))
            # monotone facts tying log to its argument's position relative to 1
            self.axioms.append(z3.Implies(a > 0, z3.And(z3.Implies(a > 1, v > 0),
                                                        z3.Implies(a == 1, v == 0),
                                                        z3.Implies(a < 1, v < 0))))
        elif name in ('sin', 'cos'):
            self.axioms.append(z3.And(v >= -1, v <= 1))
            other = T.func('cos' if name == 'sin' else 'sin', args[0])
            if other in self.fn_atoms:
                o = self.fn_atoms[other]
                self.axioms.append(v * v + o * o == 1)
            # sign on the principal ranges (sound for every real argument); opt-in per obligation (`trig_sign_axioms'):
            # the extra PI-dependent implications slow queries that do not need them
            if not TRIG_SIGN_AXIOMS:
                pass
            elif name == 'cos':
                pi = self.var('PI')
                self.axioms.append(z3.Implies(z3.And(a > -pi / 2, a < pi / 2), v > 0))
                self.axioms.append(z3.Implies(z3.And(a > pi / 2, a < 3 * pi / 2), v < 0))
                self.axioms.append(z3.Implies(a == 0, v == 1))
            else:
                pi = self.var('PI')
                self.axioms.append(z3.Implies(z3.And(a > 0, a < pi), v > 0))
                self.axioms.append(z3.Implies(z3.And(a > -pi, a < 0), v < 0))
                self.axioms.append(z3.Implies(a == 0, v == 0))
        elif name == 'tan':
            pass
        elif name == 'arctan':
            pi = self.var('PI')
            self.axioms.append(z3.And(v > -pi / 2, v < pi / 2,
                                      z3.Implies(a > 0, v > 0), z3.Implies(a < 0, v < 0),
                                      z3.Implies(a == 0, v == 0)))
        elif name in ('arccos', 'arcsin'):
            pi = self.var('PI')
            self._side(n, z3.And(a >= -1, a <= 1), '|%s argument| <= 1: %s' % (name, T.show(args[0], 120)))
            if name == 'arccos':
                self.axioms.append(z3.And(v >= 0, v <= pi))
                self.axioms.append(z3.Implies(z3.And(a >= -1, a <= 1),
                                              z3.And(z3.Implies(a == 1, v == 0), z3.Implies(a == -1, v == pi),
                                                     z3.Implies(a == 0, 2 * v == pi),
                                                     z3.Implies(a > 0, 2 * v < pi), z3.Implies(a < 0, 2 * v > pi))))
                self._arccos_sum_axioms(n, v, a)
            else:
                self.axioms.append(z3.And(v >= -pi / 2, v <= pi / 2))
        elif name in ('sinh',):
            self.axioms.append(z3.And(z3.Implies(a > 0, v > 0), z3.Implies(a < 0, v < 0),
                                      z3.Implies(a == 0, v == 0)))
        elif name in ('cosh',):
            self.axioms.append(v >= 1)
        elif name in ('tanh',):
            self.axioms.append(z3.And(v > -1, v < 1))
        return v

    def _arccos_sum_axioms(self, node, v, a):
        """Exact algebraic characterisation of comparisons of sums of arccos atoms with pi
        (cos is strictly decreasing on [0, pi]):
           acos(x)+acos(y) < pi            <=>  x > -y
           acos(x)+acos(y)+acos(z) < pi    <=>  x > -y  and  x y - sqrt(1-x^2) sqrt(1-y^2) > -z
        instantiated for all pairs / triples of arccos atoms present."""
        pi = self.var('PI')
        lst = getattr(self, '_arccos_atoms', None)
        if lst is None:
            lst = self._arccos_atoms = []
        sq = T.pw(T.sub(T.ONE, T.mul(node.args[1], node.args[1])), T.HALF)
        s_ = self.tr(sq)
        me = (v, a, s_)
        inrng = lambda x: z3.And(x >= -1, x <= 1)
        for (v2, a2, s2) in lst:
            ok = z3.And(inrng(a), inrng(a2))
            self.axioms.append(z3.Implies(ok, z3.And((v + v2 < pi) == (a > -a2), (v + v2 == pi) == (a == -a2))))
        for i in range(len(lst)):
            for j in range(i + 1, len(lst)):
                (v2, a2, s2), (v3, a3, s3) = lst[i], lst[j]
                ok = z3.And(inrng(a), inrng(a2), inrng(a3))
                # all three orderings are equivalent; use (2,3) as the pair and `me' as the third
                cos23 = a2 * a3 - s2 * s3
                self.axioms.append(z3.Implies(ok, z3.And(
                    (v + v2 + v3 < pi) == z3.And(a2 > -a3, cos23 > -a),
                    (v + v2 + v3 > pi) == z3.Or(a2 < -a3, z3.And(a2 >= -a3, cos23 < -a)))))
        lst.append(me)

    # ---- definedness
    def defined(self, t):
        """z3 Bool: every partial operation in the sub-DAG of t is defined (ite-aware)."""
        self.tr(t)
        dm = self.defmemo
        if t in dm:
            return dm[t]
        for n in T.postorder(t):
            if n in dm:
                continue
            ch = T.children(n)
            parts = []
            if n.op == 'ite':
                c, a, b = n.args
                parts.append(dm[c])
                da, db = dm[a], dm[b]
                if not (z3.is_true(da) and z3.is_true(db)):
                    parts.append(z3.If(self.memo[c], da, db))
            else:
                for c in ch:
                    d = dm[c]
                    if not z3.is_true(d):
                        parts.append(d)
            for cond, _ in self.own_side.get(n, ()):
                parts.append(cond)
            if not parts:
                dm[n] = z3.BoolVal(True)
            elif len(parts) == 1:
                dm[n] = parts[0]
            else:
                dm[n] = z3.And(*parts)
        return dm[t]

    def side_conditions(self, t):
        """[(z3 bool, text)] own side conditions of every node under t (not ite-aware)."""
        self.tr(t)
        out = []
        for n in T.postorder(t):
            out.extend(self.own_side.get(n, ()))
        return out


def split_factors(b):
    """b == coeff * prod(base_i ** expo_i) with atomic bases (not mul/div/pow/neg/const).
    Returns (Fraction coeff, [(base Term, exponent Term)]) with equal bases merged."""
    coeff = Fraction(1)
    acc = {}
    order = []

    def walk(t, e):
        nonlocal coeff
        if t.op == 'const':
            if e.op == 'const' and e.args[0].denominator == 1 and t.args[0] != 0:
                coeff *= t.args[0] ** int(e.args[0])
            elif t.args[0] > 0:
                for prime, mult in _small_factorisation(t.args[0]):
                    key = T.const(prime)
                    if key not in acc:
                        acc[key] = T.ZERO
                        order.append(key)
                    acc[key] = T.add(acc[key], T.mul(T.const(mult), e))
            else:
                key = t
                if key not in acc:
                    acc[key] = T.ZERO
                    order.append(key)
                acc[key] = T.add(acc[key], e)
        elif t.op == 'mul':
            walk(t.args[0], e)
            walk(t.args[1], e)
        elif t.op == 'div':
            walk(t.args[0], e)
            walk(t.args[1], T.neg(e))
        elif t.op == 'neg':
            if e.op == 'const' and e.args[0].denominator == 1 and int(e.args[0]) % 2 == 0:
                walk(t.args[0], e)
            else:
                key = t
                if key not in acc:
                    acc[key] = T.ZERO
                    order.append(key)
                acc[key] = T.add(acc[key], e)
        elif t.op == 'pow':
            walk(t.args[0], T.mul(t.args[1], e))
        else:
            key = t
            if key not in acc:
                acc[key] = T.ZERO
                order.append(key)
            acc[key] = T.add(acc[key], e)

    walk(b, T.ONE)
    return coeff, [(k, acc[k]) for k in order]


def _small_factorisation(fr):
    """Prime factorisation of a positive rational with small primes -> [(prime, mult)]."""
    out = {}
    for sign, n in ((1, fr.numerator), (-1, fr.denominator)):
        p = 2
        while n > 1 and p <= 997:
            while n % p == 0:
                out[p] = out.get(p, 0) + sign
                n //= p
            p += 1
        if n > 1:
            out[n] = out.get(n, 0) + sign
    return sorted((p, m) for p, m in out.items() if m != 0)


# ---------------------------------------------------------------- solver front end

class Verdict(object):
    def __init__(self, status, model=None, seconds=0.0, reason=''):
        self.status = status      # 'unsat' | 'sat' | 'unknown'
        self.model = model        # {name: Fraction} for sat
        self.seconds = seconds
        self.reason = reason

    def __repr__(self):
        return 'Verdict(%s, %.2fs%s)' % (self.status, self.seconds,
                                         (', ' + self.reason) if self.reason else '')


QUERY_LOG = []   # (label, status, seconds) -- harvested by the runner for evidence


def solve(enc, assertions, timeout_s=30, label='', want_model=True, tactic=None):
    """assertions: iterable of z3 bools (or Terms).  Encoder axioms are always added."""
    zs = []
    for a in assertions:
        if isinstance(a, T.Term):
            a = enc.tr(a)
        zs.append(a)
    if tactic:
        s = z3.Tactic(tactic).solver()
    else:
        s = z3.Solver()
    s.set('timeout', int(timeout_s * 1000))
    for a in zs:
        s.add(a)
    for ax in enc.axioms:
        s.add(ax)
    t0 = time.time()
    r = s.check()
    dt = time.time() - t0
    st = str(r)
    model = None
    reason = ''
    if st == 'sat' and want_model:
        m = s.model()
        model = {}
        for name, v in enc.vars.items():
            model[name] = z3val_to_fraction(m.eval(v, model_completion=True))
        for name, v in enc.bvars.items():
            model[name] = z3.is_true(m.eval(v, model_completion=True))
        # values of the transcendental atoms (aux names contain '!': never taken for inputs), for witness repair
        for key, v in enc.fn_atoms.items():
            try:
                if z3.is_const(v) and str(v) not in model:
                    model[str(v)] = z3val_to_fraction(m.eval(v, model_completion=True))
            except Exception:
                pass
    elif st == 'unknown':
        reason = s.reason_unknown()
    QUERY_LOG.append((label, st, dt))
    return Verdict(st, model, dt, reason)


def z3val_to_fraction(v):
    if z3.is_rational_value(v):
        return Fraction(v.numerator_as_long(), v.denominator_as_long())
    if z3.is_algebraic_value(v):
        a = v.approx(30)
        return Fraction(a.numerator_as_long(), a.denominator_as_long())
    try:
        s = v.as_decimal(30).rstrip('?')
        return Fraction(s)
    except Exception:
        return Fraction(0)
