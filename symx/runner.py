"""Parallel runner, known-findings handling, evidence writer, CLI glue."""
import os
import sys
import json
import time
import importlib
import multiprocessing as mp
import traceback

from . import framework as F

ROOT = os.path.dirname(os.path.dirname(os.path.abspath(__file__)))
REPO = os.environ.get('EXACTPACK_REPO', '/repo')

LEVEL_TEXT = ('bounded symbolic checking of the real code with an SMT solver (CBMC/Kani style): '
              'the real ExactPack functions are executed on symbolic reals, z3 decides the negated '
              'property for all real inputs within the stated bounds; not a proof')


def _child(ob, tier, seed, conn):
    try:
        r = F.decide(ob, tier, seed)
    except BaseException as e:      # engine signals must not escape silently
        r = {'id': ob.id, 'prop': ob.prop, 'status': 'error',
             'error': '%s: %s\n%s' % (type(e).__name__, e, traceback.format_exc()[-2000:]),
             'paths': 0, 'claims': 0, 'queries': 0, 'solver_s': 0.0, 'discharged': 0,
             'inconclusive': [], 'violations': [], 'validated': 0, 'validation_skipped': 0,
             'bounds': ob.bounds, 'notes': [], 'functions': [], 'samples': [], 'raising_paths': 0,
             'distinct_claims': [], 'wall_s': 0.0}
    try:
        conn.send(r)
    finally:
        conn.close()


def run_obligations(obs, tier, seed, jobs=None):
    jobs = jobs or min(16, os.cpu_count() or 4)
    ctx = mp.get_context('fork')
    pending = list(enumerate(obs))
    running = {}
    results = [None] * len(obs)
    # the thorough tier is sized by total wall time: obligations not started within the property-level deadline are reported
    # inconclusive (never counted as discharged); SYMX_THOROUGH_DEADLINE_S=0 disables the deadline for an open-ended run
    deadline = float(os.environ.get('SYMX_THOROUGH_DEADLINE_S', '900')) if tier == 'thorough' else 0.0
    t_start = time.time()
    while pending or running:
        if deadline and pending and time.time() - t_start > deadline:
            for i, ob in pending:
                results[i] = _dead(ob, 'not started: the property-level time budget of the thorough tier (%ds, '
                                       'SYMX_THOROUGH_DEADLINE_S) was used up by the obligations before it' % deadline, status='inconclusive')
            pending = []
            continue
        while pending and len(running) < jobs:
            i, ob = pending.pop(0)
            pc, cc = ctx.Pipe(duplex=False)
            p = ctx.Process(target=_child, args=(ob, tier, seed, cc))
            p.start()
            cc.close()
            running[i] = (p, pc, time.time(), ob)
        time.sleep(0.02)
        for i in list(running):
            p, pc, t0, ob = running[i]
            hard = ob.hard_timeout_s if tier == 'quick' else max(ob.hard_timeout_s, getattr(ob, 'hard_timeout_thorough_s', float(os.environ.get('SYMX_THOROUGH_HARD_S', '1200'))))
            if pc.poll():
                try:
                    results[i] = pc.recv()
                except EOFError:
                    results[i] = _dead(ob, 'worker died without a result')
                p.join(5)
                del running[i]
            elif not p.is_alive():
                p.join()
                if pc.poll():
                    results[i] = pc.recv()
                else:
                    results[i] = _dead(ob, 'worker exited with code %s' % p.exitcode)
                del running[i]
            elif time.time() - t0 > hard:
                p.kill()
                p.join()
                results[i] = _dead(ob, 'hard wall-clock limit of %ds reached' % hard, status='inconclusive')
                del running[i]
    return results


def _dead(ob, why, status='error'):
    r = {'id': ob.id, 'prop': ob.prop, 'status': status, 'error': why if status == 'error' else None,
         'paths': 0, 'claims': 0, 'queries': 0, 'solver_s': 0.0, 'discharged': 0,
         'inconclusive': [{'label': '*', 'reason': why}] if status != 'error' else [],
         'violations': [], 'validated': 0, 'validation_skipped': 0, 'bounds': ob.bounds,
         'notes': [], 'functions': [], 'samples': [], 'raising_paths': 0, 'distinct_claims': [],
         'wall_s': 0.0}
    return r


# ------------------------------------------------------------------ known findings

def load_known():
    p = os.path.join(ROOT, 'known_findings.json')
    if not os.path.exists(p):
        return []
    return json.load(open(p)).get('findings', [])


def match_known(prop, viol, known):
    """A violation is `known' if an entry with status 'known' names the same property,
    obligation and claim label (entry fields may be prefixes ending in '*')."""
    for k in known:
        if k.get('status') != 'known' or k.get('property') != prop:
            continue
        if not _m(k.get('obligation', '*'), viol['obligation']):
            continue
        if not _m(k.get('label', '*'), viol['label']):
            continue
        return k
    return None


def _m(pat, s):
    """glob with '*' only (labels contain brackets, so fnmatch is not used)"""
    parts = pat.split('*')
    if len(parts) == 1:
        return pat == s
    if not s.startswith(parts[0]):
        return False
    pos = len(parts[0])
    for mid in parts[1:-1]:
        i = s.find(mid, pos)
        if i < 0:
            return False
        pos = i + len(mid)
    return s.endswith(parts[-1]) and len(s) - len(parts[-1]) >= pos


# ------------------------------------------------------------------ main entry

def run_property(prop, tier='quick', seed=0, only=None, jobs=None, verbose=True):
    t0 = time.time()
    sys.path.insert(0, REPO)
    mod = importlib.import_module('harness.' + prop)
    obs = mod.obligations(tier)
    if tier == 'thorough':
        # what the quick tier also runs goes first, so that the property-level deadline cuts the extras, not the core
        try:
            qids = set(o.id for o in mod.obligations('quick'))
            obs = [o for o in obs if o.id in qids] + sorted([o for o in obs if o.id not in qids], key=lambda o: getattr(o, 'cost', 1))
        except Exception:
            pass
    if only:
        obs = [o for o in obs if any(o.id.startswith(x) or x in o.id for x in only)]
    for o in obs:
        o.prop = prop
    results = run_obligations(obs, tier, seed, jobs)
    known = load_known()
    violations = []
    known_hits = []
    errors = []
    inconcl = []
    for r in results:
        if r['status'] == 'error':
            errors.append(r)
        for v in r['violations']:
            k = match_known(prop, v, known)
            if k is not None:
                known_hits.append((k, v))
            else:
                violations.append(v)
        for inc in r['inconclusive']:
            inconcl.append((r['id'], inc))
            if inc.get('harness_error'):
                errors.append({'id': r['id'], 'error': inc['reason']})
    # replays
    rdir = os.path.join(ROOT, 'replays', prop)
    os.makedirs(rdir, exist_ok=True)
    out_lines = []
    seenk = set()
    for k, v in known_hits:
        key = (k.get('obligation'), k.get('label'))
        if key in seenk:
            continue
        seenk.add(key)
        out_lines.append('KNOWN-FINDING: property=%s %s' % (prop, k.get('what', v['obligation'] + ' ' + v['label'])))
    seenv = set()
    for v in violations:
        fn = os.path.join(rdir, '%s__%s.json' % (_safe(v['obligation']), _safe(v['label'])))
        if fn in seenv:
            continue
        seenv.add(fn)
        json.dump({'property': prop, 'obligation': v['obligation'], 'label': v['label'],
                   'env': v['witness_float'], 'witness_exact': v['witness'],
                   'assertion': v['assertion'], 'replay': v['replay']}, open(fn, 'w'), indent=1)
        out_lines.append('VIOLATION property=%s replay=%s' % (prop, fn))
    wall = time.time() - t0
    ev = make_evidence(prop, tier, seed, mod, obs, results, violations, known_hits, inconcl, errors, wall)
    write_evidence(prop, ev)
    if verbose:
        n_ob = len(results)
        n_dis = sum(1 for r in results if r['status'] == 'discharged')
        print('%s tier=%s: %d obligations, %d fully discharged, %d claims (%d unsat), %d queries, solver %.1fs, wall %.1fs'
              % (prop, tier, n_ob, n_dis, sum(r['claims'] for r in results),
                 sum(r['discharged'] for r in results), sum(r['queries'] for r in results),
                 sum(r['solver_s'] for r in results), wall))
        for oid, inc in inconcl:
            print('  inconclusive %s %s: %s' % (oid, inc['label'], inc['reason'][:200]))
        for e in errors:
            print('  HARNESS-ERROR %s: %s' % (e['id'], (e.get('error') or '')[:1500]))
    for l in out_lines:
        print(l)
    if violations:
        return 1
    if errors:
        return 3
    return 0


def _safe(s):
    return ''.join(ch if ch.isalnum() or ch in '._-' else '_' for ch in s)[:120]


def make_evidence(prop, tier, seed, mod, obs, results, violations, known_hits, inconcl, errors, wall):
    funcs = {}
    for r in results:
        for f in r['functions']:
            funcs[f['function']] = f['sha1']
    distinct = set()
    for r in results:
        for h in r['distinct_claims']:
            distinct.add(h)
    samples = []
    for r in results:
        for s in r['samples'][:1]:
            samples.append(s)
    samples = samples[:12]
    if not samples:
        samples = [{'note': 'no claim reached the solver', 'obligations': [o.id for o in obs][:10]}]
    n_claims = sum(r['claims'] for r in results)
    n_dis = sum(r['discharged'] for r in results)
    cov = {
        'explanation': getattr(mod, 'EXPLANATION', LEVEL_TEXT),
        'obligations': n_claims,
        'discharged': n_dis,
        'evaluations': sum(r['queries'] for r in results),
        'distinct_nontrivial': len(distinct),
        'rule': ('one evaluation = one z3 query (path feasibility, reachability twin, negated claim, robust-witness '
                 'search); distinct_nontrivial = number of distinct negated-claim formulas (hash of the z3 AST) that '
                 'were not constant-folded to true by the encoder'),
        'samples': samples,
        'traces_validated_against_impl': sum(r['validated'] for r in results),
        'validation_skipped': sum(r['validation_skipped'] for r in results),
        'checker_cmd': './check %s --tier %s' % (prop, tier),
        'trusted_base': ['z3 5.1.0 (nonlinear real arithmetic)', 'CPython 3.12 executing the real ExactPack source',
                         'symx proxies/shims (validated per path against the unshimmed code)',
                         'stub contracts listed under assumptions'],
        'harness_obligations': len(results),
        'harness_obligations_fully_discharged': sum(1 for r in results if r['status'] == 'discharged'),
        'paths_explored': sum(r['paths'] for r in results),
        'raising_paths': sum(r['raising_paths'] for r in results),
        'solver_time_s': round(sum(r['solver_s'] for r in results), 2),
        'functions_encoded': [{'function': k, 'sha1': v} for k, v in sorted(funcs.items())],
        'bounds': sorted({r['bounds'] for r in results if r['bounds']}) + list(getattr(mod, 'BOUNDS', [])),
        'outside_claim': list(getattr(mod, 'OUTSIDE', [])),
        'inconclusive': [{'obligation': oid, 'claim': inc['label'], 'reason': inc['reason'][:300]} for oid, inc in inconcl],
        'known_findings_hit': [{'obligation': v['obligation'], 'label': v['label'], 'what': k.get('what', '')} for k, v in known_hits],
        'violation_details': [{'obligation': v['obligation'], 'label': v['label'], 'witness': v['witness_float'],
                               'replay': v['replay']} for v in violations][:20],
        'per_obligation': [{'id': r['id'], 'status': r['status'], 'paths': r['paths'], 'claims': r['claims'],
                            'unsat': r['discharged'], 'queries': r['queries'], 'solver_s': r['solver_s'],
                            'wall_s': r.get('wall_s', 0), 'notes': r['notes'][:6]} for r in results],
        'harness_errors': [{'id': e['id'], 'error': (e.get('error') or '')[:500]} for e in errors],
        'exhaustive': False,
    }
    ev = {
        'property_id': prop,
        'tier': tier,
        'seed': int(seed),
        'level': 'other',
        'coverage': cov,
        'assumptions': list(getattr(mod, 'ASSUMPTIONS', [])) + [
            'floats are treated as exact reals (IEEE-754 rounding, overflow, signed zero outside the claim)',
            'float constants met in the code are read as the small rational they are nearest to (see symx/terms.py)',
            'definedness side conditions (denominator != 0, root arguments >= 0, power bases > 0) are assumed unless the property is about them (C20)',
        ],
        'wall_s': round(wall, 2),
        'violations': len(violations),
    }
    return ev


def write_evidence(prop, ev):
    # trial runs against a seeded scratch worktree (tools/detect_seeds.py) keep their evidence out of /verif/evidence
    d = os.environ.get('SYMX_EVIDENCE_DIR') or os.path.join(ROOT, 'evidence')
    os.makedirs(d, exist_ok=True)
    try:
        import jsonschema
        schema = json.load(open('/root/.vp/EVIDENCE.schema.json'))
        jsonschema.validate(ev, schema)
    except ImportError:
        pass
    except FileNotFoundError:
        pass
    tmp = os.path.join(d, prop + '.json.tmp')
    json.dump(ev, open(tmp, 'w'), indent=1, default=str)
    os.replace(tmp, os.path.join(d, prop + '.json'))
