"""Hash-consed term DAG for real-valued expressions built by executing ExactPack code.

A Term is immutable; identical (op, args) pairs are the same object.  The layer is
deliberately small: it records what the code computed.  Three consumers:

* symx.smt      -- translation to z3 (with root variables, atoms, side conditions)
* symx.diff     -- exact symbolic differentiation
* symx.evalf    -- numeric evaluation (floats) used to validate the encoding against
                   the real, unshimmed code
"""
from fractions import Fraction
import math

_TABLE = {}
_COUNTER = [0]


class Term(object):
    __slots__ = ('op', 'args', 'id', '_hash', '__weakref__')

    def __new__(cls, op, args):
        key = (op, args)
        t = _TABLE.get(key)
        if t is not None:
            return t
        t = object.__new__(cls)
        t.op = op
        t.args = args
        _COUNTER[0] += 1
        t.id = _COUNTER[0]
        t._hash = hash(key)
        _TABLE[key] = t
        return t

    def __hash__(self):
        return self._hash

    def __eq__(self, other):
        return self is other

    def __ne__(self, other):
        return self is not other

    def __repr__(self):
        return show(self, 400)

    # convenience
    @property
    def is_const(self):
        return self.op == 'const'

    @property
    def value(self):
        assert self.op == 'const'
        return self.args[0]


# ---------------------------------------------------------------- constructors

def const(v):
    if isinstance(v, Term):
        return v
    if isinstance(v, bool):
        v = int(v)
    if isinstance(v, int):
        return Term('const', (Fraction(v),))
    if isinstance(v, Fraction):
        return Term('const', (v,))
    if isinstance(v, float):
        return Term('const', (float_to_fraction(v),))
    raise TypeError("cannot make a constant from %r" % (type(v),))


def float_to_fraction(x):
    """A Python float met in the code is read as the small rational it is the nearest
    double to (1/3, 5/3, 0.1, 1.4 ...) when there is one with denominator <= 10**6,
    otherwise as its exact binary value.  Stated assumption of every claim."""
    if x != x or x in (float('inf'), float('-inf')):
        raise NotEncodable("non-finite float constant %r" % x)
    if x == int(x) and abs(x) < 2 ** 62:
        return Fraction(int(x))
    f = Fraction(x)
    g = f.limit_denominator(10 ** 6)
    if float(g) == x:
        return g
    # a few ulps off a small rational: the residue of float arithmetic done by the code on
    # constants before any symbol was involved (e.g. 1/3 - 1 = -0.6666666666666667)
    g = f.limit_denominator(10 ** 4)
    if abs(float(g) - x) <= 8e-16 * abs(x):
        return g
    # decimal literal as written (repr round-trips)
    try:
        h = Fraction(repr(x))
        if float(h) == x and h.denominator <= 10 ** 18:
            return h
    except (ValueError, ZeroDivisionError):
        pass
    return f


class NotEncodable(Exception):
    """Raised when the code under test does something the engine cannot represent.
    The obligation is then reported inconclusive, never skipped silently."""


ZERO = const(0)
ONE = const(1)
MONE = const(-1)
TWO = const(2)
HALF = const(Fraction(1, 2))


def var(name):
    return Term('var', (name,))


def add(a, b):
    if a.op == 'const' and b.op == 'const':
        return const(a.args[0] + b.args[0])
    if a is ZERO:
        return b
    if b is ZERO:
        return a
    return Term('add', (a, b))


def neg(a):
    if a.op == 'const':
        return const(-a.args[0])
    if a.op == 'neg':
        return a.args[0]
    return Term('neg', (a,))


def sub(a, b):
    if a.op == 'const' and b.op == 'const':
        return const(a.args[0] - b.args[0])
    if b is ZERO:
        return a
    if a is ZERO:
        return neg(b)
    if a is b:
        return ZERO
    return Term('sub', (a, b))


def mul(a, b):
    if a.op == 'const' and b.op == 'const':
        return const(a.args[0] * b.args[0])
    if a is ZERO or b is ZERO:
        # 0 * x = 0: x may be undefined (NaN) in floats; reals are total here.
        return ZERO
    if a is ONE:
        return b
    if b is ONE:
        return a
    if a is MONE:
        return neg(b)
    if b is MONE:
        return neg(a)
    return Term('mul', (a, b))


def div(a, b):
    if b.op == 'const':
        if b.args[0] == 0:
            return Term('div', (a, b))      # kept: definedness side condition fails
        if a.op == 'const':
            return const(a.args[0] / b.args[0])
        if b is ONE:
            return a
    if a is ZERO and b.op != 'const':
        return Term('div', (a, b))
    return Term('div', (a, b))


def pw(a, e):
    """a ** e"""
    if e.op == 'const':
        ev = e.args[0]
        if ev == 1:
            return a
        if ev == 0:
            return ONE
        if a.op == 'const':
            av = a.args[0]
            if ev.denominator == 1 and (av != 0 or ev > 0):
                n = int(ev)
                if abs(n) <= 64:
                    return const(av ** n)
            else:
                # exact rational root if there is one
                if av > 0:
                    r = _exact_root(av, ev)
                    if r is not None:
                        return const(r)
    return Term('pow', (a, e))


def _exact_root(av, ev):
    p, q = ev.numerator, ev.denominator
    def iroot(n, q):
        if n < 0:
            return None
        r = round(n ** (1.0 / q))
        for c in (r - 1, r, r + 1):
            if c >= 0 and c ** q == n:
                return c
        return None
    n = iroot(av.numerator, q)
    d = iroot(av.denominator, q)
    if n is None or d is None or d == 0:
        return None
    base = Fraction(n, d)
    if base == 0 and p < 0:
        return None
    if abs(p) > 64:
        return None
    return base ** p


def func(name, *args):
    """Transcendental / special atoms: exp log sin cos tan arctan arccos arcsin sinh
    cosh tanh i0 i1 ... and uninterpreted functions (name starting with 'uf:')."""
    if name == 'log' and len(args) == 1 and args[0].op == 'var' and args[0].args[0] == 'EULER':
        return ONE
    if len(args) == 1 and args[0].op == 'const':
        v = args[0].args[0]
        if name == 'exp' and v == 0:
            return ONE
        if name == 'log' and v == 1:
            return ZERO
        if name in ('sin', 'tan', 'arctan', 'arcsin', 'sinh', 'tanh') and v == 0:
            return ZERO
        if name in ('cos', 'cosh') and v == 0:
            return ONE
    return Term('fn', (name,) + tuple(args))


def absval(a):
    if a.op == 'const':
        return const(abs(a.args[0]))
    if a.op == 'abs':
        return a
    return Term('abs', (a,))


def ite(c, a, b):
    if c is TRUE:
        return a
    if c is FALSE:
        return b
    if a is b:
        return a
    return Term('ite', (c, a, b))


def tmin(a, b):
    if a.op == 'const' and b.op == 'const':
        return a if a.args[0] <= b.args[0] else b
    if a is b:
        return a
    return Term('ite', (le(a, b), a, b))


def tmax(a, b):
    if a.op == 'const' and b.op == 'const':
        return a if a.args[0] >= b.args[0] else b
    if a is b:
        return a
    return Term('ite', (ge(a, b), a, b))


# ---------------------------------------------------------------- booleans

TRUE = Term('true', ())
FALSE = Term('false', ())


def boolc(b):
    return TRUE if b else FALSE


def _cmp(op, a, b):
    if a.op == 'const' and b.op == 'const':
        x, y = a.args[0], b.args[0]
        return boolc({'lt': x < y, 'le': x <= y, 'eq': x == y}[op])
    if a is b:
        return boolc(op in ('le', 'eq'))
    return Term(op, (a, b))


def lt(a, b):
    return _cmp('lt', a, b)


def le(a, b):
    return _cmp('le', a, b)


def gt(a, b):
    return _cmp('lt', b, a)


def ge(a, b):
    return _cmp('le', b, a)


def eq(a, b):
    return _cmp('eq', a, b)


def ne(a, b):
    return lnot(eq(a, b))


def lnot(a):
    if a is TRUE:
        return FALSE
    if a is FALSE:
        return TRUE
    if a.op == 'not':
        return a.args[0]
    return Term('not', (a,))


def land(*xs):
    out = []
    for x in xs:
        if x is FALSE:
            return FALSE
        if x is TRUE:
            continue
        if x.op == 'and':
            out.extend(x.args)
        else:
            out.append(x)
    # dedupe, keep order
    seen = set()
    o2 = []
    for x in out:
        if x.id not in seen:
            seen.add(x.id)
            o2.append(x)
    if not o2:
        return TRUE
    if len(o2) == 1:
        return o2[0]
    return Term('and', tuple(o2))


def lor(*xs):
    out = []
    for x in xs:
        if x is TRUE:
            return TRUE
        if x is FALSE:
            continue
        if x.op == 'or':
            out.extend(x.args)
        else:
            out.append(x)
    if not out:
        return FALSE
    if len(out) == 1:
        return out[0]
    return Term('or', tuple(out))


def implies(a, b):
    return lor(lnot(a), b)


BOOL_OPS = frozenset(['true', 'false', 'lt', 'le', 'eq', 'not', 'and', 'or', 'bvar'])


def bvar(name):
    return Term('bvar', (name,))


def is_bool(t):
    return t.op in BOOL_OPS


# ---------------------------------------------------------------- traversal helpers

def children(t):
    if t.op in ('const', 'var', 'true', 'false', 'bvar'):
        return ()
    if t.op == 'fn':
        return t.args[1:]
    return t.args


def postorder(roots):
    """Iterative post-order over the DAG reachable from roots (each node once)."""
    if isinstance(roots, Term):
        roots = [roots]
    seen = set()
    out = []
    stack = [(r, False) for r in roots]
    while stack:
        t, done = stack.pop()
        if done:
            out.append(t)
            continue
        if t.id in seen:
            continue
        seen.add(t.id)
        stack.append((t, True))
        for c in children(t):
            if c.id not in seen:
                stack.append((c, False))
    return out


def free_vars(roots):
    return sorted({t.args[0] for t in postorder(roots) if t.op in ('var', 'bvar')})


def size(roots):
    return len(postorder(roots))


def substitute(t, mapping):
    """mapping: {Term(var) or any Term: Term}.  Rebuilds through the smart constructors."""
    memo = {}
    for node in postorder(t):
        if node in mapping:
            memo[node] = mapping[node]
            continue
        ch = children(node)
        if not ch:
            memo[node] = node
            continue
        new = tuple(memo[c] for c in ch)
        if all(n is c for n, c in zip(new, ch)):
            memo[node] = node
        else:
            memo[node] = rebuild(node, new)
    return memo[t]


def rebuild(node, new):
    op = node.op
    if op == 'add':
        return add(*new)
    if op == 'sub':
        return sub(*new)
    if op == 'mul':
        return mul(*new)
    if op == 'div':
        return div(*new)
    if op == 'neg':
        return neg(*new)
    if op == 'pow':
        return pw(*new)
    if op == 'abs':
        return absval(*new)
    if op == 'ite':
        return ite(*new)
    if op == 'fn':
        return func(node.args[0], *new)
    if op in ('lt', 'le', 'eq'):
        return _cmp(op, *new)
    if op == 'not':
        return lnot(*new)
    if op == 'and':
        return land(*new)
    if op == 'or':
        return lor(*new)
    raise AssertionError(op)


# ---------------------------------------------------------------- printing

def show(t, limit=2000):
    memo = {}
    for n in postorder(t):
        op = n.op
        if op == 'const':
            v = n.args[0]
            s = str(v) if v.denominator == 1 else '(%s)' % v
        elif op in ('var', 'bvar'):
            s = n.args[0]
        elif op in ('true', 'false'):
            s = op
        elif op == 'fn':
            s = '%s(%s)' % (n.args[0], ', '.join(memo[c] for c in n.args[1:]))
        else:
            a = [memo[c] for c in n.args]
            if op == 'add':
                s = '(%s + %s)' % tuple(a)
            elif op == 'sub':
                s = '(%s - %s)' % tuple(a)
            elif op == 'mul':
                s = '%s*%s' % tuple(a)
            elif op == 'div':
                s = '(%s/%s)' % tuple(a)
            elif op == 'neg':
                s = '(-%s)' % a[0]
            elif op == 'pow':
                s = '%s**%s' % tuple(a)
            elif op == 'abs':
                s = 'abs(%s)' % a[0]
            elif op == 'ite':
                s = 'ite(%s, %s, %s)' % tuple(a)
            elif op == 'lt':
                s = '(%s < %s)' % tuple(a)
            elif op == 'le':
                s = '(%s <= %s)' % tuple(a)
            elif op == 'eq':
                s = '(%s == %s)' % tuple(a)
            elif op == 'not':
                s = 'not %s' % a[0]
            elif op == 'and':
                s = '(' + ' and '.join(a) + ')'
            elif op == 'or':
                s = '(' + ' or '.join(a) + ')'
            else:
                s = '%s(%s)' % (op, ', '.join(a))
        if len(s) > limit:
            s = s[:limit] + '...'
        memo[n] = s
    return memo[t]


# ---------------------------------------------------------------- numeric evaluation

_FN = {
    'exp': math.exp, 'log': math.log, 'sin': math.sin, 'cos': math.cos, 'tan': math.tan,
    'arctan': math.atan, 'arccos': math.acos, 'arcsin': math.asin, 'sinh': math.sinh,
    'cosh': math.cosh, 'tanh': math.tanh, 'log10': math.log10,
    'arctan2': math.atan2,
}


def evalf(t, env, fns=None):
    """Floating-point value of a term.  env: name -> float.  fns: extra function table
    (for uninterpreted functions).  Raises ArithmeticError/ValueError/KeyError as the
    float computation would."""
    memo = {}
    for n in postorder(t):
        op = n.op
        if op == 'const':
            v = float(n.args[0])
        elif op in ('var', 'bvar'):
            v = env[n.args[0]]
        elif op == 'true':
            v = True
        elif op == 'false':
            v = False
        elif op == 'ite':
            # evaluate lazily w.r.t. errors: children already evaluated; errors are stored
            c = memo[n.args[0]]
            v = memo[n.args[1]] if _val(c) else memo[n.args[2]]
            memo[n] = v
            continue
        else:
            try:
                if op == 'fn':
                    a = [_val(memo[c]) for c in n.args[1:]]
                    f = (fns or {}).get(n.args[0]) or _FN.get(n.args[0])
                    if f is None:
                        raise KeyError('no numeric function for %s' % n.args[0])
                    v = f(*a)
                else:
                    a = [_val(memo[c]) for c in n.args]
                    if op == 'add':
                        v = a[0] + a[1]
                    elif op == 'sub':
                        v = a[0] - a[1]
                    elif op == 'mul':
                        v = a[0] * a[1]
                    elif op == 'div':
                        v = a[0] / a[1]
                    elif op == 'neg':
                        v = -a[0]
                    elif op == 'pow':
                        v = a[0] ** a[1]
                        if isinstance(v, complex):
                            raise ValueError('complex power')
                    elif op == 'abs':
                        v = abs(a[0])
                    elif op == 'lt':
                        v = a[0] < a[1]
                    elif op == 'le':
                        v = a[0] <= a[1]
                    elif op == 'eq':
                        v = a[0] == a[1]
                    elif op == 'not':
                        v = not a[0]
                    elif op == 'and':
                        v = all(a)
                    elif op == 'or':
                        v = any(a)
                    else:
                        raise AssertionError(op)
            except (ArithmeticError, ValueError, KeyError) as e:
                v = _Err(e)
        memo[n] = v
    return _val(memo[t])


class _Err(object):
    def __init__(self, e):
        self.e = e


def _val(v):
    if isinstance(v, _Err):
        raise v.e
    return v
