"""Exact symbolic differentiation on the term DAG.

d(term, x, rules=None): derivative of `term' with respect to the variable named x.
rules: optional {Term: Term} giving the derivative of opaque nodes (stub outputs whose
derivative is known from a captured right-hand side, uninterpreted functions, ...).
ite(c, a, b) differentiates branch-wise (valid away from the switching surface); abs(u)
differentiates as ite(u >= 0, u', -u').
"""
from fractions import Fraction
from . import terms as T
from .terms import NotEncodable


def d(term, x, rules=None):
    rules = rules or {}
    memo = {}
    for n in T.postorder(term):
        memo[n] = _d1(n, x, memo, rules)
    return memo[term]


def depends(term, x, rules=None):
    rules = rules or {}
    for n in T.postorder(term):
        if n.op == 'var' and n.args[0] == x:
            return True
        if n in rules:
            return True
    return False


def _d1(n, x, m, rules):
    if n in rules:
        return rules[n]
    op = n.op
    if op == 'const':
        return T.ZERO
    if op == 'var':
        return T.ONE if n.args[0] == x else T.ZERO
    if T.is_bool(n):
        return T.ZERO     # placeholders; conditions are not differentiated
    if op == 'add':
        return T.add(m[n.args[0]], m[n.args[1]])
    if op == 'sub':
        return T.sub(m[n.args[0]], m[n.args[1]])
    if op == 'neg':
        return T.neg(m[n.args[0]])
    if op == 'mul':
        a, b = n.args
        return T.add(T.mul(m[a], b), T.mul(a, m[b]))
    if op == 'div':
        a, b = n.args
        da, db = m[a], m[b]
        if da is T.ZERO and db is T.ZERO:
            return T.ZERO
        if db is T.ZERO:
            return T.div(da, b)
        if da is T.ZERO:
            return T.neg(T.mul(n, T.div(db, b)))
        # (a/b)' = a'/b - (a/b) b'/b
        return T.sub(T.div(da, b), T.mul(n, T.div(db, b)))
    if op == 'pow':
        b, e = n.args
        db, de = m[b], m[e]
        out = T.ZERO
        if db is not T.ZERO:
            # e * b**e * b'/b  (keeps the same power atom)
            if e.op == 'const' and e.args[0].denominator == 1 and e.args[0] >= 1:
                out = T.mul(T.mul(e, T.pw(b, T.const(e.args[0] - 1))), db)
            else:
                out = T.mul(T.mul(e, n), T.div(db, b))
        if de is not T.ZERO:
            out = T.add(out, T.mul(T.mul(n, T.func('log', b)), de))
        return out
    if op == 'abs':
        a = n.args[0]
        da = m[a]
        if da is T.ZERO:
            return T.ZERO
        return T.ite(T.ge(a, T.ZERO), da, T.neg(da))
    if op == 'ite':
        c, a, b = n.args
        return T.ite(c, m[a], m[b])
    if op == 'fn':
        name = n.args[0]
        args = n.args[1:]
        if all(m[a] is T.ZERO for a in args):
            return T.ZERO
        if len(args) == 1:
            u = args[0]
            du = m[u]
            if name == 'exp':
                return T.mul(n, du)
            if name == 'log':
                return T.div(du, u)
            if name == 'log10':
                return T.div(du, T.mul(u, T.func('log', T.const(10))))
            if name == 'sin':
                return T.mul(T.func('cos', u), du)
            if name == 'cos':
                return T.neg(T.mul(T.func('sin', u), du))
            if name == 'tan':
                return T.mul(T.add(T.ONE, T.mul(n, n)), du)
            if name == 'arctan':
                return T.div(du, T.add(T.ONE, T.mul(u, u)))
            if name == 'arccos':
                return T.neg(T.div(du, T.pw(T.sub(T.ONE, T.mul(u, u)), T.HALF)))
            if name == 'arcsin':
                return T.div(du, T.pw(T.sub(T.ONE, T.mul(u, u)), T.HALF))
            if name == 'sinh':
                return T.mul(T.func('cosh', u), du)
            if name == 'cosh':
                return T.mul(T.func('sinh', u), du)
            if name == 'tanh':
                return T.mul(T.sub(T.ONE, T.mul(n, n)), du)
            if name == 'i0':
                return T.mul(T.func('i1', u), du)
            if name == 'i1':
                # I1' = I0 - I1/x
                return T.mul(T.sub(T.func('i0', u), T.div(n, u)), du)
            if name == 'j0':
                return T.neg(T.mul(T.func('j1', u), du))
            if name == 'j1':
                return T.mul(T.sub(T.func('j0', u), T.div(n, u)), du)
            if name == 'y0':
                return T.neg(T.mul(T.func('y1', u), du))
            if name == 'y1':
                return T.mul(T.sub(T.func('y0', u), T.div(n, u)), du)
        raise NotEncodable('derivative of %s' % name)
    raise NotEncodable('derivative of op %s' % op)


def logd(term, x, rules=None):
    """Logarithmic derivative (d term/dx)/term computed structurally so that power-law factors never appear:
       logd(a*b) = logd a + logd b,  logd(a/b) = logd a - logd b,  logd(a**e) = e logd a + e' log a,
       logd(-a) = logd a,  logd(const) = 0,  logd(exp u) = u';  anything else: (d term)/term."""
    rules = rules or {}
    memo = {}

    def go(n):
        if n in memo:
            return memo[n]
        op = n.op
        if n in rules:
            r = T.div(rules[n], n)
        elif op == 'const':
            r = T.ZERO
        elif op == 'mul':
            r = T.add(go(n.args[0]), go(n.args[1]))
        elif op == 'div':
            r = T.sub(go(n.args[0]), go(n.args[1]))
        elif op == 'neg':
            r = go(n.args[0])
        elif op == 'pow':
            b, e = n.args
            de = d(e, x, rules)
            r = T.mul(e, go(b))
            if de is not T.ZERO:
                r = T.add(r, T.mul(de, T.func('log', b)))
        elif op == 'fn' and n.args[0] == 'exp':
            r = d(n.args[1], x, rules)
        else:
            dn = d(n, x, rules)
            r = T.ZERO if dn is T.ZERO else T.div(dn, n)
        memo[n] = r
        return r
    return go(term)
