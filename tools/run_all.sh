#!/bin/sh
# run every claimed check (quick tier by default) against /repo and summarise; evidence files are rewritten
TIER=${1:-quick}
cd /verif
for P in $(cat tools/claimed.txt); do
  S=$(date +%s)
  ./check $P --tier $TIER > /tmp/run_all_$P.log 2>&1
  RC=$?
  E=$(date +%s)
  echo "$P rc=$RC $((E-S))s $(grep -c VIOLATION /tmp/run_all_$P.log) violations, $(grep -c KNOWN-FINDING /tmp/run_all_$P.log) known, $(grep -c inconclusive /tmp/run_all_$P.log) inconclusive, $(grep -c HARNESS-ERROR /tmp/run_all_$P.log) errors"
done
