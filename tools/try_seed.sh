#!/bin/sh
# tools/try_seed.sh <patch> <prop> [check args...] : apply a seeded patch to /repo, run the check, always revert.
P=$1; shift; PROP=$1; shift
git -C /repo apply "$P" || { echo "PATCH DOES NOT APPLY"; exit 9; }
/verif/check "$PROP" "$@" 2>&1 | grep -v "^Traceback\|^  File\|^    " | tail -${TAILN:-8}
RC=$?
git -C /repo checkout -- .
git -C /repo status --short | grep -v '^??' | head -3
