#!/bin/sh
# tools/try_seed.sh <patch> <prop> [check args...] : apply a seeded patch to /repo (with fuzz: /repo carries fix commits),
# run the check, always revert.
P=$1; shift; PROP=$1; shift
cd /repo
if ! git apply "$P" 2>/dev/null; then
  patch -p1 --fuzz=3 -s < "$P" || { echo "PATCH DOES NOT APPLY"; git checkout -- .; find . -name "*.orig" -o -name "*.rej" | xargs rm -f; exit 9; }
fi
cd /verif
/verif/check "$PROP" "$@" 2>&1 | grep -v "^Traceback\|^  File\|^    " | tail -${TAILN:-8}
git -C /repo checkout -- .
find /repo -name "*.orig" -o -name "*.rej" | xargs rm -f
git -C /repo status --short | grep -v '^??' | head -3
