"""Regenerate MANIFEST.json from the harness modules present (harness/Cxx.py with META)."""
import os, sys, json, importlib
HERE = os.path.dirname(os.path.dirname(os.path.abspath(__file__)))
sys.path.insert(0, HERE)
sys.path.insert(0, '/repo')
props = [json.loads(l) for l in open(os.path.join(HERE, 'properties.jsonl'))]
NA = json.load(open(os.path.join(HERE, 'tools', 'not_applicable.json')))
CLAIMED = set(open(os.path.join(HERE, 'tools', 'claimed.txt')).read().split())
checks = []
na = []
served = []
for p in props:
    pid = p['id']
    path = os.path.join(HERE, 'harness', pid + '.py')
    meta = None
    if os.path.exists(path) and pid in CLAIMED:
        m = importlib.import_module('harness.' + pid)
        meta = getattr(m, 'META', None)
    if meta is None:
        na.append({'property_id': pid, 'reason': NA.get(pid, 'check not built yet (work in progress)')})
        continue
    served.append(pid)
    checks.append({
        'property_id': pid,
        'quick_cmd': './check %s --tier quick' % pid,
        'thorough_cmd': './check %s --tier thorough' % pid,
        'evidence_file': 'evidence/%s.json' % pid,
        'replay_cmd_template': './check %s --replay {path}' % pid,
        'engine': 'symx',
        'level_claimed': {'category': 'other', 'text': meta['level_text'], 'design_ref': meta.get('design_ref', 'DESIGN.md section 5 (%s)' % pid)},
        'level_note': meta['level_note'],
        'technique': meta.get('technique', 'symbolic execution of the real Python functions on proxy reals + z3 (QF_NRA) on the negated property, witnesses replayed on the unshimmed code'),
    })
man = {
    'version': 1,
    'setup_cmd': 'sh tools/setup_venv.sh',
    'hooks': {'guard': 'EXACTPACK_VERIF',
              'enable': 'no hooks: the checks import /repo\'s working tree and monkeypatch module globals (numpy/math/scipy names, ExactSolution) from the check process for the duration of a run; nothing in /repo is edited and the guard variable is unused',
              'baseline_off_cmd': 'cd /repo && /venv/bin/python -m pytest -ra -q -p no:cacheprovider --timeout=900 --continue-on-collection-errors',
              'source_commits': [], 'add_only': True},
    'engines': [{'name': 'symx', 'path': 'symx/', 'serves_properties': served,
                 'kind_free_text': 'symbolic execution of the real ExactPack Python functions under proxy objects (numpy object arrays of symbolic reals; path forking decided by z3; SciPy numerics replaced by contract stubs), properties discharged by z3 5.1 over nonlinear real arithmetic, sat witnesses replayed on the unshimmed code'}],
    'checks': checks,
    'notes': open(os.path.join(HERE, 'tools', 'manifest_notes.txt')).read().strip(),
    'not_applicable': na,
}
json.dump(man, open(os.path.join(HERE, 'MANIFEST.json'), 'w'), indent=1)
import jsonschema
jsonschema.validate(man, json.load(open('/root/.vp/MANIFEST.schema.json')))
print('MANIFEST ok: %d checks, %d not applicable' % (len(checks), len(na)))
