import os, sys, json, argparse
HERE = os.path.dirname(os.path.dirname(os.path.abspath(__file__)))
sys.path.insert(0, HERE)
REPO = os.environ.get('EXACTPACK_REPO', '/repo')
sys.path.insert(0, REPO)
os.environ.setdefault('MPLBACKEND', 'Agg')
os.environ.setdefault('OMP_NUM_THREADS', '1')
os.environ.setdefault('OPENBLAS_NUM_THREADS', '1')
import warnings
warnings.filterwarnings('ignore')


def main():
    ap = argparse.ArgumentParser()
    ap.add_argument('prop')
    ap.add_argument('--tier', default=os.environ.get('VERIF_TIER', 'quick'), choices=['quick', 'thorough'])
    ap.add_argument('--only', nargs='*')
    ap.add_argument('--replay')
    ap.add_argument('--jobs', type=int, default=None)
    a = ap.parse_args()
    seed = int(os.environ.get('VERIF_SEED', '0') or 0)
    from symx import runner
    if a.replay:
        sys.exit(replay(a.prop, a.replay))
    rc = runner.run_property(a.prop, a.tier, seed, a.only, a.jobs)
    sys.exit(rc)


def replay(prop, path):
    import importlib
    from symx import framework as F
    rec = json.load(open(path))
    mod = importlib.import_module('harness.' + prop)
    for tier in ('quick', 'thorough'):
        for ob in mod.obligations(tier):
            if ob.id == rec['obligation']:
                r = F.replay_claim(ob, rec['env'], rec['label'])
                print(json.dumps(r, indent=1))
                if r['reproduced']:
                    print('VIOLATION property=%s replay=%s' % (prop, path))
                    return 1
                return 0
    print('obligation %s not found' % rec['obligation'])
    return 3


if __name__ == '__main__':
    main()
