#!/usr/bin/env python3
"""Run the quick checks against every confirmed seeded change (applied in a scratch worktree, selected with
EXACTPACK_REPO, so /repo itself is never touched) and write seeded/DETECTION.md + 'detected_by' into each meta.json."""
import os, sys, json, subprocess, glob, re, time

OUT = '/verif/seeded'
WT = '/tmp/wt/detect'

FILEMAP = [   # (path fragment, obligation-id substrings for --only, extra properties worth trying)
    ('riemann2D', [], ['C19']),
    ('riemann/', ['igeos', 'riemann', 'waves', 'fan', 'rh.', 'geos'], ['C02', 'C04', 'C09', 'C10', 'C17', 'C07', 'C08', 'C06', 'C20', 'C03', 'C01']),
    ('sedov', ['sedov'], ['C02', 'C10', 'C11', 'C17', 'C08', 'C06', 'C01', 'C20']),
    ('cog/', ['cog'], ['C01', 'C02', 'C03', 'C05', 'C07', 'C08', 'C10', 'C20']),
    ('noh2', ['noh2'], ['C01', 'C03', 'C07', 'C08', 'C20', 'C06']),
    ('nohblackboxeos', [], ['C16', 'C02', 'C06', 'C07']),
    ('noh/', ['noh'], ['C01', 'C02', 'C03', 'C05', 'C07', 'C08', 'C10', 'C17', 'C20', 'C06']),
    ('kenamond', ['kenamond'], ['C13', 'C09', 'C07', 'C08', 'C05', 'C20']),
    ('dsd', ['dsd'], ['C13', 'C09', 'C08', 'C05', 'C20']),
    ('blake', ['blake', 'elastic', 'fields'], ['C15', 'C08', 'C06', 'C05', 'C20']),
    ('heat', [], ['C14', 'C07', 'C08', 'C05']),
    ('ep_piston', ['eppiston'], ['C02', 'C17', 'C08', 'C20']),
    ('sdrz', ['sdrz'], ['C02', 'C17', 'C05', 'C20']),
    ('mader', ['mader'], ['C02', 'C10', 'C17', 'C08']),
    ('guderley', ['guderley'], ['C01', 'C03', 'C10', 'C06']),
    ('suolson', [], ['C18']),
    ('radshocks', [], ['C12']),
    ('ehep', ['ehep'], ['C01', 'C02', 'C10', 'C17', 'C08', 'C05', 'C20']),
    ('base.py', [], ['C05']),
    ('rmtv', [], ['C03']),
]


def sh(cmd, cwd=None, timeout=7200, env=None):
    p = subprocess.run(cmd, shell=True, cwd=cwd, stdout=subprocess.PIPE, stderr=subprocess.STDOUT, text=True, timeout=timeout, env=env)
    return p.returncode, p.stdout


def main():
    only_ids = sys.argv[1:]
    claimed = open('/verif/tools/claimed.txt').read().split()
    if not os.path.isdir(WT):
        sh('git -C /repo worktree add -q --detach %s HEAD' % WT)
    else:
        sh('git checkout -q --detach $(git -C /repo rev-parse HEAD)', cwd=WT)
    env = dict(os.environ, EXACTPACK_REPO=WT, SYMX_EVIDENCE_DIR='/tmp/wt/detect_evidence')
    rows = []
    for d in sorted(glob.glob(OUT + '/*/')):
        sid = os.path.basename(d.rstrip('/'))
        mp = os.path.join(d, 'meta.json')
        if not os.path.exists(mp):
            continue
        meta = json.load(open(mp))
        if only_ids and sid not in only_ids:
            rows.append(meta)
            continue
        if meta.get('status') != 'confirmed':
            rows.append(meta)
            continue
        if 'detected_by' in meta and not only_ids:
            rows.append(meta)
            continue
        patch = open(os.path.join(d, 'patch.diff')).read()
        files = re.findall(r'^\+\+\+ b/(.*)$', patch, re.M)
        props, only = [meta['property']], set()
        for frag, subs, extra in FILEMAP:
            if any(frag in f for f in files):
                only.update(subs)
                for p in extra:
                    if p not in props:
                        props.append(p)
        sh('git checkout -q -- . && git clean -qfd', cwd=WT)
        rc, out = sh('git apply %s' % os.path.join(d, 'patch.diff'), cwd=WT)
        if rc != 0:
            # /repo has moved on by later fix: commits since the seed was written: apply with fuzz
            sh('git checkout -q -- . && git clean -qfd', cwd=WT)
            rc, out = sh('patch -p1 --fuzz=3 -s < %s' % os.path.join(d, 'patch.diff'), cwd=WT)
            sh('find . -name "*.orig" -delete; find . -name "*.rej" -delete', cwd=WT)
        if rc != 0:
            meta['detected_by'] = {'error': 'patch does not apply'}
            json.dump(meta, open(mp, 'w'), indent=1)
            rows.append(meta)
            continue
        det = {}
        for p in props:
            if p not in claimed:
                continue
            args = ''
            if only and p != meta['property'] and p != 'C14' and p != 'C16' and p != 'C18' and p != 'C19' and p != 'C12' and p != 'C11':
                args = ' --only ' + ' '.join(sorted(only))
            t0 = time.time()
            rc, out = sh('./check %s --tier quick --jobs 8%s' % (p, args), cwd='/verif', env=env, timeout=3600)
            viol = [l for l in out.splitlines() if l.startswith('VIOLATION')]
            det[p] = {'exit': rc, 'violations': len(viol), 'first': (viol[0].split('replay=')[-1].split('/')[-1][:120] if viol else ''),
                      'wall_s': round(time.time() - t0)}
            print(sid, p, rc, len(viol), flush=True)
            if viol:
                break           # caught: the remaining candidate checks are not needed for the table
        meta['detected_by'] = det
        meta['detected'] = any(v['violations'] > 0 for v in det.values())
        json.dump(meta, open(mp, 'w'), indent=1)
        rows.append(meta)
    sh('git checkout -q -- . && git clean -qfd', cwd=WT)
    # table
    lines = ['# Seeded changes: which checks catch which', '',
             'Generated by tools/detect_seeds.py (quick tier, patch applied in a scratch worktree selected with EXACTPACK_REPO).', '',
             '| seed | property | what / needs | status | own check | other checks that also raise it |', '|---|---|---|---|---|---|']
    for m in rows:
        det = m.get('detected_by', {})
        own = det.get(m['property'], {})
        others = ', '.join('%s(%d)' % (p, v['violations']) for p, v in det.items() if p != m['property'] and isinstance(v, dict) and v.get('violations'))
        what = (m.get('summary', '') or '')[:160].replace('|', '/').replace('\n', ' ')
        lines.append('| %s | %s | %s | %s | %s | %s |' % (m['id'], m['property'], what, m.get('status', ''),
                     ('VIOLATION (%d): %s' % (own.get('violations', 0), own.get('first', '')[:60])) if own.get('violations') else ('missed' if own else 'n/a'), others))
    open(os.path.join(OUT, 'DETECTION.md'), 'w').write('\n'.join(lines) + '\n')


if __name__ == '__main__':
    main()
