#!/bin/sh
# run every claimed check in the thorough tier once, end to end, keep a copy of each evidence file under evidence_thorough/
cd /verif
mkdir -p evidence_thorough
JOBS=${JOBS:-8}
for P in ${PROPS:-$(cat tools/claimed.txt)}; do
  S=$(date +%s)
  ./check $P --tier thorough --jobs $JOBS > /tmp/run_thorough_$P.log 2>&1
  RC=$?
  E=$(date +%s)
  cp evidence/$P.json evidence_thorough/$P.json 2>/dev/null
  echo "$P rc=$RC $((E-S))s $(grep -c VIOLATION /tmp/run_thorough_$P.log) violations, $(grep -c KNOWN-FINDING /tmp/run_thorough_$P.log) known, $(grep -c inconclusive /tmp/run_thorough_$P.log) inconclusive, $(grep -c HARNESS-ERROR /tmp/run_thorough_$P.log) errors" >> /tmp/run_thorough_summary.log
done
