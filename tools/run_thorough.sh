#!/bin/sh
# run every claimed check in the thorough tier once, end to end; the evidence of these runs goes to evidence_thorough/
# (SYMX_EVIDENCE_DIR), so that evidence/ keeps what the registered quick commands wrote last
cd /verif
mkdir -p evidence_thorough
JOBS=${JOBS:-8}
for P in ${PROPS:-$(cat tools/claimed.txt)}; do
  S=$(date +%s)
  SYMX_EVIDENCE_DIR=/verif/evidence_thorough ./check $P --tier thorough --jobs $JOBS > /tmp/run_thorough_$P.log 2>&1
  RC=$?
  E=$(date +%s)
  echo "$P rc=$RC $((E-S))s $(grep -c VIOLATION /tmp/run_thorough_$P.log) violations, $(grep -c KNOWN-FINDING /tmp/run_thorough_$P.log) known, $(grep -c inconclusive /tmp/run_thorough_$P.log) inconclusive, $(grep -c HARNESS-ERROR /tmp/run_thorough_$P.log) errors" >> /tmp/run_thorough_summary.log
done
