#!/usr/bin/env python3
"""Confirm every seeded change in a scratch worktree of /repo's HEAD (outside /repo and /verif):
   applies -> demo FAILS -> existing test suite still passes (only the known always-failing test fails) -> reverted -> demo PASSES.
   Confirmed seeds are filed under /verif/seeded/<id>/ (patch.diff regenerated against HEAD, demo.py, meta.json)."""
import os, sys, json, subprocess, shutil, glob, re, time

RAW = '/verif/seeded_raw'
OUT = '/verif/seeded'
WT = '/tmp/wt/confirm'
KNOWN_FAIL = 'test_riemLeegen_region_boundaries'


def sh(cmd, cwd=None, timeout=3600):
    p = subprocess.run(cmd, shell=True, cwd=cwd, stdout=subprocess.PIPE, stderr=subprocess.STDOUT, text=True, timeout=timeout)
    return p.returncode, p.stdout


def main():
    only = sys.argv[1:]
    if not os.path.isdir(WT):
        sh('git -C /repo worktree add -q --detach %s HEAD' % WT)
    else:
        sh('git checkout -q --detach $(git -C /repo rev-parse HEAD)', cwd=WT)
    head = sh('git -C /repo rev-parse --short HEAD')[1].strip()
    for patch in sorted(glob.glob(RAW + '/*.patch')):
        sid = os.path.basename(patch)[:-6]
        if only and sid not in only:
            continue
        dst = os.path.join(OUT, sid)
        if os.path.exists(os.path.join(dst, 'meta.json')) and not only:
            continue
        pre = os.path.join(dst, 'patch.diff')
        src = pre if os.path.exists(pre) else patch        # hand-adapted patch takes precedence
        sh('git checkout -q -- . && git clean -qfd', cwd=WT)
        rc, out = sh('git apply %s' % src, cwd=WT)
        if rc != 0:
            rc, out = sh('patch -p1 --fuzz=3 -s < %s' % src, cwd=WT)
            sh('find . -name "*.orig" -delete -o -name "*.rej" -delete', cwd=WT)
        meta = {'id': sid, 'property': sid.split('_')[0], 'confirmed_against': head}
        if rc != 0:
            meta['status'] = 'rejected: patch does not apply to HEAD (overlaps a fix: commit)'
            _write(dst, meta, None, None)
            print(sid, meta['status'], flush=True)
            continue
        diff = sh('git diff', cwd=WT)[1]
        demo = os.path.join(RAW, sid + '_demo.py')
        shutil.copy(demo, os.path.join(WT, 'demo_seed.py'))
        env = 'cd %s && PYTHONPATH=%s MPLBACKEND=Agg /venv/bin/python demo_seed.py' % (WT, WT)
        rc_with, out_with = sh(env, timeout=1800)
        t0 = time.time()
        rc_t, out_t = sh('/venv/bin/python -m pytest -q -p no:cacheprovider -n 12 --timeout=900 -x --deselect exactpack/tests/test_riemann.py::Test_RiemannJWL_Lee::test_riemLeegen_region_boundaries 2>&1 | tail -5', cwd=WT, timeout=3600)
        tests_ok = (' failed' not in out_t) and (' error' not in out_t.lower()) and ('passed' in out_t)
        flaky_note = ''
        if not tests_ok:
            # a failure may be a load-dependent flake (tight float tolerances): rerun the failing tests alone, serially
            rc_f, out_f = sh('/venv/bin/python -m pytest -q -p no:cacheprovider -n 12 --timeout=900 --deselect exactpack/tests/test_riemann.py::Test_RiemannJWL_Lee::test_riemLeegen_region_boundaries 2>&1 | grep FAILED', cwd=WT, timeout=3600)
            failed = re.findall(r'FAILED (\S+)', out_f)
            if failed:
                rc_r, out_r = sh('/venv/bin/python -m pytest -q -p no:cacheprovider --timeout=900 %s 2>&1 | tail -3' % ' '.join(failed), cwd=WT, timeout=3600)
                if ' failed' not in out_r and 'passed' in out_r:
                    tests_ok = True
                    flaky_note = ' (first run had load-dependent failures %s; they pass when re-run alone)' % failed
                    out_t = out_t + flaky_note
            else:
                tests_ok = True
                flaky_note = ' (failure of the first run did not recur)'
                out_t = out_t + flaky_note
        sh('git checkout -q -- .', cwd=WT)
        rc_without, out_without = sh(env, timeout=1800)
        raw_meta = {}
        jm = os.path.join(RAW, sid + '.json')
        if os.path.exists(jm):
            try:
                raw_meta = json.load(open(jm))
            except Exception:
                raw_meta = {}
        meta.update({'summary': raw_meta.get('summary', ''), 'needs': raw_meta.get('needs', ''),
                     'demo_with_change': 'FAIL' if rc_with != 0 else 'PASS', 'demo_without_change': 'PASS' if rc_without == 0 else 'FAIL',
                     'tests': out_t.strip().splitlines()[-1] if out_t.strip() else '', 'tests_wall_s': round(time.time() - t0),
                     'what_was_run': ['git apply patch.diff (scratch worktree of /repo HEAD %s)' % head,
                                      'PYTHONPATH=<worktree> /venv/bin/python demo.py  (expect exit 1)',
                                      'pytest -q -n 12 --timeout=900 (full suite; the always-failing test_riemLeegen_region_boundaries deselected)',
                                      'git checkout -- . ; demo.py again (expect exit 0)']})
        ok = rc_with != 0 and rc_without == 0 and tests_ok
        meta['status'] = 'confirmed' if ok else 'rejected: demo_with=%s demo_without=%s tests_ok=%s' % (rc_with, rc_without, tests_ok)
        _write(dst, meta, diff, demo)
        print(sid, meta['status'], meta['tests'], flush=True)
    sh('git checkout -q -- . && git clean -qfd', cwd=WT)


def _write(dst, meta, diff, demo):
    os.makedirs(dst, exist_ok=True)
    if diff is not None:
        open(os.path.join(dst, 'patch.diff'), 'w').write(diff)
    if demo is not None:
        shutil.copy(demo, os.path.join(dst, 'demo.py'))
    json.dump(meta, open(os.path.join(dst, 'meta.json'), 'w'), indent=1)


if __name__ == '__main__':
    main()
