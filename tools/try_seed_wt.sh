#!/bin/sh
# tools/try_seed_wt.sh <patch> <prop> [check args...] : like try_seed.sh but in a scratch worktree of /repo HEAD selected with
# EXACTPACK_REPO (so /repo itself is not touched: safe while evidence runs are in progress); evidence goes to a scratch dir.
P=$1; shift; PROP=$1; shift
WT=/tmp/wt/try
[ -d $WT ] || git -C /repo worktree add -q --detach $WT HEAD
cd $WT && git checkout -q --detach $(git -C /repo rev-parse HEAD) && git checkout -q -- . && git clean -qfd
if ! git apply "$P" 2>/dev/null; then
  patch -p1 --fuzz=3 -s < "$P" || { echo "PATCH DOES NOT APPLY"; exit 9; }
fi
cd /verif
EXACTPACK_REPO=$WT SYMX_EVIDENCE_DIR=/tmp/wt/try_evidence /verif/check "$PROP" "$@" 2>&1 | grep -v "^Traceback\|^  File\|^    " | tail -${TAILN:-8}
cd $WT && git checkout -q -- . && git clean -qfd
