#!/bin/sh
# Build the overlay venv (/verif/.venv) offline from the wheelhouse.
# It sits on top of /venv (which has numpy/scipy/matplotlib and ExactPack's deps)
# and adds z3-solver, cvc5, crosshair-tool, jsonschema.  Idempotent.
set -e
V="$(cd "$(dirname "$0")/.." && pwd)/.venv"
if [ -x "$V/bin/python" ] && "$V/bin/python" -c "import z3, numpy, jsonschema" 2>/dev/null; then
  exit 0
fi
rm -rf "$V"
/venv/bin/python -m venv "$V"
SP=$("$V/bin/python" -c "import sysconfig; print(sysconfig.get_paths()['purelib'])")
printf "import site; site.addsitedir('/venv/lib/python3.12/site-packages')\n" > "$SP/_overlay.pth"
PIP_NO_INDEX=1 "$V/bin/pip" install -q --no-index --find-links /opt/veriftools/wheels z3-solver jsonschema cvc5 crosshair-tool >/dev/null 2>&1 || \
PIP_NO_INDEX=1 "$V/bin/pip" install -q --no-index --find-links /opt/veriftools/wheels z3-solver jsonschema
"$V/bin/python" -c "import z3, numpy, scipy, jsonschema; print('venv ok', z3.get_version_string())"
